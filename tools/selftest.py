#!/usr/bin/env python3
"""Rule self-test: apply one seeded change to a scratch worktree of /repo (outside /repo and /verif),
run a check against it and require that it reports a violation whose text contains the expected
fragment.  The scratch worktree is removed immediately afterwards.

usage: selftest.py <name>            run one entry of tools/selftests.json
       selftest.py --all [--prop Cxx]
An entry: {"name", "property", "expect": "<fragment of the VIOLATION block>",
           "revert": "<commit subject prefix>" | "patch": "<path relative to /verif>"}
"""
import sys, os, json, subprocess, tempfile, shutil
V = os.path.dirname(os.path.dirname(os.path.abspath(__file__)))
REPO = '/repo'


def sh(cmd, cwd=None, check=True):
    r = subprocess.run(cmd, cwd=cwd, stdout=subprocess.PIPE, stderr=subprocess.STDOUT, text=True)
    if check and r.returncode != 0:
        raise RuntimeError('%s failed:\n%s' % (' '.join(cmd), r.stdout))
    return r


def find_commit(prefix):
    out = sh(['git', '-C', REPO, 'log', '--format=%H %s']).stdout.splitlines()
    for l in out:
        h, s = l.split(' ', 1)
        if s.startswith(prefix):
            return h
    raise RuntimeError('no commit with subject prefix %r' % prefix)


def run_entry(e):
    d = tempfile.mkdtemp(prefix='vw-', dir=os.environ.get('TMPDIR', '/tmp'))
    os.rmdir(d)
    try:
        sh(['git', '-C', REPO, 'worktree', 'add', '--detach', d, 'HEAD'])
        if 'revert' in e:
            for pre in ([e['revert']] if isinstance(e['revert'], str) else e['revert']):
                sh(['git', '-C', d, 'revert', '--no-commit', find_commit(pre)])
        if 'patch' in e:
            sh(['git', '-C', d, 'apply', os.path.join(V, e['patch'])])
        r = sh([os.path.join(V, 'check'), e['property'], '--repo', d] + (['--tier', e['tier']] if e.get('tier') else []), check=False)
        out = r.stdout
        fired = r.returncode == 1 and 'VIOLATION property=%s' % e['property'] in out
        hit = e['expect'] in out
        ok = fired and hit
        print('%-40s %-4s %s' % (e['name'], e['property'], 'FIRES as expected' if ok else 'MISSED (rc=%d, expected fragment %s)' % (r.returncode, 'found' if hit else 'absent')))
        if not ok:
            print(out[-1500:])
        return ok
    finally:
        sh(['git', '-C', REPO, 'worktree', 'remove', '--force', d], check=False)
        shutil.rmtree(d, ignore_errors=True)
        # restore /verif evidence of the unchanged tree is the caller's business (checks rewrite it)


def main():
    tests = json.load(open(os.path.join(V, 'tools', 'selftests.json')))
    args = sys.argv[1:]
    if args and args[0] == '--all':
        prop = args[2] if len(args) > 2 and args[1] == '--prop' else None
        sel = [t for t in tests if prop is None or t['property'] == prop]
    else:
        sel = [t for t in tests if t['name'] in args]
    bad = 0
    for t in sel:
        if not run_entry(t):
            bad += 1
    print('%d/%d self-tests fired' % (len(sel) - bad, len(sel)))
    sys.exit(1 if bad else 0)


if __name__ == '__main__':
    main()
