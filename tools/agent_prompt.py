#!/usr/bin/env python3
"""prints the prompt for a mutation sub-agent: only the property text and its scratch worktree"""
import json, sys, subprocess, os
pid = sys.argv[1]; tag = sys.argv[2] if len(sys.argv) > 2 else 'a'
prop = [json.loads(l) for l in open('/verif/properties.jsonl') if json.loads(l)['id'] == pid][0]
wt = '/tmp/agent-%s-%s' % (pid, tag)
if not os.path.exists(wt):
    subprocess.check_call(['git', '-C', '/repo', 'worktree', 'add', '--detach', wt, 'HEAD'], stdout=subprocess.DEVNULL, stderr=subprocess.DEVNULL)
os.makedirs(wt + '/out', exist_ok=True)
print(f"""You are helping test a verification tool by producing a realistic buggy variant of an open-source Rust project (locka99/opcua, an OPC UA client/server stack). You work ONLY inside your own scratch git worktree: {wt} (a checkout of the project; do not touch /repo or /verif, and do not read anything under /verif).

The semantic property of the project that your change must BREAK:

{json.dumps({k: prop[k] for k in ('id','title','statement','quantifier','why_tests_cant','anchors')}, indent=1)}

Task: make a small source change to the library (under {wt}/lib/src) that breaks this property, while
  (1) the project still compiles, and
  (2) the existing test suite still passes: run `cd {wt} && CARGO_TARGET_DIR={wt}/target cargo test -p opcua --lib --offline` (about 370 tests; the sandbox has no network, always pass --offline). All tests that pass before your change must still pass after it.
The change should be the kind of regression a real developer could introduce (a refactor gone wrong, an off-by-one, a dropped check, a reordered statement, a wrong field or operator, a missing call on one path, two sites that each look fine alone). It must need something specific to manifest - a particular input, interleaving, multi-step sequence of operations, fault at a particular point or unusual configuration - not something ordinary use would expose at once. Do not add dead code, comments announcing the bug, or new obviously-suspicious helper names. Keep it minimal (usually 1-15 changed lines).

Also write a demonstration: a new Rust test (add it as a new `#[test]` in an existing test module of the crate, or a new file under lib/src/.../tests wired in with `mod`) that FAILS (or panics / hangs with a timeout you implement) with your change and PASSES on the original code. Verify both directions yourself by running it with and without your change (save your change with `git diff > file` and undo it with `git apply -R file`; NEVER use `git stash`: the stash is shared between all worktrees of this repository and other engineers are working in sibling worktrees).

Deliver, in {wt}/out/:
  - patch.diff : `git diff` of ONLY the breaking change (no test), relative to the worktree's HEAD, so that `git apply patch.diff` works on a clean checkout
  - demo.diff  : `git diff` of ONLY the added demonstration test, applying on a clean checkout (and also together with patch.diff)
  - meta.json  : {{"property": "{pid}", "summary": "<what you changed and why it breaks the property>", "needs": "<what specific input/sequence/schedule/config is needed for it to manifest>", "demo_cmd": "<exact cargo test command running only your demo test>", "ran": ["<commands you ran and their outcome>"]}}
When done, leave the worktree with both diffs applied or not as you like; just make sure the three files exist and are correct. Reply with a 5-line summary. Build output must stay inside {wt}/target.""")
