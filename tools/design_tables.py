#!/usr/bin/env python3
"""Regenerates the generated tables of DESIGN.md in place (between <!-- BEGIN:x --> / <!-- END:x --> markers):
  rules-table   per claimed property: engines, obligations and status mix of the evidence currently on disk
  seeded-table  every seeded change under /verif/seeded with what it needs and which check reports it
  fixes-table   the `fixed` entries of known_findings.json
Needs evidence/*.json of the tier you want shown (run tools/runall.sh first) and seeded/*/meta.json (tools/seeded_run.py)."""
import json, os, re, glob
V = os.path.dirname(os.path.dirname(os.path.abspath(__file__)))
claims = json.load(open(os.path.join(V, 'tools', 'claims.json')))['claimed']

def rules_table():
    rows = ['| id | engines | obligations | status mix | rules (obligation groups) |', '|---|---|---|---|---|']
    for p in sorted(claims):
        ev = json.load(open(os.path.join(V, 'evidence', p + '.json')))
        cov = ev['coverage']
        mix = ', '.join('%s=%d' % (k, v) for k, v in sorted(cov['by_status'].items()))
        rules = sorted({s['rule'] for s in cov.get('samples', []) if 'rule' in s})
        rows.append('| %s | %s | %d (%s) | %s | %s |' % (p, claims[p]['engine'], cov['obligations'], ev['tier'], mix, ', '.join(rules)))
    return '\n'.join(rows)

STRENGTHENED = json.load(open(os.path.join(V, 'tools', 'strengthened.json'))) if os.path.exists(os.path.join(V, 'tools', 'strengthened.json')) else {}

def seeded_table():
    rows = ['| seed | change (one line) | needs | reported by (rule key) | check had to be strengthened |', '|---|---|---|---|---|']
    for d in sorted(glob.glob(os.path.join(V, 'seeded', '*'))):
        sid = os.path.basename(d)
        m = json.load(open(os.path.join(d, 'meta.json')))
        summ = re.sub(r'\s+', ' ', m.get('summary', ''))[:170].replace('|', '/')
        needs = re.sub(r'\s+', ' ', m.get('needs', ''))[:110].replace('|', '/')
        det = m.get('detected_now') or {}
        rep = []
        for prop, rr in det.items():
            if rr.get('detected'):
                rep.append('%s: %s' % (prop, (rr.get('new_violation_keys') or ['?'])[0][:70].replace('|', '/')))
        if not rep:
            db = m.get('detected_by', {})
            for prop, rr in db.items():
                if rr.get('violations'):
                    rep.append('%s: %s' % (prop, (rr.get('first') or ['?'])[0][:80].replace('|', '/')))
        rows.append('| %s | %s | %s | %s | %s |' % (sid, summ, needs, '; '.join(rep) or 'NOT DETECTED', STRENGTHENED.get(sid, 'no')))
    return '\n'.join(rows)

def fixes_table():
    k = json.load(open(os.path.join(V, 'known_findings.json')))
    rows = ['| property | commit subject (in /repo) | what failed |', '|---|---|---|']
    for e in k['fixed']:
        rows.append('| %s | %s | %s |' % (e['property'], e['commit'][:90].replace('|', '/'), e['what'][:150].replace('|', '/')))
    return '\n'.join(rows)

p = os.path.join(V, 'DESIGN.md')
s = open(p).read()
for name, fn in (('rules-table', rules_table), ('seeded-table', seeded_table), ('fixes-table', fixes_table)):
    b, e = '<!-- BEGIN:%s -->' % name, '<!-- END:%s -->' % name
    if b in s and e in s:
        i, j = s.index(b) + len(b), s.index(e)
        s = s[:i] + '\n' + fn() + '\n' + s[j:]
open(p, 'w').write(s)
print('tables regenerated')
