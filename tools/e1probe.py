import sys, os; sys.path.insert(0, os.path.dirname(os.path.dirname(os.path.abspath(__file__))))
import sys, collections
from analysis.context import Ctx
from analysis.panics import *
ctx=Ctx('CXX','quick')
pat=sys.argv[1]; stop=sys.argv[2] if len(sys.argv)>2 and sys.argv[2] else None
run_e1(ctx, pat, stop_pattern=stop)
c=collections.Counter(o.status for o in ctx.r.obls); print(c, ctx.r.counts)
kinds=collections.Counter((o.status, o.key.split('|')[1]) for o in ctx.r.obls)
for k,v in sorted(kinds.items()): print(v,k)
if len(sys.argv)>3:
    for o in ctx.r.obls:
        if o.status=='violation': print(o.loc, '|', o.key.split('|',1)[1][:150], '|', o.detail.split(' | reached')[0][:100])
