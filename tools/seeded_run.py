#!/usr/bin/env python3
"""Re-runs the registered checks against every seeded change under /verif/seeded and records what detects it.
The patch is applied to a scratch worktree of /repo's HEAD (or of the commit it was written against when it no
longer applies); a change counts as detected when the check reports a violation key that the same tree without
the patch does not report."""
import sys, os, json, subprocess, shutil, tempfile, re
V = os.path.dirname(os.path.dirname(os.path.abspath(__file__)))
only = sys.argv[1:] 

def keys_of(prop, repo):
    r = subprocess.run([os.path.join(V, 'check'), prop, '--repo', repo], cwd=V, stdout=subprocess.PIPE, stderr=subprocess.STDOUT, text=True)
    ks = set(re.findall(r'^  rule=\S+ key=(.*)$', r.stdout, re.M))
    return r.returncode, ks

rows = []
for sid in sorted(os.listdir(os.path.join(V, 'seeded'))):
    if only and sid not in only:
        continue
    d = os.path.join(V, 'seeded', sid)
    meta = json.load(open(os.path.join(d, 'meta.json')))
    props = meta.get('check_with') or [meta['property']]
    wt = tempfile.mkdtemp(prefix='vw-s-'); os.rmdir(wt)
    base = 'HEAD'
    subprocess.check_call(['git', '-C', '/repo', 'worktree', 'add', '--detach', wt, 'HEAD'], stdout=subprocess.DEVNULL, stderr=subprocess.DEVNULL)
    try:
        ap = subprocess.run(['git', '-C', wt, 'apply', '--check', os.path.join(d, 'patch.diff')], stdout=subprocess.PIPE, stderr=subprocess.STDOUT)
        if ap.returncode != 0:
            base = meta['base_commit']
            subprocess.check_call(['git', '-C', wt, 'checkout', '-q', '--detach', base])
        res = {}
        for p in props:
            before = set()
            if base != 'HEAD':
                _, before = keys_of(p, wt)
            subprocess.check_call(['git', '-C', wt, 'apply', os.path.join(d, 'patch.diff')])
            rc, after = keys_of(p, wt)
            subprocess.check_call(['git', '-C', wt, 'checkout', '-q', '--', '.'])
            new = sorted(after - before)
            res[p] = {'detected': bool(new), 'exit': rc, 'new_violation_keys': new[:3], 'applied_on': base if base == 'HEAD' else base[:10]}
        meta['detected_now'] = res
        json.dump(meta, open(os.path.join(d, 'meta.json'), 'w'), indent=1)
        rows.append((sid, {p: v['detected'] for p, v in res.items()}, base if base == 'HEAD' else 'base'))
    finally:
        subprocess.call(['git', '-C', '/repo', 'worktree', 'remove', '--force', wt], stdout=subprocess.DEVNULL, stderr=subprocess.DEVNULL)
        shutil.rmtree(wt, ignore_errors=True)
for r in rows:
    print('%-12s %-40s %s' % (r[0], r[1], r[2]))
print('%d/%d seeded changes detected' % (sum(1 for r in rows if any(r[1].values())), len(rows)))
