#!/usr/bin/env python3
"""disp_rules.py <prop> <rules.json>: authoring helper - applies (file regex, kind regex, snippet regex) -> disposition rules to
the currently undispositioned sites of a property and appends ONE EXACT-KEY ENTRY PER SITE to tables/dispositions.toml
(the table itself stays per-site; the rules file is only kept as provenance of how the entries were written)."""
import sys, os, json, re
sys.path.insert(0, os.path.dirname(os.path.dirname(os.path.abspath(__file__))))
os.chdir(os.path.dirname(os.path.dirname(os.path.abspath(__file__))))
from tools.disp import collect, tq
prop, rules_path = sys.argv[1], sys.argv[2]
rules = json.load(open(rules_path))
ctx, sites = collect(prop)
out = []; left = []
for o in sites:
    f = o.loc.rsplit(':', 1)[0]
    kind = o.key.split('|')[1]; snip = o.key.split('|', 2)[2]
    hit = None
    for r in rules:
        if re.search(r['file'], f) and re.search(r['kind'], kind) and re.search(r.get('snippet', ''), snip):
            hit = r; break
    if not hit:
        left.append('%s|%s|%s' % (o.loc, kind, snip[:50])); continue
    ent = '\n[[site]]\nkey = %s\nstatus = %s\nreason = %s\n' % (tq(o.key), tq(hit['status']), tq(hit['reason']))
    if hit.get('premises'):
        ent += 'premises = [%s]\n' % ', '.join(tq(p) for p in hit['premises'])
    if hit.get('callers') is not None:
        ent += 'callers = [%s]\n' % ', '.join(tq(p) for p in hit['callers'])
    out.append(ent)
open('tables/dispositions.toml', 'a').write(''.join(out))
print('added', len(out), 'left', len(left))
for l in left[:60]:
    print('  ', l)
