import sys, os; sys.path.insert(0, os.path.dirname(os.path.dirname(os.path.abspath(__file__))))
from analysis.context import Ctx
from analysis.locks import *
import collections
ctx=Ctx('X','quick'); db=ctx.db; cg=ctx.cg
L=LockAnalysis(ctx)
roots=[n for n in L.coroutines if db.instances[n].path.startswith('server::')]
roots+=cg.instances_matching(r'^server::.*\{closure#\d+\}$')
scope=cg.reach(roots)
edges,aw=L.edges(scope.keys())
writers={c for n,bb,c,m in L.acq_sites if m=='write' and n in scope}
blocking=[(h,c,s) for h,c,s in edges if c[1]=='write' or c[0] in writers]
g=collections.defaultdict(set)
for h,c,s in blocking: g[h[0]].add(c[0])
# SCC over classes
def sccs(g):
    idx={};low={};st=[];on=set();res=[];cnt=[0]
    def dfs(v):
        idx[v]=low[v]=cnt[0];cnt[0]+=1;st.append(v);on.add(v)
        for w in g.get(v,()):
            if w not in idx: dfs(w);low[v]=min(low[v],low[w])
            elif w in on: low[v]=min(low[v],idx[w])
        if low[v]==idx[v]:
            comp=[]
            while True:
                w=st.pop();on.discard(w);comp.append(w)
                if w==v:break
            if len(comp)>1 or v in g.get(v,()): res.append(comp)
    for v in list(g):
        if v not in idx: dfs(v)
    return res
for comp in sccs(g):
    print('SCC',[short(c) for c in comp])
    cs=set(comp)
    seen=set()
    for h,c,s in blocking:
        if h[0] in cs and c[0] in cs:
            k=(short(h[0]),h[1],short(c[0]),c[1],s['fn'],s['at'])
            if k in seen: continue
            seen.add(k)
            print('   %s(%s) -> %s(%s)  in %s at %s via %s'%(short(h[0]),h[1],short(c[0]),c[1],s['fn'],s['at'],s['via'][:200]))
print('across await:')
for n,bi,h in aw: print(db.instances[n].path, bi, short(h[1]),h[2])
