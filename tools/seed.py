#!/usr/bin/env python3
"""seed.py <agent worktree> <seed id> [--checks C02,C03]
Confirms a sub-agent's seeded change in its scratch worktree (demo passes without / fails with the change, existing
lib tests pass with it), runs the registered checks against it, files it under /verif/seeded/<id>/ and removes the worktree."""
import sys, os, json, subprocess, shutil, re, time
V = os.path.dirname(os.path.dirname(os.path.abspath(__file__)))
wt, sid = sys.argv[1], sys.argv[2]
checks = None
if '--checks' in sys.argv:
    checks = sys.argv[sys.argv.index('--checks') + 1].split(',')
keep = '--keep' in sys.argv
out = os.path.join(wt, 'out')
meta = json.load(open(os.path.join(out, 'meta.json')))
prop = meta['property']
env = dict(os.environ, CARGO_TARGET_DIR=os.path.join(wt, 'target'), CARGO_NET_OFFLINE='true')
log = []

def sh(cmd, **kw):
    r = subprocess.run(cmd, shell=True, cwd=wt, env=env, stdout=subprocess.PIPE, stderr=subprocess.STDOUT, text=True, **kw)
    return r.returncode, r.stdout

def reset():
    sh('git checkout -- . && git clean -fdq lib integration samples')

# save deliverables first (reset would not touch out/, it is untracked outside lib; keep a copy anyway)
tmp = os.path.join('/tmp', 'seed-' + sid); shutil.rmtree(tmp, ignore_errors=True); shutil.copytree(out, tmp)
reset()
rc, o = sh('git apply %s/demo.diff' % tmp)
assert rc == 0, 'demo.diff does not apply: ' + o
demo_cmd = meta['demo_cmd']
m = re.search(r'cargo test.*', demo_cmd)
demo = m.group(0) if m else demo_cmd
demo = re.sub(r'CARGO_TARGET_DIR=\S+\s*', '', demo)
t0 = time.time()
rc1, o1 = sh(demo + ' 2>&1 | tail -15')
passed_without = ' 1 passed' in o1 or re.search(r'test result: ok\. [1-9]', o1) is not None
log.append('demo without change: %s' % ('PASS' if passed_without else 'NOT PASS'))
rc, o = sh('git apply %s/patch.diff' % tmp)
assert rc == 0, 'patch.diff does not apply on top of demo: ' + o
rc2, o2 = sh('timeout 900 ' + demo + ' 2>&1 | tail -15')
failed_with = ('FAILED' in o2 or 'panicked' in o2 or 'overflowed its stack' in o2 or 'SIGABRT' in o2 or 'timed out' in o2.lower() or rc2 == 124) and not re.search(r'test result: ok\. [1-9]', o2)
log.append('demo with change: %s' % ('FAILS' if failed_with else 'DOES NOT FAIL'))
# existing suite with the change only
reset()
sh('git apply %s/patch.diff' % tmp)
rc3, o3 = sh('timeout 2400 cargo test -p opcua --lib --offline 2>&1 | grep -E "^test result|FAILED|^error" | head -5')
suite_ok = 'test result: ok.' in o3 and 'FAILED' not in o3
log.append('existing lib tests with change: %s (%s)' % ('PASS' if suite_ok else 'FAIL', o3.strip().splitlines()[0] if o3.strip() else ''))
# run checks
props = checks or [prop]
det = {}
for p in props:
    r = subprocess.run([os.path.join(V, 'check'), p, '--repo', wt], cwd=V, stdout=subprocess.PIPE, stderr=subprocess.STDOUT, text=True)
    viol = [l for l in r.stdout.splitlines() if l.startswith('VIOLATION')]
    keys = [l.strip() for l in r.stdout.splitlines() if l.strip().startswith('rule=')]
    det[p] = {'exit': r.returncode, 'violations': len(viol), 'first': keys[:3]}
    log.append('check %s: exit %d, %d violation(s) %s' % (p, r.returncode, len(viol), keys[:2]))
confirmed = passed_without and failed_with and suite_ok
print('\n'.join(log))
print('CONFIRMED' if confirmed else 'NOT CONFIRMED')
if not passed_without:
    print(o1[-600:])
if not failed_with:
    print(o2[-600:])
if confirmed:
    dst = os.path.join(V, 'seeded', sid)
    os.makedirs(dst, exist_ok=True)
    for f in ('patch.diff', 'demo.diff'):
        shutil.copy(os.path.join(tmp, f), os.path.join(dst, f))
    meta['confirmed_by_me'] = log
    meta['detected_by'] = {p: d for p, d in det.items()}
    meta['base_commit'] = subprocess.check_output(['git', '-C', wt, 'rev-parse', 'HEAD'], text=True).strip()
    json.dump(meta, open(os.path.join(dst, 'meta.json'), 'w'), indent=1)
if not keep:
    subprocess.call(['git', '-C', '/repo', 'worktree', 'remove', '--force', wt], stdout=subprocess.DEVNULL, stderr=subprocess.DEVNULL)
    shutil.rmtree(wt, ignore_errors=True)
shutil.rmtree(tmp, ignore_errors=True)
