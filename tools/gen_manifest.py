#!/usr/bin/env python3
"""Regenerates /verif/MANIFEST.json from tools/claims.json (claimed checks) and properties.jsonl."""
import json, os
V = os.path.dirname(os.path.dirname(os.path.abspath(__file__)))
props = [json.loads(l) for l in open(os.path.join(V, 'properties.jsonl'))]
claims = json.load(open(os.path.join(V, 'tools', 'claims.json')))
checks = []
for p in props:
    c = claims['claimed'].get(p['id'])
    if not c:
        continue
    checks.append({
        'property_id': p['id'],
        'quick_cmd': './check %s --tier quick' % p['id'],
        'thorough_cmd': './check %s --tier thorough' % p['id'],
        'evidence_file': '/verif/evidence/%s.json' % p['id'],
        'replay_cmd_template': './check %s --replay {path}' % p['id'],
        'engine': c['engine'],
        'level_claimed': {'category': 'other', 'text': c['level'], 'design_ref': 'DESIGN.md section 4, ' + p['id']},
        'level_note': c['note'],
        'technique': c['technique'],
    })
na = []
for p in props:
    if p['id'] in claims['claimed']:
        continue
    na.append({'property_id': p['id'], 'reason': claims['not_applicable'].get(p['id'], 'planned rule not built yet (see DESIGN.md section 4)')})
m = {
    'version': 1,
    'setup_cmd': './setup.sh',
    'hooks': {
        'guard': 'locka99_opcua_verif',
        'enable': 'none: no hooks or instrumentation are used; every check analyses the stock `cargo +nightly check -p opcua --lib` build through the rustc wrapper /verif/driver',
        'baseline_off_cmd': 'cd /repo && cargo test --workspace --no-fail-fast --offline',
        'source_commits': [],
        'add_only': True,
    },
    'engines': claims['engines'],
    'checks': checks,
    'notes': claims['notes'],
    'not_applicable': na,
}
json.dump(m, open(os.path.join(V, 'MANIFEST.json'), 'w'), indent=1)
print('claimed', len(checks), 'not_applicable', len(na))
