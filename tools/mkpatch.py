#!/usr/bin/env python3
"""mkpatch.py <name> <property> <expect> <file> <<< JSON [[old,new],...]  -> selftest_patches/<name>.diff + selftests.json entry"""
import sys, os, json, subprocess, tempfile, shutil
V = os.path.dirname(os.path.dirname(os.path.abspath(__file__)))
name, prop, expect, path = sys.argv[1:5]
pairs = json.load(sys.stdin)
d = tempfile.mkdtemp(prefix='vw-p-'); os.rmdir(d)
subprocess.check_call(['git', '-C', '/repo', 'worktree', 'add', '--detach', d, 'HEAD'], stdout=subprocess.DEVNULL, stderr=subprocess.DEVNULL)
try:
    p = os.path.join(d, path)
    s = open(p, newline='').read()
    crlf = '\r\n' in s
    for old, new in pairs:
        if crlf:
            old = old.replace('\r\n', '\n').replace('\n', '\r\n'); new = new.replace('\r\n', '\n').replace('\n', '\r\n')
        assert s.count(old) == 1, (old, s.count(old))
        s = s.replace(old, new)
    open(p, 'w', newline='').write(s)
    diff = subprocess.check_output(['git', '-C', d, 'diff'])
    open(os.path.join(V, 'selftest_patches', name + '.diff'), 'wb').write(diff)
finally:
    subprocess.call(['git', '-C', '/repo', 'worktree', 'remove', '--force', d], stdout=subprocess.DEVNULL, stderr=subprocess.DEVNULL)
    shutil.rmtree(d, ignore_errors=True)
t = json.load(open(os.path.join(V, 'tools', 'selftests.json')))
t = [x for x in t if x['name'] != name]
t.append({'name': name, 'property': prop, 'patch': 'selftest_patches/%s.diff' % name, 'expect': expect})
json.dump(t, open(os.path.join(V, 'tools', 'selftests.json'), 'w'), indent=1)
print('wrote', name, len(diff.splitlines()), 'lines')
