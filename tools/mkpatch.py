#!/usr/bin/env python3
"""mkpatch.py <name> <property> <expect> <file> <<< JSON [[old,new],...]  -> selftest_patches/<name>.diff + selftests.json entry"""
import sys, os, json, subprocess, tempfile, shutil
V = os.path.dirname(os.path.dirname(os.path.abspath(__file__)))
name, prop, expect, path = sys.argv[1:5]
pairs = json.load(sys.stdin)
d = tempfile.mkdtemp(prefix='vw-p-'); os.rmdir(d)
subprocess.check_call(['git', '-C', '/repo', 'worktree', 'add', '--detach', d, 'HEAD'], stdout=subprocess.DEVNULL, stderr=subprocess.DEVNULL)
try:
    p = os.path.join(d, path)
    s = open(p).read()
    for old, new in pairs:
        assert s.count(old) == 1, (old, s.count(old))
        s = s.replace(old, new)
    open(p, 'w').write(s)
    diff = subprocess.check_output(['git', '-C', d, 'diff'], text=True)
    open(os.path.join(V, 'selftest_patches', name + '.diff'), 'w').write(diff)
finally:
    subprocess.call(['git', '-C', '/repo', 'worktree', 'remove', '--force', d], stdout=subprocess.DEVNULL, stderr=subprocess.DEVNULL)
    shutil.rmtree(d, ignore_errors=True)
t = json.load(open(os.path.join(V, 'tools', 'selftests.json')))
t = [x for x in t if x['name'] != name]
t.append({'name': name, 'property': prop, 'patch': 'selftest_patches/%s.diff' % name, 'expect': expect})
json.dump(t, open(os.path.join(V, 'tools', 'selftests.json'), 'w'), indent=1)
print('wrote', name, len(diff.splitlines()), 'lines')
