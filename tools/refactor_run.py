#!/usr/bin/env python3
"""Silence test: apply a behaviour-preserving change (refactors/<name>/patch.diff, written by an independent sub-agent that was
asked for harmless clean-ups) to a scratch worktree of /repo and run every claimed check against it.  Every VIOLATION is a false
alarm of the machinery (or a refactoring that was not behaviour-preserving after all - triage by reading).

usage: refactor_run.py [name ...]      (default: every directory under /verif/refactors)
writes refactors/<name>/result.json  {property: [violation blocks]}"""
import sys, os, json, subprocess, tempfile, shutil, re
V = os.path.dirname(os.path.dirname(os.path.abspath(__file__)))
REPO = '/repo'


def sh(cmd, check=True):
    r = subprocess.run(cmd, stdout=subprocess.PIPE, stderr=subprocess.STDOUT, text=True)
    if check and r.returncode != 0:
        raise RuntimeError('%s failed:\n%s' % (' '.join(cmd), r.stdout))
    return r


def run(name, props):
    d = tempfile.mkdtemp(prefix='vw-r-'); os.rmdir(d)
    res = {}
    try:
        sh(['git', '-C', REPO, 'worktree', 'add', '--detach', d, 'HEAD'])
        patch = os.path.join(V, 'refactors', name, 'patch.diff')
        if sh(['git', '-C', d, 'apply', '--check', patch], check=False).returncode == 0:
            sh(['git', '-C', d, 'apply', patch])
        elif sh(['git', '-C', d, 'apply', '--3way', patch], check=False).returncode != 0:
            # written against an older commit and no longer mergeable: analyse it on that commit
            base = json.load(open(os.path.join(V, 'refactors', name, 'meta.json'))).get('base')
            sh(['git', '-C', d, 'reset', '-q', '--hard']); sh(['git', '-C', d, 'checkout', '-q', '--detach', base])
            sh(['git', '-C', d, 'apply', patch])
        for p in props:
            r = sh([os.path.join(V, 'check'), p, '--repo', d], check=False)
            out = r.stdout
            if r.returncode not in (0, 1):
                res[p] = ['check crashed rc=%d: %s' % (r.returncode, out[-600:])]
                continue
            blocks = []
            lines = out.splitlines()
            for i, l in enumerate(lines):
                if l.startswith('VIOLATION'):
                    blocks.append(' | '.join(x.strip()[:260] for x in lines[i + 1:i + 3]))
            if blocks or r.returncode == 1:
                res[p] = blocks or ['exit 1 without VIOLATION line']
    finally:
        sh(['git', '-C', REPO, 'worktree', 'remove', '--force', d], check=False)
        shutil.rmtree(d, ignore_errors=True)
    json.dump(res, open(os.path.join(V, 'refactors', name, 'result.json'), 'w'), indent=1)
    return res


def main():
    claims = json.load(open(os.path.join(V, 'tools', 'claims.json')))['claimed']
    props = sorted(claims)
    names = sys.argv[1:] or sorted(os.listdir(os.path.join(V, 'refactors')))
    bad = 0
    for n in names:
        res = run(n, props)
        print('%-16s %d/%d checks silent' % (n, len(props) - len(res), len(props)))
        for p, bl in sorted(res.items()):
            for b in bl:
                print('   %s  %s' % (p, b))
        bad += len(res)
    sys.exit(1 if bad else 0)


if __name__ == '__main__':
    main()
