#!/bin/sh
# run every claimed check (quick tier) on /repo and print one summary line each
cd "$(dirname "$0")/.."
for p in $(python3 -c "import json;print(' '.join(sorted(json.load(open('tools/claims.json'))['claimed'].keys())))"); do
  ./check $p "$@" 2>&1 | grep -E "^(VIOLATION|KNOWN-FINDING|C[0-9]+ )" | cut -c1-220
done
