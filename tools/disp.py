#!/usr/bin/env python3
"""Authoring helper for tables/dispositions.toml.
  disp.py list <prop>                 undispositioned E1 sites of a property (compact)
  disp.py add <prop> <authoring.json> add entries; authoring.json = [[file_suffix, line, kind_prefix, status, reason, [premises]], ...]
Line numbers are used only here, at authoring time, to pick the site; the stored key is line-free
(function path | site kind | normalised source snippet # ordinal)."""
import sys, os, json, importlib
sys.path.insert(0, os.path.dirname(os.path.dirname(os.path.abspath(__file__))))
os.chdir(os.path.dirname(os.path.dirname(os.path.abspath(__file__))))
os.environ['VERIF_EVIDENCE_DIR'] = os.path.join('.cache', 'scratch-evidence')
os.makedirs(os.environ['VERIF_EVIDENCE_DIR'], exist_ok=True)
from analysis.context import Ctx


def collect(prop):
    mod = importlib.import_module('analysis.rules.' + prop)
    ctx = Ctx(prop, 'quick')
    mod.run(ctx)
    return ctx, [o for o in ctx.r.obls if o.status in ('violation',) and '|' in o.key]


def tq(s):
    return '"' + s.replace('\\', '\\\\').replace('"', '\\"') + '"'


def main():
    cmd, prop = sys.argv[1], sys.argv[2]
    ctx, sites = collect(prop)
    if cmd == 'list':
        for o in sites:
            kind = o.key.split('|')[1]
            print('%s | %s | %s | %s' % (o.loc, kind, o.key.split('|', 2)[2][:110], (o.detail.split(' | reached')[0])[:110]))
        print(len(sites), 'undispositioned sites')
        return
    if cmd == 'lits':
        from analysis.panics import stable_lit
        want = sys.argv[3]
        for o in [o for o in ctx.r.obls if '|' in o.key]:
            if o.loc.endswith(want) or want in o.loc:
                fn = o.key.split('|')[0]
                b = ctx.db.body(fn)
                F = ctx.facts(b)
                # find the block of the site through its key: re-run inventory of that body
                from analysis.panics import sites_of_body, PanicTable
                inst = ctx.db.inst_by_body[b.id][0]
                for st in sites_of_body(ctx, b, inst, PanicTable()):
                    if st.key == o.key:
                        print(o.loc, o.key.split('|')[1], o.key.split('|', 2)[2][:60])
                        for l, e in F.literals_at(st.bb):
                            print('     ', stable_lit(b, l)[:200])
        return
    if cmd == 'add':
        auth = json.load(open(sys.argv[3]))
        out = []
        used = set()
        for o in sites:
            f, l = o.loc.rsplit(':', 1)
            kind = o.key.split('|')[1]
            for i, a in enumerate(auth):
                if f.endswith(a[0]) and int(l) == a[1] and kind.startswith(a[2]):
                    used.add(i)
                    ent = '\n[[site]]\nkey = %s\nstatus = %s\nreason = %s\n' % (tq(o.key), tq(a[3]), tq(a[4]))
                    if len(a) > 5 and a[5]:
                        ent += 'premises = [%s]\n' % ', '.join(tq(p) for p in a[5])
                    if len(a) > 6 and a[6] is not None:
                        ent += 'callers = [%s]\n' % ', '.join(tq(p) for p in a[6])
                    out.append(ent)
                    break
        with open('tables/dispositions.toml', 'a') as fh:
            fh.write(''.join(out))
        print('added', len(out), 'entries;', 'unused authoring rows:', [auth[i][:3] for i in range(len(auth)) if i not in used])

if __name__ == '__main__':
    main()
