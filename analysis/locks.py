"""E3: lock-order graph over parking_lot locks (classes = payload types)."""
import re, collections
from .mirdb import generic_args_of, Loc

LOCK_CALL = re.compile(r'lock_api::(rwlock::)?RwLock::<.*>::(read|write|upgradable_read|read_recursive)$|lock_api::(mutex::)?Mutex::<.*>::lock$')
GUARD_TY = re.compile(r'lock_api::(rwlock::|mutex::)?(RwLockReadGuard|RwLockWriteGuard|RwLockUpgradableReadGuard|MutexGuard|MappedRwLockReadGuard|MappedRwLockWriteGuard|MappedMutexGuard)<')


def lock_of_call(full):
    """(class, mode) for a resolved callee path that is a blocking lock acquisition, else None"""
    if not LOCK_CALL.search(full):
        return None
    seg = 'RwLock' if 'RwLock::<' in full else 'Mutex'
    args = generic_args_of(full, seg)
    if len(args) < 2:
        return None
    mode = 'write' if full.endswith(('::write', '::lock', '::upgradable_read')) else 'read'
    return args[1], mode


def short(cls):
    return re.sub(r'([a-z_0-9]+::)+', '', cls)


class LockAnalysis:
    def __init__(self, ctx):
        self.ctx = ctx; self.db = ctx.db; self.cg = ctx.cg
        self.direct = collections.defaultdict(set)     # inst -> {(class, mode)}
        self.acq_sites = []                             # (inst, bb, class, mode)
        for i in self.db.instances.values():
            for bb, c in i.calls.items():
                lk = lock_of_call(c[3])
                if lk:
                    self.direct[i.n].add(lk)
                    self.acq_sites.append((i.n, bb, lk[0], lk[1]))
        self.coroutines = {i.n for i in self.db.instances.values() if self.db.bodies[i.body_id].kind == 'coroutine'}
        self._summary = None

    def follow(self, e):
        # a coroutine body runs when polled, not where it is constructed; holding a guard across an
        # await is reported separately, so construction edges into coroutines carry no held locks
        if e.kind == 'ctor' and e.dst in self.coroutines:
            return False
        return True

    def summaries(self):
        """inst -> {(class, mode): (via_inst, bb)} transitive may-acquire sets (fixpoint over reverse edges)"""
        if self._summary is not None:
            return self._summary
        summ = {n: set(s) for n, s in self.direct.items()}
        rev = collections.defaultdict(list)
        for src, es in self.cg.out.items():
            for e in es:
                if self.follow(e):
                    rev[e.dst].append(src)
        work = collections.deque(summ.keys())
        while work:
            n = work.popleft()
            s = summ.get(n)
            if not s:
                continue
            for p in rev.get(n, ()):
                ps = summ.setdefault(p, set())
                if not s <= ps:
                    ps |= s
                    work.append(p)
        self._summary = summ
        return summ

    def witness_path(self, start, lk, maxlen=6):
        """call chain from instance `start` to a direct acquisition of lk"""
        seen = {start: None}
        dq = collections.deque([start])
        while dq:
            x = dq.popleft()
            if lk in self.direct.get(x, ()):
                p = [x]
                while seen[p[-1]] is not None:
                    p.append(seen[p[-1]])
                names = [self.db.instances[i].path for i in p[::-1]]
                if len(names) > maxlen:
                    names = names[:2] + ['...'] + names[-(maxlen - 3):]
                return ' -> '.join(names)
            for e in self.cg.out.get(x, ()):
                if self.follow(e) and e.dst not in seen and lk in self.summaries().get(e.dst, ()):
                    seen[e.dst] = x; dq.append(e.dst)
        return self.db.instances[start].path

    # ------------------------------------------------------------ per-body held sets
    def held_states(self, inst):
        """for each block: set of (acq_bb, class, mode, holder_local) that may be held on entry"""
        b = self.db.bodies[inst.body_id]
        acq = {}
        for bb, c in inst.calls.items():
            lk = lock_of_call(c[3])
            if lk:
                acq[bb] = lk
        if not acq:
            return b, {}, acq
        guard_ty = [bool(GUARD_TY.search(t)) for t in b.locals]
        nblocks = len(b.blocks)
        entry = [None] * nblocks
        entry[0] = frozenset()
        work = collections.deque([0])
        exit_state = {}

        def pk(pl):
            return (pl[0], tuple(pl[1]))

        def transfer(bi, st):
            st = set(st)
            for s in b.stmts(bi):
                if s[0] == '=':
                    rv = s[2]
                    dst = pk(s[1])
                    if rv[0] == 'use' and rv[1][0] in ('mv', 'cp'):
                        src = pk(rv[1][1])
                        for h in [h for h in st if h[3] == src]:
                            st.discard(h)
                            st.add((h[0], h[1], h[2], dst))
                    elif rv[0] == 'agg':
                        for op in rv[4]:
                            if op[0] == 'mv':
                                src = pk(op[1])
                                for h in [h for h in st if h[3] == src]:
                                    st.discard(h)
                                    st.add((h[0], h[1], h[2], dst))
                elif s[0] == 'dead':
                    for h in [h for h in st if h[3] == (s[1], ())]:
                        st.discard(h)
            return st

        def term_effect(bi, st):
            """state after the terminator (on the normal edge)"""
            t = b.term(bi)
            st = set(st)
            if t[0] == 'drop':
                d = pk(t[1])
                for h in [h for h in st if h[3] == d or (h[3][0] == d[0] and h[3][1][:len(d[1])] == d[1])]:
                    st.discard(h)
            elif t[0] == 'call':
                dest = pk(t[3])
                for a in t[2]:
                    if a[0] == 'mv':
                        src = pk(a[1])
                        for h in [h for h in st if h[3] == src]:
                            st.discard(h)
                            # guard-to-guard functions (downgrade, map): the result keeps holding
                            if not dest[1] and guard_ty[dest[0]]:
                                st.add((h[0], h[1], h[2], dest))
                if bi in acq:
                    st.add((bi, acq[bi][0], acq[bi][1], dest))
            return st

        before_term = {}
        while work:
            bi = work.popleft()
            st = transfer(bi, entry[bi])
            before_term[bi] = frozenset(st)
            out = frozenset(term_effect(bi, st))
            # drop flags: `switch(flag) -> [drop(P), skip]`; on the skipping edge P is known to be moved-out
            skip_place = {}
            t = b.term(bi)
            if t[0] == 'switch' and t[2] == 'bool' and t[1][0] in ('cp', 'mv'):
                dropped = {}
                for s, _ in b.succ_edges(bi):
                    x = s
                    for _i in range(3):
                        tx = b.term(x)
                        if tx[0] == 'drop':
                            dropped[s] = pk(tx[1]); break
                        if tx[0] == 'goto' and not b.stmts(x):
                            x = tx[1]
                        else:
                            break
                if len(dropped) == 1:
                    (ds, P), = dropped.items()
                    for s, _ in b.succ_edges(bi):
                        if s != ds:
                            skip_place[s] = P
            for s, _ in b.succ_edges(bi):
                if b.is_cleanup(s):
                    continue
                o2 = out
                if s in skip_place:
                    o2 = frozenset(h for h in out if h[3] != skip_place[s])
                new = o2 if entry[s] is None else (entry[s] | o2)
                if entry[s] is None or new != entry[s]:
                    entry[s] = new
                    work.append(s)
        return b, before_term, acq

    # ------------------------------------------------------------ edges
    def edges(self, scope):
        """lock-order edges [(held(class,mode), acquired(class,mode), site dict)] inside the instance scope"""
        summ = self.summaries()
        out = []
        across_await = []
        for n in scope:
            inst = self.db.instances[n]
            if not self.direct.get(n):
                continue
            b, before, acq = self.held_states(inst)
            if not before:
                continue
            for bi, held in before.items():
                if not held:
                    continue
                t = b.term(bi)
                where = None
                acquired = []   # [(class, mode, via)]
                if t[0] == 'call':
                    where = '%s:%s' % (t[6]['f'], t[6]['l'])
                    if bi in acq:
                        acquired.append((acq[bi][0], acq[bi][1], None))
                    for e in self.cg.out.get(n, ()):
                        if e.bb == bi and e.kind in ('call', 'cha', 'generic', 'forward') and self.follow(e):
                            for lk in summ.get(e.dst, ()):
                                acquired.append((lk[0], lk[1], e.dst))
                elif t[0] == 'drop':
                    where = '%s:%s' % (b.loc.file, t[5])
                    # the guard being dropped here is not "held" for what its own drop does
                    held = frozenset(h for h in held if h[3] != (t[1][0], tuple(t[1][1])))
                    for e in self.cg.out.get(n, ()):
                        if e.bb == bi and e.kind == 'drop':
                            for lk in summ.get(e.dst, ()):
                                acquired.append((lk[0], lk[1], e.dst))
                elif t[0] == 'return' and bi in b.suspend_blocks:
                    for h in held:
                        across_await.append((n, bi, h))
                # closures constructed while a lock is held run (at the latest) inside the consuming call
                for e in self.cg.out.get(n, ()):
                    if e.bb == bi and e.kind == 'ctor' and self.follow(e):
                        for lk in summ.get(e.dst, ()):
                            acquired.append((lk[0], lk[1], e.dst))
                for h in held:
                    for c, m, via in acquired:
                        out.append(((h[1], h[2]), (c, m), {
                            'fn': inst.path, 'inst': n, 'bb': bi, 'at': where,
                            'held_since_bb': h[0],
                            'via': self.witness_path(via, (c, m)) if via is not None else 'direct acquisition',
                        }))
        return out, across_await
