"""Shared context handed to every rule module."""
import importlib, json, os, sys
from . import extract
from .mirdb import DB
from .callgraph import CallGraph
from .facts import Facts
from .report import Reporter, VERIF


class Ctx:
    def __init__(self, prop, tier, features='default', repo=None):
        self.prop = prop; self.tier = tier; self.features = features
        self.repo = repo or extract.REPO
        self.facts_path = extract.facts_for(self.repo, features)
        self.db = DB(self.facts_path)
        self._cg = None
        self._facts = {}
        self.r = Reporter(prop, tier)
        self.r.extra['facts'] = {'bodies': self.db.meta['bodies'], 'instances': self.db.meta['instances'],
                                 'resolved_call_edges': self.db.meta['edges'], 'features': features}
        self.r.trusted = ['rustc nightly MIR construction, type and trait resolution, drop elaboration',
                          '/verif/driver fact serialisation', 'external crates behave as documented']

    @property
    def cg(self):
        if self._cg is None:
            self._cg = CallGraph(self.db)
        return self._cg

    def facts(self, body):
        f = self._facts.get(body.id)
        if f is None:
            f = Facts(self.db, body)
            self._facts[body.id] = f
        return f

    def table(self, name):
        import tomllib
        with open(os.path.join(VERIF, 'tables', name), 'rb') as f:
            return tomllib.load(f)


THOROUGH_EXTRA_CONFIGS = ['all']   # cargo feature sets that build offline besides `default` (server == default; client alone does not compile)


def _guarded(fn, ctx):
    """a rule that meets a shape it was not written for must fail closed, with a diagnosable message, not crash the check"""
    import traceback
    try:
        fn(ctx)
    except Exception as ex:
        tb = traceback.extract_tb(ex.__traceback__)
        where = '%s:%d' % (tb[-1].filename.rsplit('/', 1)[-1], tb[-1].lineno) if tb else '?'
        ctx.r.lost('engine', 'rule-aborted@' + where.split(':')[0], 'the rule met code it does not recognise and stopped (%s: %s at %s); the remaining obligations of this property were not examined'
                   % (type(ex).__name__, str(ex)[:120], where))


def run_property(prop, tier, replay=None, features='default'):
    """quick: the rules of the property over the default feature configuration.
    thorough: the same rules (plus a module's run_thorough, when it has one) over every feature configuration that
    builds offline; the obligations of all configurations go into one report, tagged with the configuration."""
    mod = importlib.import_module('analysis.rules.' + prop)
    ctx = Ctx(prop, tier, features)
    _guarded(mod.run, ctx)
    if tier == 'thorough':
        if hasattr(mod, 'run_thorough'):
            mod.run_thorough(ctx)
        configs = [{'features': features, 'obligations': len(ctx.r.obls), **ctx.r.extra.get('facts', {})}]
        for feat in THOROUGH_EXTRA_CONFIGS:
            if feat == features:
                continue
            n0 = len(ctx.r.obls)
            ctx2 = Ctx(prop, tier, feat)
            facts2 = ctx2.r.extra.get('facts', {})
            ctx2.r = ctx.r
            _guarded(mod.run, ctx2)
            if hasattr(mod, 'run_thorough'):
                mod.run_thorough(ctx2)
            for o in ctx.r.obls[n0:]:
                o.detail = ('[features=%s] ' % feat) + (o.detail or '')
            configs.append({'features': feat, 'obligations': len(ctx.r.obls) - n0, **facts2})
        ctx.r.extra['configurations'] = configs
    return ctx.r.finish()
