"""Shared context handed to every rule module."""
import importlib, json, os, sys
from . import extract
from .mirdb import DB
from .callgraph import CallGraph
from .facts import Facts
from .report import Reporter, VERIF


class Ctx:
    def __init__(self, prop, tier, features='default', repo=None):
        self.prop = prop; self.tier = tier; self.features = features
        self.repo = repo or extract.REPO
        self.facts_path = extract.facts_for(self.repo, features)
        self.db = DB(self.facts_path)
        self._cg = None
        self._facts = {}
        self.r = Reporter(prop, tier)
        self.r.extra['facts'] = {'bodies': self.db.meta['bodies'], 'instances': self.db.meta['instances'],
                                 'resolved_call_edges': self.db.meta['edges'], 'features': features}
        self.r.trusted = ['rustc nightly MIR construction, type and trait resolution, drop elaboration',
                          '/verif/driver fact serialisation', 'external crates behave as documented']

    @property
    def cg(self):
        if self._cg is None:
            self._cg = CallGraph(self.db)
        return self._cg

    def facts(self, body):
        f = self._facts.get(body.id)
        if f is None:
            f = Facts(self.db, body)
            self._facts[body.id] = f
        return f

    def table(self, name):
        import tomllib
        with open(os.path.join(VERIF, 'tables', name), 'rb') as f:
            return tomllib.load(f)


def run_property(prop, tier, replay=None, features='default'):
    mod = importlib.import_module('analysis.rules.' + prop)
    ctx = Ctx(prop, tier, features)
    mod.run(ctx)
    if tier == 'thorough' and hasattr(mod, 'run_thorough'):
        mod.run_thorough(ctx)
    return ctx.r.finish()
