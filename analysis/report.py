"""Obligation bookkeeping, known findings, VIOLATION / KNOWN-FINDING output and evidence files."""
import json, os, sys, time

VERIF = os.path.dirname(os.path.dirname(os.path.abspath(__file__)))

def evidence_dir():
    return os.environ.get('VERIF_EVIDENCE_DIR') or os.path.join(VERIF, 'evidence')


class Obligation:
    __slots__ = ('rule', 'key', 'what', 'status', 'detail', 'loc', 'witness')
    def __init__(self, rule, key, what, status, detail='', loc='', witness=None):
        self.rule = rule; self.key = key; self.what = what; self.status = status
        self.detail = detail; self.loc = loc; self.witness = witness
    def as_dict(self):
        d = {'rule': self.rule, 'key': self.key, 'what': self.what, 'status': self.status}
        if self.detail:
            d['detail'] = self.detail
        if self.loc:
            d['loc'] = self.loc
        if self.witness:
            d['witness'] = self.witness
        return d


class Reporter:
    """One per check run.  status values: 'auto' (re-proved from the code on this run),
    'reviewed' (table entry whose premises were re-checked), 'safe-by-review' (table entry,
    no checkable premise), 'known' (listed known finding), 'violation'."""

    def __init__(self, prop, tier):
        self.prop = prop; self.tier = tier
        self.t0 = time.time()
        self.obls = []
        self.counts = {}
        self.assumptions = []
        self.trusted = []
        self.explanation = ''
        self.rule_text = ''
        self.extra = {}
        kf = os.path.join(VERIF, 'known_findings.json')
        self.known = {}
        self.fixed = []
        if os.path.exists(kf):
            data = json.load(open(kf))
            for e in data.get('known', []):
                if e['property'] == prop:
                    self.known[e['key']] = e
            self.fixed = [e for e in data.get('fixed', []) if e['property'] == prop]
        self.known_seen = set()

    # -------------------------------------------------- recording
    def ok(self, rule, key, what, status='auto', detail='', loc=''):
        self.obls.append(Obligation(rule, key, what, status, detail, str(loc)))

    def fail(self, rule, key, what, detail='', loc='', witness=None):
        """a rule instance does not hold: known finding if its exact key is listed, else violation"""
        if key in self.known:
            self.known_seen.add(key)
            self.obls.append(Obligation(rule, key, what, 'known', detail, str(loc), witness))
        else:
            self.obls.append(Obligation(rule, key, what, 'violation', detail, str(loc), witness))

    def lost(self, rule, key, what):
        """an obligation that existed on the reference tree can no longer be located"""
        self.fail(rule, key + '#obligation-lost', what, detail='kind=obligation-lost: the anchored construct was not found; the rule cannot pass vacuously')

    def floor(self, rule, name, count, minimum):
        self.counts[name] = count
        if count < minimum:
            self.fail(rule, 'floor:' + name, 'instance count %d below the hand-counted floor %d for %s' % (count, minimum, name),
                      detail='kind=obligation-lost')

    def count(self, name, n):
        self.counts[name] = n

    # -------------------------------------------------- finishing
    def finish(self):
        viol = [o for o in self.obls if o.status == 'violation']
        known = [o for o in self.obls if o.status == 'known']
        replay_dir = os.path.join(evidence_dir(), 'replay')
        os.makedirs(replay_dir, exist_ok=True)
        # stale replay files of this property
        for fn in os.listdir(replay_dir):
            if fn.startswith(self.prop + '-'):
                try:
                    os.remove(os.path.join(replay_dir, fn))
                except OSError:
                    pass
        for o in known:
            print('KNOWN-FINDING: property=%s %s [%s] %s' % (self.prop, o.what, o.key, o.loc))
        for i, o in enumerate(viol):
            path = os.path.join(replay_dir, '%s-%d.json' % (self.prop, i))
            with open(path, 'w') as f:
                json.dump({'property': self.prop, 'tier': self.tier, **o.as_dict()}, f, indent=1)
            print('VIOLATION property=%s replay=%s' % (self.prop, path))
            print('  rule=%s key=%s' % (o.rule, o.key))
            print('  at %s: %s' % (o.loc, o.what))
            if i < 12:
                if o.detail:
                    print('  ' + o.detail[:700])
                if o.witness:
                    print('  witness: ' + json.dumps(o.witness)[:400])
        by_status = {}
        for o in self.obls:
            by_status[o.status] = by_status.get(o.status, 0) + 1
        n = len(self.obls)
        discharged = n - len(viol) - len(known)
        samples = []
        seen_rules = {}
        for o in self.obls:
            c = seen_rules.get((o.rule, o.status), 0)
            if c < 3:
                seen_rules[(o.rule, o.status)] = c + 1
                samples.append(o.as_dict())
        samples = samples[:40]
        if not samples:
            samples = [{'note': 'no obligations were generated'}]
        distinct = len({(o.rule, o.key) for o in self.obls})
        cov = {
            'explanation': self.explanation,
            'rule': self.rule_text,
            'obligations': n,
            'discharged': discharged,
            'by_status': by_status,
            'evaluations': max(n, 1),
            'distinct_nontrivial': distinct,
            'counts': self.counts,
            'samples': samples,
            'trusted_base': self.trusted,
            'checker_cmd': './check %s --tier %s' % (self.prop, self.tier),
            'known_findings_listed': sorted(self.known.keys()),
            'known_findings_seen': sorted(self.known_seen),
            'fixed_entries': [e.get('commit', '') + ' ' + e.get('what', '') for e in self.fixed],
        }
        cov.update(self.extra)
        ev = {
            'property_id': self.prop,
            'tier': self.tier,
            'seed': int(os.environ.get('VERIF_SEED', '0') or 0),
            'level': 'other',
            'coverage': cov,
            'assumptions': self.assumptions,
            'wall_s': round(time.time() - self.t0, 2),
            'violations': len(viol),
        }
        with open(os.path.join(evidence_dir(), self.prop + '.json'), 'w') as f:
            json.dump(ev, f, indent=1)
        print('%s %s: %d obligations, %s; %d violation(s), %d known finding(s); %.1fs' % (
            self.prop, self.tier, n, ', '.join('%s=%d' % kv for kv in sorted(by_status.items())), len(viol), len(known), time.time() - self.t0))
        return 1 if viol else 0
