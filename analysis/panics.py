"""E1: panic-site inventory over a reachable instance set, automatic guard discharge
(G1-G5), reviewed dispositions, known findings."""
import re, tomllib, os, collections
from .facts import Facts, fmt_sym, fmt_lit, NEG, deref
from .mirdb import strip_generics, Loc
from .report import VERIF

PANIC_RT = re.compile(r'^(core|std)::panicking::|^(std|core)::rt::(begin_panic|panic_fmt|panic_display|panic_count)|^(core|std)::(option|result)::(unwrap_failed|expect_failed)|^core::slice::index::slice_(start|end)_index_|^core::str::slice_error_fail|^core::cell::panic_already')
WIDE = {'u64', 'i64', 'usize', 'isize', 'u128', 'i128'}
STD_CRATES = {'core', 'std', 'alloc'}
PEEL_VARIANT = re.compile(r'^(std|core)::(option::Option|result::Result)::(as_ref|as_mut|as_deref|as_deref_mut|clone|cloned|copied|as_pin_ref|as_pin_mut)$|^<(std|core)::(option::Option|result::Result)<.*> as (std|core)::clone::Clone>::clone$|^(std|core)::clone::Clone::clone$')


NONEMPTY_SOME = re.compile(r'(Vec|VecDeque)::(pop|pop_front|pop_back|front|back|front_mut|back_mut)$|^(core|std)::slice::(first|last|first_mut|last_mut|split_first|split_last)$')


class Site:
    __slots__ = ('body', 'bb', 'kind', 'what', 'loc', 'key', 'term', 'goal', 'snippet')

    def __init__(self, body, bb, kind, what, loc, goal, term):
        self.body = body; self.bb = bb; self.kind = kind; self.what = what; self.loc = loc
        self.goal = goal; self.term = term
        self.snippet = loc.snippet
        self.key = None

    def base_key(self):
        return '%s|%s|%s' % (self.body.path, self.kind, self.snippet)


class PanicTable:
    def __init__(self):
        with open(os.path.join(VERIF, 'tables', 'panic_api.toml'), 'rb') as f:
            t = tomllib.load(f)
        self.api = [(re.compile(a['pat']), a['goal']) for a in t['api']]
        self._cache = {}

    def lookup(self, callee):
        if callee in self._cache:
            return self._cache[callee]
        r = None
        for rx, goal in self.api:
            if rx.search(callee):
                r = goal
                break
        self._cache[callee] = r
        return r


def external_origin(loc):
    """site text comes from a macro defined in a non-std external crate (trusted), or a derive"""
    for name, crate in loc.exp:
        if crate in STD_CRATES or crate == 'opcua':
            continue
        return '%s::%s' % (crate, name)
    return None


def sites_of_body(ctx, body, inst, table, wide=False):
    """panic sites of one body.  `inst` (an Instance of that body) supplies resolved callees."""
    out = []
    for bi, blk in enumerate(body.blocks):
        if blk['c']:
            continue
        t = blk['t']
        if t[0] == 'assert':
            msg = t[3]
            mk = msg[0]
            if mk in ('ResumedAfterReturn', 'ResumedAfterPanic', 'ResumedAfterDrop', 'Misaligned', 'NullDeref', 'InvalidEnum'):
                continue
            loc = Loc(t[6])
            if external_origin(loc):
                continue
            if mk == 'Overflow':
                op, ty = msg[1], msg[4]
                if op in ('Add', 'Mul') and ty in WIDE and not wide:
                    continue
                if op == 'Add' and ty in WIDE and wide == 'mul':
                    continue
                kind = 'assert:Overflow(%s,%s)' % (op, ty)
            else:
                kind = 'assert:' + mk
            out.append(Site(body, bi, kind, kind, loc, ('assert', msg), t))
        elif t[0] == 'call':
            f = t[1]
            if f[0] != 'fn':
                continue
            if f[3] == 1:
                continue   # local callee: its own body is inspected
            res = inst.calls.get(bi) if inst is not None else None
            rpath = strip_generics(res[2]) if res else strip_generics(f[1])
            loc = Loc(t[6])
            if PANIC_RT.search(rpath) or PANIC_RT.search(strip_generics(f[1])):
                if external_origin(loc):
                    continue
                macros = [n for n, c in loc.exp if c in STD_CRATES]
                name = macros[-1] if macros else rpath.rsplit('::', 1)[-1]
                # the compiler's own slice-index failure helpers are reached through Index (listed separately)
                kind = 'panic:' + name
                out.append(Site(body, bi, kind, kind, loc, ('panic',), t))
                continue
            goal = table.lookup(rpath)
            if goal is None:
                goal = table.lookup(strip_generics(f[1]))
            if goal is None or goal == 'ignore':
                continue
            if goal == 'operator':
                # operator traits on primitive types never reach here (they are MIR binops); only
                # overloaded operators of library types that document a panic are listed
                full = res[3] if res else f[2]
                if not re.search(r'Duration|Instant|DateTime|TimeDelta|NaiveDate', full):
                    continue
            if external_origin(loc):
                continue
            short = rpath.rsplit('::', 2)
            kind = 'call:' + '::'.join(short[-2:])
            out.append(Site(body, bi, kind, kind, loc, ('api', goal, rpath, res[3] if res else f[2]), t))
    # ordinals among equal base keys
    cnt = collections.Counter()
    for s in out:
        k = s.base_key()
        s.key = '%s#%d' % (k, cnt[k])
        cnt[k] += 1
    return out


def variant_subject(F, sym):
    """peel borrows / as_ref / clone so that guard and use talk about the same Option/Result"""
    s = sym
    for _ in range(8):
        if s[0] == 'ref':
            s = s[1]
        elif s[0] == 'call' and PEEL_VARIANT.search(s[1]) and len(s[2]) == 1:
            s = s[2][0]
        else:
            break
    return s


def try_auto(ctx, site):
    """returns (True, explanation) if a dominating guard makes the site infeasible,
    (False, None) otherwise, or ('definite', explanation) for a contradiction."""
    b = site.body
    F = ctx.facts(b)
    lits = F.literals_at(site.bb)
    g = site.goal
    if g[0] == 'assert':
        msg = g[1]
        if msg[0] == 'BoundsCheck':
            ln, ix = F.sym_operand(msg[1]), F.sym_operand(msg[2])
            h = F.cmp_holds(lits, 'lt', ix, ln)
            if h:
                return True, 'G2 index < len: ' + _h(b, h)
            # library contract: Iterator::position / rposition over X.iter() answers Some(i) only with i < X.len()
            x = ix
            while x[0] == 'proj' and x[2] in ('@Some', '.0'):
                x = x[1]
            if x[0] == 'call' and re.search(r'Iterator::r?position$', x[1]) and x[2] and ln[0] == 'len':
                it = x[2][0]
                while it[0] in ('ref', 'deref'):
                    it = it[1]
                src = None
                if it[0] == 'place' and not it[2]:
                    ds = b.defs().get(it[1], [])
                    if len(ds) == 1 and ds[0][0] == 'call' and re.search(r'(slice|Vec|VecDeque)::iter$|<impl \[T\]>::iter$|IntoIterator::into_iter$', ds[0][2].callee):
                        src = F.sym_operand(ds[0][2].args[0])
                elif it[0] == 'call' and re.search(r'::iter$|IntoIterator::into_iter$', it[1]) and it[2]:
                    src = it[2][0]
                if src is not None:
                    while src[0] in ('ref', 'deref'):
                        src = src[1]
                    tgt = ln[1]
                    while tgt[0] in ('ref', 'deref'):
                        tgt = tgt[1]
                    strip = lambda p_: (p_[0], p_[1], tuple(t_ for t_ in p_[2] if t_ != '*')) if p_[0] == 'place' else p_
                    # the sequence is reached through a shared reference held for the whole function, so its length cannot change in between
                    shared = src[0] == 'place' and b.locals[src[1]].startswith('&') and not b.locals[src[1]].startswith('&mut')
                    if strip(src) == strip(tgt) and shared:
                        return True, 'G2 index is the answer of Iterator::position over the same slice (library contract: < len)'
            return False, 'need %s < %s' % (fmt_sym(b, ix), fmt_sym(b, ln))
        if msg[0] == 'Overflow' and msg[1] == 'Sub' and msg[4].startswith('u'):
            a, c = F.sym_operand(msg[2]), F.sym_operand(msg[3])
            h = F.cmp_holds(lits, 'ge', a, c)
            if h:
                return True, 'G3 minuend >= subtrahend: ' + _h(b, h)
            if F.const_int(c) == 1:
                # unsigned a - 1: a != 0, or anything strictly below a, is enough
                for lit, e in lits:
                    if lit[0] == 'cmp' and ((lit[1] == 'ne' and lit[2] == a and F.const_int(lit[3]) == 0) or
                                             (lit[1] == 'lt' and lit[3] == a) or (lit[1] == 'gt' and lit[2] == a)):
                        return True, 'G3 unsigned minuend known >= 1: ' + fmt_lit(b, lit)
            h = F.cmp_holds(lits, 'lt', a, c)
            if h:
                return 'definite', 'G3 contradiction: the dominating fact is %s, so the subtraction always underflows here' % _h(b, h)
            return False, 'need %s >= %s' % (fmt_sym(b, a), fmt_sym(b, c))
        if msg[0] in ('DivisionByZero', 'RemainderByZero'):
            # the message operand is the dividend; the divisor is in the asserted condition `!(d == 0)`
            cond = F.sym_operand(site.term[1])
            d = None
            c = cond
            if c[0] == 'un' and c[1] == 'Not':
                c = c[2]
            if c[0] == 'bin' and c[1] == 'Eq':
                d = c[2] if F.const_int(c[3]) == 0 else c[3]
            if d is None:
                return False, None
            if F.const_int(d) not in (None, 0):
                return True, 'G5 constant non-zero divisor'
            z = ('k', '0', 'usize')
            h = F.cmp_holds(lits, 'ne', d, z) or F.cmp_holds(lits, 'gt', d, z)
            if h:
                return True, 'G5 divisor != 0: ' + _h(b, h)
            return False, 'need %s != 0' % fmt_sym(b, d)
        if msg[0] == 'Overflow' and msg[1] in ('Div', 'Rem'):
            d = F.sym_operand(msg[3])
            if F.const_int(d) not in (None, -1):
                return True, 'G5 constant divisor other than -1'
            return False, 'need divisor != -1'
        if msg[0] == 'Overflow' and msg[1] in ('Shl', 'Shr'):
            sh = F.sym_operand(msg[3])
            bits = {'u8': 8, 'i8': 8, 'u16': 16, 'i16': 16, 'u32': 32, 'i32': 32, 'u64': 64, 'i64': 64, 'usize': 64, 'isize': 64, 'u128': 128, 'i128': 128}.get(msg[4], 0)
            c = F.const_int(sh)
            if c is not None and 0 <= c < bits:
                return True, 'constant shift amount below the bit width'
            return False, 'need shift amount < %d' % bits
        return False, None
    if g[0] == 'api':
        goal = g[1]
        call_args = site.term[2]
        if goal.startswith('variant:') and call_args:
            want = goal.split(':', 1)[1]
            x = variant_subject(F, F.sym_operand(call_args[0]))
            h = F.variant_holds(lits, x, want)
            if not h:
                # guards are often phrased on a borrowed view: compare peeled subjects
                for lit, e in lits:
                    if lit[0] == 'variant' and variant_subject(F, lit[1]) == x:
                        if (lit[3] and lit[2] == want) or (not lit[3] and {'Some': 'None', 'None': 'Some', 'Ok': 'Err', 'Err': 'Ok'}.get(lit[2]) == want):
                            h = (lit, e)
                            break
            if h:
                return True, 'G1 %s known: %s' % (want, _h(b, h))
            if want == 'Some' and x[0] == 'call' and NONEMPTY_SOME.search(x[1]) and x[2]:
                # pop()/first()/last() of a container known to be non-empty at the time of that call
                ln = ('len', deref(x[2][0]))
                l2 = F.literals_at(x[3])
                z = ('k', '0', 'usize')
                h = F.cmp_holds(l2, 'gt', ln, z) or F.cmp_holds(l2, 'ne', ln, z)
                if h:
                    return True, 'G1 %s() of a non-empty container: %s' % (x[1].rsplit('::', 1)[-1], _h(b, h))
            return False, 'need %s is %s' % (fmt_sym(b, x), want)
        if goal == 'index' and len(call_args) == 2:
            recv = F.sym_operand(call_args[0])
            base = deref(recv)
            ix = F.sym_operand(call_args[1])
            ity = b.locals[call_args[1][1][0]] if call_args[1][0] in ('cp', 'mv') and not call_args[1][1][1] else (call_args[1][2] if call_args[1][0] == 'k' else '')
            ln = ('len', base)
            func = site.term[1]
            is_str = func[0] == 'fn' and (func[2].startswith('<str as ') or func[2].startswith('<std::string::String as ') or 'str::traits' in func[1])
            if is_str and ix[0] == 'agg':
                # a str range also panics when a bound is not on a character boundary: only 0, len and bounds tested with
                # is_char_boundary are accepted
                def boundary_ok(x):
                    if F.const_int(x) == 0 or x == ln:
                        return True
                    for lit, e in lits:
                        if lit[0] == 'truth' and lit[2] is True and lit[1][0] == 'call' and lit[1][1].endswith('is_char_boundary') and len(lit[1][2]) == 2 and lit[1][2][1] == x:
                            return True
                    return False
                bad = [x for x in ix[4] if not boundary_ok(x)]
                if bad:
                    return False, 'need %s on a char boundary of %s (str slicing)' % (', '.join(fmt_sym(b, x) for x in bad), fmt_sym(b, base))
            if ity == 'usize':
                h = F.cmp_holds(lits, 'lt', ix, ln)
                if h:
                    return True, 'G2 index < len: ' + _h(b, h)
                return False, 'need %s < %s' % (fmt_sym(b, ix), fmt_sym(b, ln))
            if ix[0] == 'agg' and ix[2].endswith('ops::Range') and len(ix[4]) == 2:
                lo, hi = ix[4]
                h1 = F.cmp_holds(lits, 'le', lo, hi); h2 = F.cmp_holds(lits, 'le', hi, ln)
                if h1 and h2:
                    return True, 'G4 range within len'
                return False, 'need %s <= %s <= %s' % (fmt_sym(b, lo), fmt_sym(b, hi), fmt_sym(b, ln))
            if ix[0] == 'agg' and ix[2].endswith('ops::RangeFrom') and len(ix[4]) == 1:
                h = F.cmp_holds(lits, 'le', ix[4][0], ln)
                if h:
                    return True, 'G4 start <= len: ' + _h(b, h)
                return False, 'need %s <= %s' % (fmt_sym(b, ix[4][0]), fmt_sym(b, ln))
            if ix[0] == 'agg' and ix[2].endswith('ops::RangeTo') and len(ix[4]) == 1:
                h = F.cmp_holds(lits, 'le', ix[4][0], ln)
                if h:
                    return True, 'G4 end <= len: ' + _h(b, h)
                return False, 'need %s <= %s' % (fmt_sym(b, ix[4][0]), fmt_sym(b, ln))
            if ix[0] == 'agg' and ix[2].endswith('ops::RangeFull'):
                return True, 'full range'
            return False, 'index of type %s' % (ity or fmt_sym(b, ix))
        if goal == 'le_len' and len(call_args) == 2:
            ln = ('len', deref(F.sym_operand(call_args[0])))
            n = F.sym_operand(call_args[1])
            h = F.cmp_holds(lits, 'le', n, ln)
            if h:
                return True, 'argument <= len: ' + _h(b, h)
            return False, 'need %s <= %s' % (fmt_sym(b, n), fmt_sym(b, ln))
        if goal == 'none' and g[2].endswith('::drain') and len(call_args) == 2:
            ix = F.sym_operand(call_args[1])
            if ix[0] == 'agg' and ix[2].endswith('ops::RangeFull'):
                return True, 'drain(..) of the full range'
        return False, None
    return False, None


def _h(b, h):
    if h and h[0] == 'const':
        return 'constants'
    return fmt_lit(b, h[0])


class Dispositions:
    def __init__(self):
        p = os.path.join(VERIF, 'tables', 'dispositions.toml')
        self.entries = {}
        if os.path.exists(p):
            with open(p, 'rb') as f:
                t = tomllib.load(f)
            for e in t.get('site', []):
                self.entries[e['key']] = e
        self.used = set()

    def get(self, key):
        e = self.entries.get(key)
        if e is not None:
            self.used.add(key)
        return e

    @staticmethod
    def owner(path):
        """the impl type / module a function lives in: the path without closure suffixes and without its last segment"""
        p = re.sub(r'(::\{closure#\d+\})+$', '', path)
        return p.rsplit('::', 1)[0] if '::' in p else p

    def relocated(self, ctx, site, table, live_keys):
        """A site without an entry under its exact key may be a reviewed site that was moved or respelled by a harmless edit
        (helper extracted, local renamed, closure turned into a loop).  An entry is carried over when: it is stale (the site it
        names no longer exists in the current program), it has the same panic kind, it lives in the same impl type / module, its
        source text is the same or close to this site's, and it is the only such entry.  Premises and caller lists of the entry
        are still re-checked at the new place by the caller."""
        import difflib
        so = self.owner(site.body.path)
        cands = []
        for k, e in self.entries.items():
            parts = k.rsplit('|', 2)
            if len(parts) != 3 or parts[1] != site.kind or self.owner(parts[0]) != so:
                continue
            if k in live_keys or k in self.used:
                continue
            if self._still_there(ctx, parts[0], k, table):
                continue
            old = parts[2].rsplit('#', 1)[0]
            sim = 1.0 if old == site.snippet else difflib.SequenceMatcher(None, re.findall(r'\w+|[^\w\s]', old), re.findall(r'\w+|[^\w\s]', site.snippet or '')).ratio()
            if sim >= 0.6:
                cands.append((sim, k, e))
        if not cands:
            return None
        cands.sort(key=lambda x: -x[0])
        if len(cands) > 1 and cands[0][0] - cands[1][0] < 0.05 and cands[0][2].get('reason') != cands[1][2].get('reason'):
            return None
        sim, k, e = cands[0]
        self.used.add(k)
        e = dict(e); e['relocated_from'] = k
        return e

    def _still_there(self, ctx, fn_path, key, table):
        cache = self.__dict__.setdefault('_there', {})
        if fn_path not in cache:
            keys = set()
            b = ctx.db.body(fn_path)
            if b is not None:
                insts = ctx.db.inst_by_body.get(b.id) or [None]
                inst = insts[0]
                try:
                    keys = {x.key for x in sites_of_body(ctx, b, inst, table, wide=True)} | {x.key for x in sites_of_body(ctx, b, inst, table, wide=False)}
                except Exception:
                    keys = set()
            cache[fn_path] = keys
        return key in cache[fn_path]


def stable_lit(body, lit):
    """literal rendered without local numbers, for premises in the dispositions table"""
    s = fmt_lit(body, lit)
    s = re.sub(r'\(_\d+\)', '', s)
    s = re.sub(r'\b_\d+\b', '_', s)
    return s


def run_e1(ctx, roots_pattern, rule='E1-panic', stop_pattern=None, wide=False, extra_roots=(), extra_auto=None):
    """inventory + disposition of every panic site reachable from the entry instances"""
    db, cg, r = ctx.db, ctx.cg, ctx.r
    roots = cg.instances_matching(roots_pattern) + list(extra_roots)
    if not roots:
        r.lost(rule, 'entry:' + roots_pattern, 'no entry instance matches ' + roots_pattern)
        return
    stop = None
    if stop_pattern:
        srx = re.compile(stop_pattern)
        stop = lambda n: srx.search(db.instances[n].path) is not None
    par = cg.reach(roots, stop=stop)
    if stop:
        par = {n: p for n, p in par.items() if not stop(n) or n in roots}
    table = PanicTable()
    disp = Dispositions()
    bodies = {}
    for n in par:
        bid = db.instances[n].body_id
        bodies.setdefault(bid, n)
    nsites = 0
    ext = set()
    # direct callers (inside the reachable set) of every body, for caller-scoped dispositions
    callers = collections.defaultdict(set)
    for n in par:
        for e in cg.out.get(n, ()):
            if e.dst in par and e.kind in ('call', 'cha', 'generic', 'forward'):
                callers[db.instances[e.dst].path].add(db.instances[n].path)
    for n in par:
        for bb, c in db.instances[n].calls.items():
            if c[1] < 0 and c[0] == 'item':
                ext.add(strip_generics(c[2]))
    all_sites = {bid: sites_of_body(ctx, db.bodies[bid], db.instances[n], table, wide=wide) for bid, n in bodies.items()}
    live_keys = {s.key for ss in all_sites.values() for s in ss}
    for bid, n in bodies.items():
        b = db.bodies[bid]
        inst = db.instances[n]
        body_sites = all_sites[bid]
        if not body_sites:
            r.ok(rule, 'body:' + b.path, 'no panic site (assert / panic macro / panicking API call) in this reachable body', status='auto', loc=b.loc)
        for s in body_sites:
            nsites += 1
            res, why = try_auto(ctx, s)
            if res is not True and res != 'definite' and extra_auto is not None:
                ex = extra_auto(ctx, s)
                if ex:
                    res, why = True, ex
            path = cg.fmt_path(par, n)
            if res is True:
                r.ok(rule, s.key, '%s discharged by a dominating guard' % s.kind, status='auto', detail=why, loc=s.loc)
                continue
            d = disp.get(s.key)
            if d is None and res != 'definite':
                d = disp.relocated(ctx, s, table, live_keys)
            if res == 'definite':
                r.fail(rule, s.key, '%s: %s' % (s.kind, why), detail='reached via ' + path, loc=s.loc)
                continue
            if d is not None and d.get('callers') is not None:
                # the reason on file speaks about the callers of this function: a new caller voids it
                allowed = [re.compile(c) for c in d['callers']]
                moved_from = re.sub(r'(::\{closure#\d+\})+$', '', d['relocated_from'].split('|', 1)[0]) if d.get('relocated_from') else None
                extra = sorted(c for c in callers.get(b.path, ()) if not any(rx.search(c) for rx in allowed) and re.sub(r'(::\{closure#\d+\})+$', '', c) != moved_from)
                if extra:
                    r.fail(rule, s.key, '%s: the disposition covers the callers %s but the function is now also called from %s' % (s.kind, d['callers'], extra[0]),
                           detail='reason on file: %s; reached via %s' % (d['reason'], path), loc=s.loc)
                    continue
            if d is not None:
                prem = d.get('premises', [])
                if prem:
                    F = ctx.facts(b)
                    have = {stable_lit(b, l) for l, e in F.literals_at(s.bb)}
                    def holds(p):
                        if p.startswith('re:'):
                            rx = re.compile(p[3:])
                            return any(rx.search(h) for h in have)
                        return p in have
                    missing = [p for p in prem if not holds(p)]
                    if missing:
                        r.fail(rule, s.key, '%s: reviewed disposition lost its premise `%s`' % (s.kind, missing[0]),
                               detail='reason on file: %s; reached via %s' % (d['reason'], path), loc=s.loc)
                    else:
                        r.ok(rule, s.key, s.kind + ': ' + d['reason'], status='reviewed', detail='premises re-checked: ' + '; '.join(prem), loc=s.loc)
                else:
                    r.ok(rule, s.key, s.kind + ': ' + d['reason'], status='safe-by-review', detail=('entry carried over from ' + d['relocated_from']) if d.get('relocated_from') else None, loc=s.loc)
                continue
            r.fail(rule, s.key, '%s reachable from the entry points without a guard or disposition' % s.kind,
                   detail=(why or '') + ' | reached via ' + path, loc=s.loc)
    r.count('reachable_instances', len(par))
    r.count('reachable_bodies', len(bodies))
    r.count('panic_sites', nsites)
    r.count('external_callees_reached', len(ext))
    r.count('external_callees_in_panic_table', sum(1 for e in ext if table.lookup(e) not in (None, 'ignore')))
    return par
