"""Symbolic operands, edge conditions and dominance-based facts over one MIR body.

sym forms (nested tuples, compared structurally):
  ('k', value, ty)                      constant
  ('place', root_local, proj)           a memory place whose root local is not expanded
  ('ref', x)                            address of x (treated transparently by deref)
  ('bin', op, a, b) ('un', op, a) ('cast', a, from, to) ('discr', x, ty)
  ('len', x)                            length of container/slice/string x
  ('call', callee, args, bb)            result of the call terminating block bb
  ('agg', kind, name, variant, args)
literals:
  ('cmp', op, a, b)   op in lt le gt ge eq ne
  ('variant', x, name, positive)
  ('truth', x, bool)
"""
import re
from .mirdb import strip_generics, Call

LEN_CALLS = re.compile(r'(^|::)(Vec|VecDeque|String|str|slice|BytesMut|Bytes|HashMap|HashSet|BTreeMap|BTreeSet|ByteString|UAString)(::<[^>]*>)?::len$|^core::slice::len$|^std::slice::len$|^core::str::len$|^alloc::.*::len$|::len$')
DEREF_CALLS = re.compile(r'^(std|core)::ops::(Deref::deref|DerefMut::deref_mut)$|::as_slice$|::as_mut_slice$|::as_ref$|::as_mut$|::as_bytes$|::as_str$|^std::borrow::Borrow(Mut)?::borrow(_mut)?$|::as_deref$')
# as_ref on Option<T> gives Option<&T>: variant structure is preserved, handled in variant_of
CMP_OPS = {'Lt': 'lt', 'Le': 'le', 'Gt': 'gt', 'Ge': 'ge', 'Eq': 'eq', 'Ne': 'ne'}
NEG = {'lt': 'ge', 'le': 'gt', 'gt': 'le', 'ge': 'lt', 'eq': 'ne', 'ne': 'eq'}
FLIP = {'lt': 'gt', 'le': 'ge', 'gt': 'lt', 'ge': 'le', 'eq': 'eq', 'ne': 'ne'}
IMPLIES = {
    'lt': {'lt', 'le', 'ne'}, 'le': {'le'}, 'eq': {'eq', 'le', 'ge'},
    'gt': {'gt', 'ge', 'ne'}, 'ge': {'ge'}, 'ne': {'ne'},
}
BUILTIN_VARIANTS = {
    'std::option::Option': ['None', 'Some'],
    'core::option::Option': ['None', 'Some'],
    'std::result::Result': ['Ok', 'Err'],
    'core::result::Result': ['Ok', 'Err'],
    'std::ops::ControlFlow': ['Continue', 'Break'],
    'core::ops::ControlFlow': ['Continue', 'Break'],
    'std::task::Poll': ['Ready', 'Pending'],
    'core::task::Poll': ['Ready', 'Pending'],
    'std::cmp::Ordering': ['Less', 'Equal', 'Greater'],
    'core::cmp::Ordering': ['Less', 'Equal', 'Greater'],
}
PRED_VARIANT = {
    'is_some': ('Some', True), 'is_none': ('None', True),
    'is_ok': ('Ok', True), 'is_err': ('Err', True),
}


def ty_head(ty):
    t = ty
    while t.startswith('&'):
        t = t[1:].strip()
        if t.startswith('mut '):
            t = t[4:]
        if t.startswith("'"):
            t = t.split(' ', 1)[1] if ' ' in t else t
    k = t.find('<')
    return t[:k] if k > 0 else t


def deref(x):
    """the object a reference-valued sym points to"""
    if x[0] == 'ref':
        return x[1]
    if x[0] == 'place':
        return ('place', x[1], x[2] + ('*',))
    return ('deref', x)


def _mentions_local(x, locals_):
    """does the JSON term mention a place rooted at one of the locals?"""
    if isinstance(x, dict):
        return any(_mentions_local(v, locals_) for k, v in x.items() if k in ('s', 't'))
    if isinstance(x, list):
        if len(x) == 2 and isinstance(x[0], int) and not isinstance(x[0], bool) and isinstance(x[1], list) and x[0] in locals_:
            return True
        return any(_mentions_local(y, locals_) for y in x)
    return False


def _mentions_bare(x, aliases):
    """does the JSON term x use one of the alias locals as a whole operand (mv/cp with empty projection)?"""
    if isinstance(x, list):
        if len(x) == 2 and x[0] in ('mv', 'cp') and isinstance(x[1], list) and len(x[1]) == 2 \
                and isinstance(x[1][0], int) and x[1][0] in aliases and not x[1][1]:
            return True
        return any(_mentions_bare(y, aliases) for y in x)
    return False


def writes_summary(db, callee, pidx, _stack=()):
    """fields of `*param pidx` (a `&mut T` parameter of the local function `callee`) that the function may write,
    transitively through the local functions it hands the reference to; None = anything.
    A field counts as written when it is assigned, mutably borrowed, dropped or its address taken."""
    cache = db.__dict__.setdefault('_write_summ', {})
    key = (callee, pidx)
    if key in cache:
        return cache[key]
    if key in _stack or len(_stack) > 8:
        return None
    b = db.body(callee)
    if b is None or b.kind not in ('fn', 'assocfn') or pidx > b.argc:
        cache[key] = None
        return None
    aliases = {pidx}
    changed = True
    while changed:
        changed = False
        for blk in b.blocks:
            for st in blk['s']:
                if st[0] != '=' or st[1][1] or st[1][0] == 0 or st[1][0] in aliases:
                    continue
                rv = st[2]
                if rv[0] == 'use' and rv[1][0] in ('mv', 'cp') and rv[1][1][0] in aliases and not rv[1][1][1]:
                    aliases.add(st[1][0]); changed = True
                elif rv[0] == 'ref' and rv[2][0] in aliases and rv[2][1] == ['*']:
                    aliases.add(st[1][0]); changed = True
    out = set()
    def place_write(pl):
        """a write/borrow of place pl rooted at an alias: returns False when it is not confined to one field"""
        if pl[0] not in aliases:
            return True
        pr = pl[1]
        if len(pr) >= 2 and pr[0] == '*' and isinstance(pr[1], str) and pr[1].startswith('.'):
            out.add(pr[1]); return True
        return False
    ok = True
    for blk in b.blocks:
        for st in blk['s']:
            if st[0] == '=':
                d, rv = st[1], st[2]
                if d[0] in aliases and not d[1]:
                    # (re)definition of an alias local: fine when it is one of the alias-creating forms
                    if rv[0] == 'use' and _mentions_bare(rv, aliases):
                        continue
                    if rv[0] == 'ref' and rv[2][0] in aliases and rv[2][1] == ['*']:
                        continue
                    if d[0] == pidx:
                        ok = False
                    continue
                if not place_write(d):
                    ok = False
                if rv[0] == 'ref' and rv[2][0] in aliases:
                    if rv[1] == 'mut' and not place_write(rv[2]):
                        ok = False
                elif rv[0] == 'rawptr' and rv[1][0] in aliases:
                    if not place_write(rv[1]):
                        ok = False
                elif _mentions_bare(rv, aliases):
                    ok = False      # the reference itself escapes into a value
            elif st[0] == 'setdiscr':
                if not place_write(st[1]):
                    ok = False
        t = blk['t']
        if t[0] == 'call':
            if not place_write(t[3]):
                ok = False
            f = t[1]
            for i, a in enumerate(t[2]):
                if _mentions_bare(a, aliases):
                    sub = writes_summary(db, strip_generics(f[1]), i + 1, _stack + (key,)) if f[0] == 'fn' else None
                    if sub is None:
                        ok = False
                    else:
                        out |= sub
            if f[0] != 'fn' and _mentions_bare(f, aliases):
                ok = False
        elif t[0] == 'drop':
            if not place_write(t[1]):
                ok = False
        elif t[0] in ('yield',):
            ok = False
        if not ok:
            break
    res = out if ok else None
    cache[key] = res
    return res


class Variants(list):
    """variant names of an enum in declaration order + the map from discriminant value to name"""
    def __init__(self, names, discrs):
        super().__init__(names)
        if discrs is None or any(d is None for d in discrs):
            self.by_discr = {str(i): n for i, n in enumerate(names)}
        else:
            self.by_discr = {str(d): n for d, n in zip(discrs, names)}

    def get(self, v):
        return self.by_discr.get(str(v))

    def others(self, excluded):
        ex = {str(v) for v in excluded}
        return [n for d, n in self.by_discr.items() if d not in ex]


class Facts:
    def __init__(self, db, body):
        self.db = db; self.b = body
        self._mutborrowed = None
        self._symcache = {}
        self._edge_reach = {}
        self._lits = {}

    # ------------------------------------------------------------ expansion policy
    def mut_borrowed(self):
        """locals whose own storage is mutably borrowed (ref mut / raw ptr without a deref)"""
        if self._mutborrowed is None:
            s = set()
            for blk in self.b.blocks:
                for st in blk['s']:
                    if st[0] == '=' and st[2][0] in ('ref', 'rawptr'):
                        rv = st[2]
                        mut = rv[1] == 'mut' if rv[0] == 'ref' else True
                        pl = rv[2] if rv[0] == 'ref' else rv[1]
                        if mut and '*' not in pl[1]:
                            s.add(pl[0])
            self._mutborrowed = s
        return self._mutborrowed

    def expandable(self, l):
        if l == 0 or l <= self.b.argc:
            return None
        d = self.b.single_def(l)
        if d is None:
            return None
        if l in self.mut_borrowed():
            return None
        return d

    # ------------------------------------------------------------ symbolic values
    def sym_operand(self, op, depth=0):
        if op[0] == 'k':
            if op[1].startswith('promoted:'):
                # a promoted constant: `&<value>`; recover enum variants / scalars from the promoted body
                proms = self.b.d.get('promoted') or []
                i = int(op[1].split(':')[1])
                rv = proms[i] if i < len(proms) else None
                if rv:
                    if rv[0] == 'agg' and rv[1] == 'adt' and not rv[4]:
                        return ('ref', ('k', '%s::%s' % (rv[2], rv[3]), rv[2]))
                    if rv[0] == 'use' and rv[1][0] == 'k':
                        return ('ref', ('k', rv[1][1], rv[1][2]))
                return ('k', '%s::%s' % (self.b.path, op[1]), op[2])
            return ('k', op[1], op[2])
        if op[0] == 'fn':
            return ('fn', op[1])
        return self.sym_place(op[1], depth)

    def sym_place(self, pl, depth=0):
        key = (pl[0], tuple(pl[1]))
        if key in self._symcache:
            return self._symcache[key]
        r = self._sym_place(pl[0], tuple(pl[1]), depth)
        self._symcache[key] = r
        return r

    def _project(self, base, proj):
        """apply projection tokens to a sym value"""
        cur = base
        for t in proj:
            if t == '*':
                if cur[0] == 'ref':
                    cur = cur[1]
                elif cur[0] == 'place':
                    cur = ('place', cur[1], cur[2] + ('*',))
                else:
                    cur = ('deref', cur)
            else:
                if cur[0] == 'place':
                    cur = ('place', cur[1], cur[2] + (t,))
                elif cur[0] == 'agg' and t.startswith('.') and cur[1] in ('tuple',) and t[1:].isdigit() and int(t[1:]) < len(cur[4]):
                    cur = cur[4][int(t[1:])]
                else:
                    cur = ('proj', cur, t)
        return cur

    def _co_fields(self):
        """coroutine state fields: (variant token, field token) -> [(bb, idx, rvalue)] of assignments"""
        if getattr(self, '_cof', None) is None:
            d = {}
            if self.b.kind == 'coroutine':
                for bi, blk in enumerate(self.b.blocks):
                    for si, st in enumerate(blk['s']):
                        if st[0] == '=' and len(st[1][1]) == 3 and st[1][1][0] == '*' and st[1][1][1].startswith('@#') and st[1][1][2].startswith('.'):
                            d.setdefault((st[1][1][1], st[1][1][2]), []).append((bi, si, st[2]))
            self._cof = d
        return self._cof

    def _sym_place(self, root, proj, depth):
        if depth > 40:
            return ('place', root, proj)
        if self.b.kind == 'coroutine' and len(proj) >= 3 and proj[0] == '*' and proj[1].startswith('@#') and proj[2].startswith('.'):
            # a value parked in the coroutine state across an await: follow its single assignment
            asg = self._co_fields().get((proj[1], proj[2]), [])
            if len(asg) == 1:
                base = self.sym_rvalue(asg[0][2], depth + 1, asg[0][0])
                if base is not None:
                    return self._project(('cofield', proj[1] + proj[2], base), proj[3:]) if False else self._project(base, proj[3:])
        d = self.expandable(root)
        if d is None:
            return ('place', root, proj)
        if d[0] == 'stmt':
            rv = d[3]
            base = self.sym_rvalue(rv, depth + 1, d[1])
        else:
            base = self.sym_call(d[2], depth + 1)
        if base is None:
            return ('place', root, proj)
        return self._project(base, proj)

    def sym_rvalue(self, rv, depth, bb=None):
        k = rv[0]
        if k == 'use':
            return self.sym_operand(rv[1], depth)
        if k == 'ref' or k == 'rawptr':
            pl = rv[2] if k == 'ref' else rv[1]
            inner = self.sym_place(pl, depth)
            return ('ref', inner)
        if k == 'bin':
            if len(rv) > 4 and rv[4] in ('f32', 'f64') and rv[1] in CMP_OPS:
                return ('bin', rv[1], self.sym_operand(rv[2], depth), self.sym_operand(rv[3], depth), rv[4])
            return ('bin', rv[1], self.sym_operand(rv[2], depth), self.sym_operand(rv[3], depth))
        if k == 'un':
            a = self.sym_operand(rv[2], depth)
            if rv[1] == 'PtrMetadata':
                return ('len', deref(a))
            return ('un', rv[1], a)
        if k == 'cast':
            a = self.sym_operand(rv[2], depth)
            if rv[1].startswith('Coerce:Unsize') or rv[1] in ('PtrToPtr',):
                return a
            return ('cast', a, rv[3], rv[4])
        if k == 'discr':
            return ('discr', self.sym_place(rv[1], depth), rv[2])
        if k == 'agg':
            return ('agg', rv[1], rv[2], rv[3], tuple(self.sym_operand(o, depth) for o in rv[4]))
        return None

    def sym_call(self, call, depth=0):
        args = tuple(self.sym_operand(a, depth) for a in call.args)
        name = call.callee
        if args:
            a0 = args[0]
            if LEN_CALLS.search(name) and len(args) == 1:
                return ('len', deref(a0))
            if DEREF_CALLS.search(name) and len(args) == 1 and not name.startswith(('std::option::Option', 'core::option::Option', 'std::result::Result')):
                # borrowed view of the same object
                return a0 if a0[0] == 'ref' else ('ref', deref(a0))
            if name.endswith('::clone') and len(args) == 1 and call.body.locals[call.dest[0]] in ('usize', 'u32', 'u64', 'i32', 'u8', 'u16', 'i64', 'bool'):
                return deref(a0)
        return ('call', name, args, call.bb)

    # ------------------------------------------------------------ edge literals
    def variants_of(self, ty):
        """variant names in declaration order; `.get(d)` maps a SwitchInt value (the discriminant, which differs
        from the declaration index for enums with explicit discriminants) to the name"""
        h = ty_head(ty)
        if h in BUILTIN_VARIANTS:
            return Variants(BUILTIN_VARIANTS[h], None)
        adt = self.db.adts.get(h)
        if adt and adt['kind'] == 'enum':
            return Variants([v['name'] for v in adt['variants']], [v.get('discr') for v in adt['variants']])
        return None

    def _truth(self, e, val):
        """literals equivalent to `e == val` for a bool-valued sym e"""
        if e[0] == 'un' and e[1] == 'Not':
            return self._truth(e[2], not val)
        if e[0] == 'bin' and e[1] in CMP_OPS:
            op = CMP_OPS[e[1]]
            if len(e) > 4:
                # floating point: a false comparison does not imply the opposite order (NaN is unordered)
                if val:
                    return [('cmp', op, e[2], e[3]), ('ordered', e[2]), ('ordered', e[3])] if op != 'ne' else [('cmp', op, e[2], e[3])]
                if op == 'ne':
                    return [('cmp', 'eq', e[2], e[3]), ('ordered', e[2]), ('ordered', e[3])]
                return [('ncmp', op, e[2], e[3])]
            if not val:
                op = NEG[op]
            return [('cmp', op, e[2], e[3])]
        if e[0] == 'call':
            short = e[1].rsplit('::', 1)[-1]
            if short in PRED_VARIANT and len(e[2]) == 1:
                name, pos = PRED_VARIANT[short]
                x = deref(e[2][0])
                return [('variant', x, name, pos == val), ('truth', e, val)]
            if short == 'is_empty' and len(e[2]) == 1:
                x = deref(e[2][0])
                return [('cmp', 'eq' if val else 'ne', ('len', x), ('k', '0', 'usize')), ('truth', e, val)]
            summ = self.pred_summary(e[1]) if len(e[2]) == 1 else None
            if summ is not None:
                # G6: a local one-line predicate such as `fn is_null(&self) -> bool { self.value.is_none() }`
                fproj, name, pos = summ
                x = deref(e[2][0])
                for t in fproj:
                    x = self._project(x, (t,))
                return [('variant', x, name, pos == val), ('truth', e, val)]
            if short in ('eq', 'ne') and len(e[2]) == 2:
                a, b = e[2]
                a = a[1] if a[0] == 'ref' else a
                b = b[1] if b[0] == 'ref' else b
                op = 'eq' if (short == 'eq') == val else 'ne'
                return [('cmp', op, a, b), ('truth', e, val)]
        if e[0] == 'place' and not e[2] and self.b.locals[e[1]] == 'bool' and not getattr(self, '_in_flag', False):
            # a flag such as the lowering of `matches!(x, P)`: every definition is a constant, and exactly one of them is `val`:
            # the flag having that value means control came through that definition, so the facts dominating it hold
            ds = self.b.defs().get(e[1], [])
            if ds and all(d[0] == 'stmt' and d[3][0] == 'use' and d[3][1][0] == 'k' for d in ds):
                hit = [d for d in ds if (d[3][1][1] in ('1', 'true')) == val]

                def adjacent(d):
                    # the definition is followed at once by the test of the flag: nothing that could change the facts lies between
                    # (rest of the defining block and the testing block hold only moves of plain locals / storage markers)
                    def trivial(st):
                        return st[0] in ('live', 'dead', 'nop') or (st[0] == '=' and not st[1][1] and st[2][0] in ('use', 'cast') )
                    blk = self.b.blocks[d[1]]
                    if not all(trivial(st) for st in blk['s'][d[2] + 1:]):
                        return False
                    t = blk['t']
                    tgt = d[1]
                    if t[0] == 'goto':
                        tgt = t[1]
                        if not all(trivial(st) for st in self.b.blocks[tgt]['s']):
                            return False
                        t = self.b.blocks[tgt]['t']
                    return t[0] == 'switch' and t[1][0] in ('cp', 'mv') and t[1][1][0] == e[1] and not t[1][1][1]
                if len(hit) == 1 and len(ds) >= 2 and adjacent(hit[0]):
                    self._in_flag = True
                    try:
                        extra = [l for l, _e in self.literals_at(hit[0][1], hit[0][2])]
                    finally:
                        self._in_flag = False
                    return [('truth', e, val)] + extra
        return [('truth', e, val)]

    def pred_summary(self, callee):
        """(field projection, variant, polarity) when `callee` is a local fn(&self) -> bool whose body is exactly
        one Option/Result predicate on a field of self"""
        cache = self.db.__dict__.setdefault('_pred_summ', {})
        if callee in cache:
            return cache[callee]
        res = None
        b = self.db.body(callee)
        if b is not None and b.argc == 1 and b.locals[0] == 'bool' and len(b.blocks) <= 4:
            calls = b.calls()
            if len(calls) == 1:
                c = calls[0]
                short = c.callee.rsplit('::', 1)[-1]
                if short in PRED_VARIANT and len(c.args) == 1 and c.dest[0] == 0 and not c.dest[1]:
                    Fb = Facts(self.db, b)
                    a = Fb.sym_operand(c.args[0])
                    if a[0] == 'ref' and a[1][0] == 'place' and a[1][1] == 1 and a[1][2][:1] == ('*',):
                        name, pos = PRED_VARIANT[short]
                        res = (a[1][2][1:], name, pos)
        cache[callee] = res
        return res

    def edge_literals(self, src, label):
        """literals that hold when control takes the edge of block `src` labelled `label`"""
        t = self.b.term(src)
        if t[0] != 'switch':
            return []
        e = self.sym_operand(t[1])
        ty = t[2]
        if ty == 'bool':
            if label[0] == 'val':
                return self._truth(e, label[1] != '0')
            vals = label[1]
            if vals == ('0',):
                return self._truth(e, True)
            if vals == ('1',):
                return self._truth(e, False)
            return []
        if e[0] == 'discr':
            names = self.variants_of(e[2])
            x = e[1]
            # `?`: discriminant of Try::branch(r): Continue <=> r is Ok/Some
            def lits_for(name, pos):
                out = [('variant', x, name, pos)]
                if x[0] == 'call' and x[1].endswith('Try::branch') and len(x[2]) == 1 and name in ('Continue', 'Break'):
                    inner = x[2][0]
                    ity = None
                    out.append(('try', inner, (name == 'Continue') == pos))
                return out
            if names:
                if label[0] == 'val':
                    n = names.get(label[1])
                    return lits_for(n, True) if n is not None else []
                rest = names.others(label[1])
                if len(rest) == 1:
                    return lits_for(rest[0], True)
                out = []
                for v in label[1]:
                    n = names.get(v)
                    if n is not None:
                        out.extend(lits_for(n, False))
                return out
            return []
        # integer switch
        if label[0] == 'val':
            return [('cmp', 'eq', e, ('k', label[1], ty))]
        return [('cmp', 'ne', e, ('k', v, ty)) for v in label[1]]

    # ------------------------------------------------------------ dominance of edges
    def _reach_without(self, edge):
        r = self._edge_reach.get(edge)
        if r is None:
            r = self.b.reachable_blocks(0, removed_edge=edge)
            self._edge_reach[edge] = r
        return r

    def dominating_edges(self, bb):
        """[(src, dst, [labels])] for every switch edge that every path from entry to bb takes"""
        out = []
        doms = self.b.dominators().get(bb)
        if not doms:
            return out
        for p in doms:
            t = self.b.term(p)
            if t[0] != 'switch':
                continue
            by_dst = {}
            for dst, lab in self.b.succ_edges(p):
                by_dst.setdefault(dst, []).append(lab)
            for dst, labs in by_dst.items():
                if p == bb and False:
                    continue
                if bb not in self._reach_without((p, dst)):
                    out.append((p, dst, labs))
        return out

    # ------------------------------------------------------------ kills
    def roots_of(self, sym, acc=None, in_len=False):
        """{(root local, projection, only_under_len)} of the places a sym mentions"""
        if acc is None:
            acc = set()
        if isinstance(sym, tuple):
            if sym and sym[0] == 'place':
                acc.add((sym[1], sym[2], in_len))
            elif sym and sym[0] == 'len':
                self.roots_of(sym[1], acc, True)
                return acc
            elif sym and sym[0] == 'call':
                # the result of a past call is a snapshot: later changes to its arguments do not change it
                return acc
            else:
                for x in sym:
                    if isinstance(x, tuple):
                        self.roots_of(x, acc, in_len)
        return acc

    def fixed_len(self, root, proj):
        """is root.proj a slice or array (its length cannot change through a mutable borrow)?"""
        t = self.b.locals[root]
        for tok in proj:
            if tok == '*':
                t = t.lstrip('&').strip()
                if t.startswith('mut '):
                    t = t[4:]
                if t.startswith("'"):
                    t = t.split(' ', 1)[1] if ' ' in t else t
                    if t.startswith('mut '):
                        t = t[4:]
            else:
                return False
        return t.startswith('[')

    def kill_sites(self, root, proj, assign_only=False):
        """(bb, idx) of statements/terminators that may change the value of place root.proj
        (idx = len(stmts) for the terminator)"""
        out = []
        def overlaps(p2):
            p2 = tuple(p2)
            n = min(len(p2), len(proj))
            return p2[:n] == proj[:n]
        for bi, blk in enumerate(self.b.blocks):
            for si, st in enumerate(blk['s']):
                if st[0] == '=':
                    if st[1][0] == root and overlaps(st[1][1]):
                        out.append((bi, si))
                    rv = st[2]
                    if not assign_only and rv[0] == 'ref' and rv[1] == 'mut' and rv[2][0] == root and overlaps(rv[2][1]):
                        if not self._borrow_spares(bi, si, st, proj):
                            out.append((bi, si))
                    if not assign_only and rv[0] == 'rawptr' and rv[1][0] == root and overlaps(rv[1][1]):
                        out.append((bi, si))
                elif st[0] == 'setdiscr' and st[1][0] == root and overlaps(st[1][1]):
                    out.append((bi, si))
            t = blk['t']
            if t[0] == 'call':
                if t[3][0] == root and overlaps(t[3][1]):
                    out.append((bi, len(blk['s'])))
                # moving a `&mut` root into a call hands out mutable access
                for a in t[2]:
                    if not assign_only and a[0] == 'mv' and a[1][0] == root and not a[1][1] and self.b.locals[root].startswith('&mut') and proj[:1] == ('*',):
                        if not self._call_spares(t, root, proj[1:]):
                            out.append((bi, len(blk['s'])))
            elif t[0] == 'drop':
                if t[1][0] == root and overlaps(t[1][1]):
                    out.append((bi, len(blk['s'])))
        return out

    def _call_spares(self, t, ref_local, rest):
        """the call terminator t receives the `&mut` local ref_local; `rest` is the projection (below the deref) of
        the place a fact is about.  True when the callee is a local function that provably never writes that field."""
        if t[1][0] != 'fn' or not rest or not (isinstance(rest[0], str) and rest[0].startswith('.')):
            return False
        idxs = [i for i, a in enumerate(t[2]) if a[0] == 'mv' and a[1][0] == ref_local and not a[1][1]]
        if len(idxs) != 1:
            return False
        summ = writes_summary(self.db, strip_generics(t[1][1]), idxs[0] + 1)
        return summ is not None and rest[0] not in summ

    def _borrow_spares(self, bi, si, st, proj):
        """`_t = &mut <prefix of the fact's place>` that only prepares an argument of the block's own call to a local
        function which never writes the field the fact is about"""
        if st[1][1]:
            return False
        tl = st[1][0]
        p2 = tuple(st[2][2][1])
        if len(p2) >= len(proj) or proj[:len(p2)] != p2:
            return False
        t = self.b.term(bi)
        if t[0] != 'call' or si not in self.own_arg_setup(bi):
            return False
        # the temporary (or its two-phase reborrow) is used nowhere but in this block's call
        chain = {tl}
        for st2 in self.b.stmts(bi)[si + 1:]:
            if st2[0] == '=' and not st2[1][1] and st2[2][0] == 'ref' and st2[2][2][0] in chain and st2[2][2][1] == ['*']:
                chain.add(st2[1][0])
        for bj, blk in enumerate(self.b.blocks):
            if bj == bi:
                continue
            if _mentions_local(blk, chain):
                return False
        moved = [a[1][0] for a in t[2] if a[0] == 'mv' and not a[1][1] and a[1][0] in chain]
        if len(moved) != 1:
            return False
        return self._call_spares(t, moved[0], proj[len(p2):])

    def own_arg_setup(self, bb):
        """statement indexes of block bb that only prepare the arguments of bb's own call terminator
        (`_t = &mut x` where _t is moved into the call): they do not invalidate facts *at* the call"""
        t = self.b.term(bb)
        if t[0] != 'call':
            return set()
        moved = {a[1][0] for a in t[2] if a[0] == 'mv' and not a[1][1]}
        out = set()
        stmts = self.b.stmts(bb)
        changed = True
        while changed:
            changed = False
            for si, st in enumerate(stmts):
                if si in out or st[0] != '=' or st[1][1] or st[1][0] not in moved:
                    continue
                out.add(si); changed = True
                rv = st[2]
                # two-phase borrows: `_a = &mut x; _b = &mut (*_a)`
                if rv[0] == 'ref' and rv[2][1][:1] == ['*']:
                    moved.add(rv[2][0])
        return out

    def killed_between(self, edge, site_bb, site_idx, sym, ignore_idx=()):
        """is some place mentioned in `sym` possibly modified on a path from the edge to the site
        that does not re-take the edge?"""
        src, dst = edge
        fwd = self.b.reachable_blocks(dst, removed_edge=edge)
        back = self.b.can_reach(site_bb, removed_edge=edge)
        between = fwd & back
        site_loops = any(s in back for s in self.b.succ(site_bb) if (site_bb, s) != edge)
        for root, proj, len_only in self.roots_of(sym):
            # the length of a slice/array cannot change through a mutable borrow of it
            assign_only = len_only and self.fixed_len(root, proj)
            if assign_only:
                # only a re-assignment of the reference itself matters
                proj = ()
            for kb, ki in self.kill_sites(root, proj, assign_only):
                if kb not in between:
                    continue
                if kb == site_bb and ki >= site_idx and not site_loops:
                    continue
                if kb == site_bb and ki in ignore_idx and not site_loops:
                    continue
                return (kb, ki)
        return None

    # ------------------------------------------------------------ the query
    def literals_at(self, bb, idx=None):
        """literals established by dominating switch edges and still valid at statement idx of bb
        (idx None = at the terminator).  Returns [(literal, (src,dst))]."""
        ignore = ()
        if idx is None:
            idx = len(self.b.stmts(bb))
            ignore = self.own_arg_setup(bb)
        key = (bb, idx)
        if key in self._lits:
            return self._lits[key]
        out = []
        for src, dst, labs in self.dominating_edges(bb):
            if len(labs) != 1:
                continue
            for lit in self.edge_literals(src, labs[0]):
                if self.killed_between((src, dst), bb, idx, lit, ignore) is None:
                    out.append((lit, (src, dst)))
        self._lits[key] = out
        return out

    # ------------------------------------------------------------ implication
    @staticmethod
    def const_int(s):
        if s[0] == 'k':
            try:
                return int(s[1])
            except ValueError:
                return None
        if s[0] == 'cast' and s[1][0] == 'k':
            try:
                return int(s[1][1])
            except ValueError:
                return None
        return None

    def cmp_holds(self, lits, op, a, b):
        """does the conjunction of literals imply `a op b`?  returns the supporting literal or None"""
        ca, cb = self.const_int(a), self.const_int(b)
        if ca is not None and cb is not None:
            ok = {'lt': ca < cb, 'le': ca <= cb, 'gt': ca > cb, 'ge': ca >= cb, 'eq': ca == cb, 'ne': ca != cb}[op]
            return ('const',) if ok else None
        for lit, edge in lits:
            if lit[0] != 'cmp':
                continue
            _, op2, x, y = lit
            # a length is never negative: len != 0  <=>  len > 0
            if op2 == 'ne' and x[0] == 'len' and self.const_int(y) == 0:
                op2 = 'gt'
            elif op2 == 'ne' and y[0] == 'len' and self.const_int(x) == 0:
                op2 = 'lt'
            if x == a and y == b and op in IMPLIES[op2]:
                return (lit, edge)
            # x >= (y + c), c >= 0 (no wrap: the checked add would have panicked)  =>  x >= y
            if op in ('ge', 'gt') or op in ('le', 'lt'):
                for (xx, yy, o2) in ((x, y, op2), (y, x, FLIP[op2])):
                    # normalise to  xx o2 yy  with goal  a op b
                    if op in ('ge',) and xx == a and o2 in ('ge', 'gt', 'eq') and self._is_sum_with(yy, b):
                        return (lit, edge)
                    if op in ('le',) and xx == b and o2 in ('ge', 'gt', 'eq') and self._is_sum_with(yy, a):
                        return (lit, edge)
            if x == b and y == a and op in IMPLIES[FLIP[op2]]:
                return (lit, edge)
            # constant reasoning: fact x op2 c2, goal x op c  (x == a, b const)
            if cb is not None:
                for (xx, yy, o2) in ((x, y, op2), (y, x, FLIP[op2])):
                    cy = self.const_int(yy)
                    if xx == a and cy is not None:
                        if self._const_implies(o2, cy, op, cb):
                            return (lit, edge)
            if ca is not None:
                for (xx, yy, o2) in ((x, y, op2), (y, x, FLIP[op2])):
                    cy = self.const_int(yy)
                    if xx == b and cy is not None:
                        if self._const_implies(o2, cy, FLIP[op], ca):
                            return (lit, edge)
        return None

    def _is_sum_with(self, s, term):
        """s == term + <non-negative constant> (checked add)"""
        if s[0] == 'proj' and s[2] == '.0':
            s = s[1]
        if s[0] == 'bin' and s[1] in ('Add', 'AddWithOverflow'):
            for u, v in ((s[2], s[3]), (s[3], s[2])):
                c = self.const_int(v)
                if u == term and c is not None and c >= 0:
                    return True
        return False

    @staticmethod
    def _const_implies(o2, c2, op, c):
        """(x o2 c2) => (x op c) over integers"""
        # represent known range of x
        lo, hi = None, None
        if o2 == 'eq':
            lo = hi = c2
        elif o2 == 'lt':
            hi = c2 - 1
        elif o2 == 'le':
            hi = c2
        elif o2 == 'gt':
            lo = c2 + 1
        elif o2 == 'ge':
            lo = c2
        elif o2 == 'ne':
            return op == 'ne' and c == c2
        if op == 'lt':
            return hi is not None and hi < c
        if op == 'le':
            return hi is not None and hi <= c
        if op == 'gt':
            return lo is not None and lo > c
        if op == 'ge':
            return lo is not None and lo >= c
        if op == 'eq':
            return lo is not None and lo == hi == c
        if op == 'ne':
            return (hi is not None and hi < c) or (lo is not None and lo > c)
        return False

    def variant_holds(self, lits, x, name):
        names = None
        for lit, edge in lits:
            if lit[0] == 'variant' and lit[1] == x:
                if lit[3] and lit[2] == name:
                    return (lit, edge)
        # two-variant complement
        for lit, edge in lits:
            if lit[0] == 'variant' and lit[1] == x and not lit[3]:
                pair = {'Some': 'None', 'None': 'Some', 'Ok': 'Err', 'Err': 'Ok'}
                if pair.get(lit[2]) == name:
                    return (lit, edge)
        return None


def fmt_sym(body, s, depth=0):
    if not isinstance(s, tuple) or not s:
        return str(s)
    k = s[0]
    if k == 'k':
        if len(s[1]) < 24:
            return s[1]
        if re.fullmatch(r'[A-Za-z_][A-Za-z0-9_:]*', s[1]):
            return '::'.join(s[1].split('::')[-2:])
        return 'const'
    if k == 'place':
        out = body.local_name(s[1])
        proj = s[2]
        # captured variables of closures / coroutines: (*_1).N... carries a debug name
        best = None
        for name, pl in body.vars:
            pp = tuple(pl[1])
            if pl[0] == s[1] and pp and proj[:len(pp)] == pp and (best is None or len(pp) > len(best[1])):
                best = (name, pp)
        if best:
            out = '%s(_%d%s)' % (best[0], s[1], ''.join(best[1]).replace('*', ''))
            proj = proj[len(best[1]):]
        for t in proj:
            out = '(*%s)' % out if t == '*' else out + t
        return out
    if k == 'ref':
        return '&' + fmt_sym(body, s[1])
    if k == 'deref':
        return '*' + fmt_sym(body, s[1])
    if k == 'len':
        return 'len(%s)' % fmt_sym(body, s[1])
    if k == 'bin':
        return '(%s %s %s)' % (fmt_sym(body, s[2]), s[1], fmt_sym(body, s[3]))
    if k == 'un':
        return '%s(%s)' % (s[1], fmt_sym(body, s[2]))
    if k == 'cast':
        return '(%s as %s)' % (fmt_sym(body, s[1]), s[3])
    if k == 'discr':
        return 'discr(%s)' % fmt_sym(body, s[1])
    if k == 'call':
        return '%s(%s)' % (s[1].rsplit('::', 2)[-2] + '::' + s[1].rsplit('::', 1)[-1] if '::' in s[1] else s[1], ', '.join(fmt_sym(body, a) for a in s[2]))
    if k == 'proj':
        return '%s%s' % (fmt_sym(body, s[1]), s[2])
    if k == 'agg':
        name = s[2] or s[1]
        if s[1] == 'adt' and s[3]:
            name = name.rsplit('::', 1)[-1] + '::' + s[3]
        if s[1] == 'adt' and not s[4]:
            return name
        return '%s{%s}' % (name, ', '.join(fmt_sym(body, a) for a in s[4]))
    return str(s)


def fmt_lit(body, lit):
    if lit[0] == 'cmp':
        return '%s %s %s' % (fmt_sym(body, lit[2]), lit[1], fmt_sym(body, lit[3]))
    if lit[0] == 'variant':
        return '%s %s %s' % (fmt_sym(body, lit[1]), 'is' if lit[3] else 'is not', lit[2])
    if lit[0] == 'truth':
        return '%s == %s' % (fmt_sym(body, lit[1]), lit[2])
    if lit[0] == 'ncmp':
        return 'not(%s %s %s)' % (fmt_sym(body, lit[2]), lit[1], fmt_sym(body, lit[3]))
    if lit[0] == 'ordered':
        return 'ordered(%s)' % fmt_sym(body, lit[1])
    if lit[0] == 'try':
        return '%s %s' % (fmt_sym(body, lit[1]), 'succeeded' if lit[2] else 'failed')
    return str(lit)
