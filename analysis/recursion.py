"""E4: termination witnesses for the recursion cycles of a reachable set.

Every strongly connected component (with a cycle) of the instance call graph restricted to the set must become acyclic
after the removal of the *witnessed* call edges, or be listed in tables/recursion.toml as structural recursion:

  W1  depth lock     the edge executes under a live, successfully obtained DecodingOptions::depth_lock() (C02's rule)
  W2  consumed key   the edge is dominated by the Some edge of `<map field of self>.remove(key)`: every level strictly
                     shrinks a finite map (AddressSpace::delete, C29's rule)
  W2' visited set    the edge is dominated by the success edge of `HashSet::insert(set, key)` (== true), or by the false
                     edge of `HashSet::contains(set, key)` followed by a dominating `HashSet::insert(set, ..)`: every level
                     strictly grows a set of keys drawn from a finite domain
  S   structural     reason-only table entry whose `members` regex must match every member of the component: the recursion
                     follows the containment of an in-memory value whose depth is bounded elsewhere (stated in the reason)

A cycle that keeps an unwitnessed edge and matches no table entry is reported with its members and edges."""
import re
try:
    import tomllib
except ImportError:   # pragma: no cover
    tomllib = None
import os
from .facts import fmt_lit

HERE = os.path.dirname(os.path.dirname(os.path.abspath(__file__)))

SET_INSERT = re.compile(r'(HashSet|BTreeSet)::insert$')
SET_CONTAINS = re.compile(r'(HashSet|BTreeSet)::contains$')
MAP_REMOVE = re.compile(r'(HashMap|BTreeMap|HashSet|BTreeSet)::remove$')


def load_table():
    p = os.path.join(HERE, 'tables', 'recursion.toml')
    if not os.path.exists(p):
        return []
    with open(p, 'rb') as fh:
        return tomllib.load(fh).get('scc', [])


def visited_guard(ctx, body, bb):
    """description of a W2/W2' witness literal valid at the terminator of block bb, or None"""
    F = ctx.facts(body)
    lits = F.literals_at(bb)
    for lit, edge in lits:
        if lit[0] == 'truth' and lit[2] is True and lit[1][0] == 'call' and SET_INSERT.search(lit[1][1]):
            return 'W2\' ' + fmt_lit(body, lit)
        if lit[0] == 'variant' and lit[2] == 'Some' and lit[3] and lit[1][0] == 'call' and MAP_REMOVE.search(lit[1][1]):
            return 'W2 ' + fmt_lit(body, lit)
    for lit, edge in lits:
        if lit[0] == 'truth' and lit[2] is False and lit[1][0] == 'call' and SET_CONTAINS.search(lit[1][1]):
            recv = lit[1][2][0] if lit[1][2] else None
            key = lit[1][2][1] if len(lit[1][2]) > 1 else None
            # an insert of the same key into the same set must dominate bb and lie after the test
            for c in body.calls():
                if SET_INSERT.search(c.callee) and c.bb != bb and body.dominates(c.bb, bb) and body.dominates(edge[1], c.bb):
                    s = F.sym_call(c)
                    a = s[2]
                    same_set = _same_place(a[0], recv)
                    same_key = _same_key(a[1] if len(a) > 1 else None, key)
                    if same_set and same_key:
                        return 'W2\' ' + fmt_lit(body, lit) + ' then ' + c.callee.rsplit('::', 2)[-2] + '::insert of the same key'
    return None


def _strip_ref(x):
    while isinstance(x, tuple) and x and x[0] in ('ref',):
        x = x[1]
    return x


def _same_place(a, b):
    if a is None or b is None:
        return False
    a, b = _strip_ref(a), _strip_ref(b)
    return a == b


def _same_key(a, b):
    """`insert(set, k)` takes the key by value, `contains(set, &k)` by reference"""
    if a is None or b is None:
        return False
    a, b = _strip_ref(a), _strip_ref(b)
    return a == b


def check_termination(ctx, par, rule='E4-recursion', use_depth_lock=True):
    """par: reachable instance set (dict or iterable).  Emits one obligation per recursive component."""
    db, cg, r = ctx.db, ctx.cg, ctx.r
    nodes = set(par.keys() if isinstance(par, dict) else par)
    all_sccs = cg.sccs(nodes)
    r.count('recursive_components', len(all_sccs))
    if not all_sccs:
        return 0
    table = load_table()
    if use_depth_lock:
        from .rules.decode_common import locked_call_blocks
    witness = {}     # (src instance, bb) -> description
    members = set()
    for comp in all_sccs:
        members |= set(comp)
    locked = {}
    for i in members:
        bid = db.instances[i].body_id
        b = db.bodies.get(bid) if isinstance(db.bodies, dict) else db.bodies[bid]
        if b is None:
            continue
        if use_depth_lock and bid not in locked:
            locked[bid] = locked_call_blocks(ctx, b)[0]
        for e in cg.out.get(i, ()):
            if e.dst not in members or (i, e.bb) in witness:
                continue
            if use_depth_lock and e.bb in locked[bid]:
                witness[(i, e.bb)] = 'W1 under a live depth_lock()'
                continue
            try:
                w = visited_guard(ctx, b, e.bb) if e.bb is not None else None
            except Exception:
                w = None
            if w:
                witness[(i, e.bb)] = w
    def unwitnessed(e):
        return (e.src, e.bb) not in witness
    open_sccs = cg.sccs(nodes, edge_filter=unwitnessed)
    seen = set()
    n = 0
    for comp in all_sccs:
        names = sorted({db.instances[i].path for i in comp})
        key = 'scc:' + '|'.join(names)
        if key in seen:
            continue
        seen.add(key)
        n += 1
        loc = db.bodies[db.instances[comp[0]].body_id].loc
        cs = set(comp)
        still = [c for c in open_sccs if set(c) <= cs]
        if not still:
            ws = sorted({witness[(i, e.bb)] for i in comp for e in cg.out.get(i, ()) if e.dst in cs and (i, e.bb) in witness})
            r.ok(rule, key, 'every cycle of this component passes a witnessed edge: ' + '; '.join(w[:140] for w in ws[:3]), loc=loc)
            continue
        # structural table
        bad = []
        for c in still:
            cn = sorted({db.instances[i].path for i in c})
            ent = None
            for t in table:
                rx = re.compile(t['members'])
                if all(rx.search(x) for x in cn):
                    ent = t; break
            if ent is None:
                bad.append((c, cn))
        if not bad:
            r.ok(rule, key, 'structural recursion (reviewed): ' + ent['reason'][:200], status='safe', loc=loc)
            continue
        for c, cn in bad:
            inside = set(c)
            edges = []
            for i in c:
                for e in cg.out.get(i, ()):
                    if e.dst in inside and unwitnessed(e):
                        b = db.bodies[db.instances[i].body_id]
                        t = b.term(e.bb) if e.bb is not None else None
                        l = t[6] if t is not None and t[0] == 'call' else None
                        edges.append('%s -> %s at %s:%s' % (db.instances[i].path, db.instances[e.dst].path,
                                                            l['f'] if l else b.loc.file, l['l'] if l else '?'))
            r.fail(rule, 'scc:' + '|'.join(cn),
                   'recursion cycle without a termination witness (no depth lock, consumed key or visited set on any edge, '
                   'and not a reviewed structural recursion): depth is driven by request or address-space content',
                   detail='edges: ' + '; '.join(sorted(set(edges))[:6]), loc=loc, witness={'members': cn, 'edges': sorted(set(edges))[:12]})
    return n
