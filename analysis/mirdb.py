"""Loading and basic services over the MIR facts written by /verif/driver.

Everything here is analysis of the serialised, type-checked program: no code of
the repository is executed.
"""
import json, re, collections, functools

# ---------------------------------------------------------------- helpers

def strip_generics(path):
    """`std::option::Option::<T>::unwrap` -> `std::option::Option::unwrap`;
    leaves a leading `<T as Trait>` qualifier alone."""
    out = []
    depth = 0
    i = 0
    n = len(path)
    # keep a leading qualified-self segment verbatim
    if path.startswith('<'):
        d = 0
        for j, ch in enumerate(path):
            if ch == '<':
                d += 1
            elif ch == '>' and (j == 0 or path[j-1] != '-'):
                d -= 1
                if d == 0:
                    out.append(path[:j+1])
                    i = j + 1
                    break
    while i < n:
        ch = path[i]
        if ch == '<' and depth == 0 and path[i-2:i] == '::':
            depth = 1
            # drop the '::' already emitted
            if out and out[-1] == ':' and len(out) > 1 and out[-2] == ':':
                out.pop(); out.pop()
            i += 1
            continue
        if depth:
            if ch == '<':
                depth += 1
            elif ch == '>' and path[i-1] != '-':
                depth -= 1
            i += 1
            continue
        out.append(ch)
        i += 1
    return ''.join(out)


def split_top(s, sep=','):
    """split on sep at bracket depth 0"""
    parts, depth, cur = [], 0, []
    i = 0
    while i < len(s):
        ch = s[i]
        if ch in '<([{':
            depth += 1
        elif ch in ')]}':
            depth -= 1
        elif ch == '>' and (i == 0 or s[i-1] != '-'):
            depth -= 1
        if ch == sep and depth == 0:
            parts.append(''.join(cur).strip()); cur = []
        else:
            cur.append(ch)
        i += 1
    if cur:
        parts.append(''.join(cur).strip())
    return parts


def generic_args_of(full, segment):
    """generic args written after `segment::<` in a full path string; [] when absent.
    e.g. generic_args_of('lock_api::RwLock::<R, T>::read', 'RwLock') -> ['R','T']"""
    k = full.find(segment + '::<')
    if k < 0:
        return []
    i = k + len(segment) + 3
    depth = 1
    j = i
    while j < len(full) and depth:
        ch = full[j]
        if ch == '<':
            depth += 1
        elif ch == '>' and full[j-1] != '-':
            depth -= 1
        j += 1
    return split_top(full[i:j-1])


class Loc:
    __slots__ = ('file', 'line', 'col', 'snippet', 'exp')
    def __init__(self, d):
        if isinstance(d, dict):
            self.file = d.get('f'); self.line = d.get('l'); self.col = d.get('c')
            self.snippet = d.get('s', ''); self.exp = d.get('x', [])
        else:
            self.file = None; self.line = d; self.col = None; self.snippet = ''; self.exp = []
    def __str__(self):
        return '%s:%s' % (self.file, self.line)
    def external_macro(self):
        """name of the outermost-defined external (non-std-panic) macro this site expands from, or None"""
        for name, crate in self.exp:
            if crate in ('opcua',):
                continue
            if crate in ('core', 'std', 'alloc'):
                continue
            return '%s::%s' % (crate, name)
        return None
    def macros(self):
        return [n for n, _ in self.exp]


# operand / place accessors -------------------------------------------------
# place  = [local, [proj...]]
# operand= ["cp", place] | ["mv", place] | ["k", value, ty] | ["fn", path, full, local]

def is_place_op(op):
    return op[0] in ('cp', 'mv')

def place_key(pl):
    return (pl[0], tuple(pl[1]))

def fmt_place(body, pl):
    name = body.local_name(pl[0])
    s = name
    for t in pl[1]:
        if t == '*':
            s = '(*%s)' % s
        else:
            s += t
    return s

def fmt_operand(body, op):
    if op[0] in ('cp', 'mv'):
        return fmt_place(body, op[1])
    if op[0] == 'k':
        return '%s_%s' % (op[1], op[2]) if len(op[1]) < 30 else 'const'
    if op[0] == 'fn':
        return op[1]
    return str(op)


class Call:
    """a call terminator"""
    __slots__ = ('body', 'bb', 'func', 'args', 'dest', 'target', 'unwind', 'loc', 'fn_line')
    def __init__(self, body, bb, t):
        self.body = body; self.bb = bb
        self.func = t[1]; self.args = t[2]; self.dest = t[3]
        self.target = t[4]; self.unwind = t[5]; self.loc = Loc(t[6]); self.fn_line = t[7]
    @property
    def callee(self):
        """def-level callee path with generics stripped ('' for indirect calls)"""
        f = self.func
        if f[0] == 'fn':
            return strip_generics(f[1])
        return ''
    @property
    def callee_raw(self):
        return self.func[1] if self.func[0] == 'fn' else ''
    @property
    def callee_full(self):
        return self.func[2] if self.func[0] == 'fn' else ''
    @property
    def callee_local(self):
        return self.func[0] == 'fn' and self.func[3] == 1
    def __repr__(self):
        return '<call %s @%s bb%d>' % (self.callee or 'indirect', self.loc, self.bb)


class Body:
    def __init__(self, d):
        self.d = d
        self.id = d['id']; self.path = d['path']; self.kind = d['kind']
        self.generic = d['generic']; self.argc = d['argc']
        self.loc = Loc(d['loc']); self.locals = d['locals']
        self.blocks = d['blocks']
        self.root = d.get('root'); self.public = d.get('pub', False)
        self.self_ty = d.get('self_ty'); self.trait = d.get('trait')
        self.saved = d.get('saved')
        self._names = {}
        for name, pl in d['vars']:
            if not pl[1]:
                self._names.setdefault(pl[0], name)
        self.vars = d['vars']
        self._succ = None; self._pred = None; self._dom = None; self._pdom = None
        self._defs = None; self._calls = None
        self._stitched = False
        self.suspend_blocks = set()
        if self.kind == 'coroutine':
            self._stitch()

    # -- naming
    def local_name(self, l):
        n = self._names.get(l)
        return '%s(_%d)' % (n, l) if n else '_%d' % l

    def local_by_name(self, name):
        return [l for l, n in self._names.items() if n == name]

    # -- cfg
    def term(self, bb):
        return self.blocks[bb]['t']

    def stmts(self, bb):
        return self.blocks[bb]['s']

    def is_cleanup(self, bb):
        return self.blocks[bb]['c'] == 1

    def _raw_succ(self, bb):
        t = self.blocks[bb]['t']
        k = t[0]
        if k == 'goto':
            return [(t[1], ('goto',))]
        if k == 'switch':
            out = [(b, ('val', v)) for v, b in t[3]]
            out.append((t[4], ('otherwise', tuple(v for v, _ in t[3]))))
            return out
        if k == 'drop':
            return [(t[3], ('drop',))]
        if k == 'call':
            return [(t[4], ('ret',))] if t[4] is not None else []
        if k == 'assert':
            return [(t[4], ('assert_ok',))]
        if k == 'yield':
            return [(t[1], ('resume',))]
        return []

    def _stitch(self):
        """coroutine state machine -> one CFG: suspend(N) --> resume block N"""
        t0 = self.blocks[0]['t']
        self._resume = {}
        if t0[0] != 'switch':
            return
        for v, b in t0[3]:
            if int(v) >= 3:
                self._resume[int(v)] = b
        self._suspend_edges = {}
        for i, blk in enumerate(self.blocks):
            if blk['t'][0] != 'return':
                continue
            for s in blk['s']:
                if s[0] == 'setdiscr' and s[2] >= 3 and s[2] in self._resume:
                    self._suspend_edges[i] = self._resume[s[2]]
                    self.suspend_blocks.add(i)
        self._stitched = True

    def succ_edges(self, bb):
        """normal (non-unwind) successor edges [(target, label)]"""
        if self._succ is None:
            self._succ = []
            for i in range(len(self.blocks)):
                e = self._raw_succ(i)
                if self._stitched:
                    if i == 0:
                        e = [(b, l) for b, l in e if not (l[0] == 'val' and int(l[1]) >= 3)]
                    if i in self._suspend_edges:
                        e = [(self._suspend_edges[i], ('await',))]
                self._succ.append(e)
        return self._succ[bb]

    def succ(self, bb):
        return [b for b, _ in self.succ_edges(bb)]

    def preds(self, bb):
        if self._pred is None:
            self._pred = [[] for _ in self.blocks]
            for i in range(len(self.blocks)):
                for b in self.succ(i):
                    self._pred[b].append(i)
        return self._pred[bb]

    def reachable_blocks(self, start=0, removed_edge=None, stop=None):
        seen = {start}
        st = [start]
        while st:
            b = st.pop()
            if stop is not None and b in stop:
                continue
            for s in self.succ(b):
                if removed_edge is not None and ((b, s) == removed_edge or (isinstance(removed_edge, (set, frozenset)) and (b, s) in removed_edge)):
                    continue
                if s not in seen:
                    seen.add(s); st.append(s)
        return seen

    def can_reach(self, target, removed_edge=None):
        """set of blocks from which `target` is reachable"""
        seen = {target}
        st = [target]
        while st:
            b = st.pop()
            for p in self.preds(b):
                if removed_edge is not None and ((p, b) == removed_edge or (isinstance(removed_edge, (set, frozenset)) and (p, b) in removed_edge)):
                    continue
                if p not in seen:
                    seen.add(p); st.append(p)
        return seen

    def dominators(self):
        """immediate-dominator based dominator sets over normal edges from bb0"""
        if self._dom is not None:
            return self._dom
        n = len(self.blocks)
        reach = self.reachable_blocks(0)
        # reverse post-order
        order = []
        seen = set()
        st = [(0, iter(self.succ(0)))]
        seen.add(0)
        while st:
            b, it = st[-1]
            adv = False
            for s in it:
                if s not in seen:
                    seen.add(s); st.append((s, iter(self.succ(s)))); adv = True
                    break
            if not adv:
                order.append(b); st.pop()
        rpo = order[::-1]
        idx = {b: i for i, b in enumerate(rpo)}
        idom = {0: 0}
        changed = True
        while changed:
            changed = False
            for b in rpo[1:]:
                ps = [p for p in self.preds(b) if p in idom]
                if not ps:
                    continue
                new = ps[0]
                for p in ps[1:]:
                    a, c = p, new
                    while a != c:
                        while idx[a] > idx[c]:
                            a = idom[a]
                        while idx[c] > idx[a]:
                            c = idom[c]
                    new = a
                if idom.get(b) != new:
                    idom[b] = new; changed = True
        self._idom = idom
        dom = {}
        for b in rpo:
            s = {b}
            x = b
            while x != 0:
                x = idom[x]; s.add(x)
            dom[b] = s
        self._dom = dom
        return dom

    def dominates(self, a, b):
        d = self.dominators()
        return b in d and a in d[b]

    def edge_dominates(self, edge, bb):
        """does traversal of edge (src,dst) dominate block bb?  True iff every path from
        entry to bb uses the edge: bb unreachable from entry once the edge is removed."""
        if bb not in self.reachable_blocks(0):
            return False
        return bb not in self.reachable_blocks(0, removed_edge=edge)

    # -- definitions
    def defs(self):
        """local -> list of definition sites: ('stmt', bb, idx, rvalue) | ('call', bb, Call) | ('arg',)"""
        if self._defs is not None:
            return self._defs
        d = collections.defaultdict(list)
        for l in range(1, self.argc + 1):
            d[l].append(('arg',))
        for bi, blk in enumerate(self.blocks):
            for si, s in enumerate(blk['s']):
                if s[0] == '=':
                    pl = s[1]
                    if not pl[1]:
                        d[pl[0]].append(('stmt', bi, si, s[2]))
                    else:
                        d[pl[0]].append(('partial', bi, si, s[2], pl))
                elif s[0] == 'setdiscr':
                    d[s[1][0]].append(('partial', bi, si, None, s[1]))
            t = blk['t']
            if t[0] == 'call':
                pl = t[3]
                if not pl[1]:
                    d[pl[0]].append(('call', bi, Call(self, bi, t)))
                else:
                    d[pl[0]].append(('partial', bi, -1, None, pl))
        self._defs = d
        return d

    def single_def(self, l):
        ds = self.defs().get(l, [])
        if len(ds) == 1 and ds[0][0] in ('stmt', 'call'):
            return ds[0]
        return None

    def calls(self):
        if self._calls is None:
            self._calls = [Call(self, bi, blk['t']) for bi, blk in enumerate(self.blocks) if blk['t'][0] == 'call']
        return self._calls

    def calls_to(self, pattern):
        rx = re.compile(pattern)
        return [c for c in self.calls() if rx.search(c.callee) or rx.search(c.callee_full)]

    def return_blocks(self):
        """real return blocks (coroutine suspension returns excluded)"""
        return [i for i, b in enumerate(self.blocks) if b['t'][0] == 'return' and i not in self.suspend_blocks and not b['c']]


class Instance:
    __slots__ = ('n', 'body_id', 'path', 'full', 'idroot', 'calls', 'drops', 'ctors', 'unsize')
    def __init__(self, d):
        self.n = d['n']; self.body_id = d['body']; self.path = d['path']; self.full = d['full']
        self.idroot = d['idroot']
        self.calls = {int(k): v for k, v in d['calls'].items()}
        self.drops = {int(k): v for k, v in d['drops'].items()}
        self.ctors = d['ctors']; self.unsize = d['unsize']


class _LazyBodies(dict):
    """id -> Body, parsed from the raw JSON line on first access"""
    def __init__(self):
        super().__init__()
        self.raw = {}
    def __missing__(self, k):
        b = Body(json.loads(self.raw[k]))
        self[k] = b
        return b
    def get(self, k, default=None):
        if k in self.raw:
            return self[k]
        return default
    def all(self):
        for k in self.raw:
            yield self[k]
    def __contains__(self, k):
        return k in self.raw


_BODY_HEAD = re.compile(r'^\{"k":"body","id":(\d+),"path":("(?:[^"\\\\]|\\\\.)*")')


class DB:
    def __init__(self, path):
        self.bodies = _LazyBodies()
        self.path_of = {}
        self.by_path = collections.defaultdict(list)   # path -> [body id]
        self.instances = {}
        self.adts = {}
        self.impls = []
        self.meta = None
        with open(path) as f:
            for line in f:
                if line.startswith('{"k":"body"'):
                    m = _BODY_HEAD.match(line)
                    bid = int(m.group(1)); bpath = json.loads(m.group(2))
                    self.bodies.raw[bid] = line
                    self.path_of[bid] = bpath
                    self.by_path[bpath].append(bid)
                    continue
                o = json.loads(line)
                k = o['k']
                if k == 'inst':
                    i = Instance(o)
                    self.instances[i.n] = i
                elif k == 'adt':
                    self.adts[o['path']] = o
                elif k == 'impl':
                    self.impls.append(o)
                elif k == 'meta':
                    self.meta = o
        if self.meta is None:
            raise RuntimeError('facts file incomplete: no meta record')
        self.inst_by_body = collections.defaultdict(list)
        for i in self.instances.values():
            self.inst_by_body[i.body_id].append(i)
        # trait method -> [(self type, impl method path)]
        self.trait_impls = collections.defaultdict(list)
        for im in self.impls:
            if 'trait' in im:
                for tm, m in im['methods'].items():
                    self.trait_impls[tm].append((im['self_ty'], m))

    def body(self, path):
        ids = self.by_path.get(path)
        if not ids:
            return None
        return self.bodies[ids[0]]

    def find_bodies(self, pattern):
        rx = re.compile(pattern)
        return [self.bodies[i] for i, p in self.path_of.items() if rx.search(p)]

    def find_bodies_mentioning(self, pattern, *texts):
        """bodies whose path matches `pattern` and whose raw fact line contains one of `texts` (cheap pre-filter
        before parsing: field names and callee paths appear literally in the facts)"""
        rx = re.compile(pattern)
        out = []
        for i, p in self.path_of.items():
            if rx.search(p):
                raw = self.bodies.raw.get(i)
                if raw is None or any(t in raw for t in texts):
                    out.append(self.bodies[i])
        return out

    def one_body(self, pattern):
        bs = self.find_bodies(pattern)
        if len(bs) != 1:
            raise LookupError('expected exactly one body matching %r, found %d: %s' % (pattern, len(bs), [b.path for b in bs][:6]))
        return bs[0]
