"""C11 Framing is independent of how the byte stream is segmented (E7 + E2)."""
import re
from ..rulelib import *
from ..facts import fmt_sym, fmt_lit

CONSUME = re.compile(r'BytesMut::(split_to|split_off|advance|clear|truncate|split|unsplit|set_len)$|bytes::Buf::advance$')


def run(ctx):
    r, db = ctx.r, ctx.db
    r.explanation = ('Under tokio_util::FramedRead\'s contract (decode is re-invoked with the accumulated buffer whenever bytes arrive; '
                     'returning Ok(None) means "need more"), frame boundaries cannot depend on segmentation if: (i) the codec carries no '
                     'state across calls - TcpCodec has the single field decoding_options and decode never writes through self; (ii) no '
                     'consuming BytesMut operation can precede a return of Ok(None); (iii) the Ok(Some) path consumes exactly once, and '
                     'exactly message_header.message_size bytes. For the sending side, SendBuffer::read_into_async consumes exactly the '
                     'count returned by write() and only returns to the Writing state when end == position.')
    r.rule_text = 'E7 ADT field table; E2 reachability / argument provenance over MIR of TcpCodec::decode and SendBuffer::read_into_async'
    rule = 'stateless-codec'
    a = db.adts.get('core::comms::tcp_codec::TcpCodec')
    if not a:
        r.lost(rule, 'TcpCodec', 'TcpCodec not found')
    else:
        fields = [f[0] for f in a['variants'][0]['fields']]
        if fields == ['decoding_options']:
            r.ok(rule, 'TcpCodec:fields', 'TcpCodec holds only decoding_options', loc=a['loc']['f'])
        else:
            r.fail(rule, 'TcpCodec:fields', 'TcpCodec gained state that could remember a previous partial frame: %s' % fields, loc=a['loc']['f'])
    bs = db.find_bodies(r'^<core::comms::tcp_codec::TcpCodec as tokio_util::codec::Decoder>::decode$')
    if not bs:
        r.lost(rule, 'decode', 'TcpCodec::decode not found'); return
    b = bs[0]; F = ctx.facts(b)
    writes = []
    for bi, blk in enumerate(b.blocks):
        if blk['c']:
            continue
        for st in blk['s']:
            if st[0] == '=':
                if st[1][0] == 1 and '*' in st[1][1]:
                    writes.append('assignment')
                rv = st[2]
                if rv[0] == 'ref' and rv[1] == 'mut' and rv[2][0] == 1 and '*' in rv[2][1]:
                    writes.append('&mut self')
    if writes:
        r.fail(rule, 'decode:self-writes', 'decode mutates the codec (%s): the result could depend on earlier calls' % writes[0], loc=b.loc)
    else:
        r.ok(rule, 'decode:self-writes', 'decode never writes through self', loc=b.loc)
    # ---------------- (ii) / (iii)
    rule = 'consume-discipline'
    cons = [c for c in b.calls() if CONSUME.search(c.callee)]
    none_sites = []; some_sites = []
    for bb, si, pl in result_ctor_sites(b, 'Ok'):
        op = b.stmts(bb)[si][2][4][0]
        v = F.sym_operand(op)
        t = fmt_sym(b, v)
        if 'Option::None' in t or t.endswith('None'):
            none_sites.append((bb, si))
        else:
            some_sites.append((bb, si))
    r.count('ok_none_returns', len(none_sites)); r.count('consuming_calls', len(cons))
    if len(none_sites) < 2 or not some_sites:
        r.lost(rule, 'decode:returns', 'expected two Ok(None) returns and one Ok(Some) (found %d/%d)' % (len(none_sites), len(some_sites)))
    else:
        bad = [c for c in cons if c.target is not None and any(bb in b.reachable_blocks(c.target) for bb, si in none_sites)]
        if bad:
            r.fail(rule, 'decode:none-after-consume', 'bytes are consumed (%s) on a path that then answers "need more data": a frame split across reads would lose its prefix' % bad[0].callee.rsplit('::', 1)[-1], loc=bad[0].loc)
        else:
            r.ok(rule, 'decode:none-after-consume', 'no consuming buffer operation can precede an Ok(None) return', loc=b.loc)
        dom = [c for c in cons if any(b.dominates(c.bb, bb) for bb, si in some_sites)]
        if len(cons) == 1 and len(dom) == 1 and len(cons[0].args) < 2:
            r.fail(rule, 'decode:consume-exactly-frame', '%s takes everything that is buffered, not the header\'s message_size: frames (or the start of one) that arrived in the same read are thrown away'
                   % cons[0].callee.rsplit('::', 1)[-1], loc=cons[0].loc)
        elif len(cons) == 1 and len(dom) == 1:
            a1 = fmt_sym(b, F.sym_operand(cons[0].args[1]))
            if re.search(r'message_size as usize\)?$', a1) and 'MessageHeader' in a1 or ('message_size' in a1 and 'decode' in a1):
                r.ok(rule, 'decode:consume-exactly-frame', 'exactly one consuming call, split_to(header.message_size), dominates Ok(Some)', detail=a1[:120], loc=cons[0].loc)
            else:
                r.fail(rule, 'decode:consume-exactly-frame', 'the number of bytes consumed is not the header\'s message_size', detail=a1[:160], loc=cons[0].loc)
        else:
            r.fail(rule, 'decode:consume-exactly-frame', 'expected exactly one consuming call dominating Ok(Some), found %d consuming calls (%d dominating)' % (len(cons), len(dom)), loc=b.loc)
    # ---------------- send side
    rule = 'send-buffer'
    sb = [x for x in db.find_bodies(r'^client::transport::buffer::SendBuffer::read_into_async::\{closure#0\}$')]
    if not sb:
        r.lost(rule, 'read_into_async', 'SendBuffer::read_into_async coroutine not found')
    else:
        s = sb[0]; Fs = ctx.facts(s)
        cons = [c for c in s.calls() if c.callee.endswith('::consume')]
        if len(cons) != 1:
            r.fail(rule, 'read_into_async:consume', 'expected exactly one consume call, found %d' % len(cons), loc=s.loc)
        else:
            a1 = fmt_sym(s, Fs.sym_operand(cons[0].args[1]))
            if 'poll' in a1.lower() or 'write' in a1.lower():
                r.ok(rule, 'read_into_async:consume', 'the buffer is advanced by exactly the count the writer reported', detail=a1[:120], loc=cons[0].loc)
            else:
                r.fail(rule, 'read_into_async:consume', 'the buffer is not advanced by the number of bytes actually written', detail=a1[:160], loc=cons[0].loc)
        # back to Writing only when end == position
        sa = db.adts.get('client::transport::buffer::SendBufferState')
        widx = [i for i, v in enumerate(sa['variants']) if v['name'] == 'Writing'][0] if sa else 0
        sets = [(bi, si) for bi, blk in enumerate(s.blocks) if not blk['c'] for si, st in enumerate(blk['s'])
                if (st[0] == '=' and st[1][1] and st[1][1][-1] == '.state' and 'Writing' in fmt_sym(s, Fs.sym_rvalue(st[2], 0) or ('k', '', '')))
                or (st[0] == 'setdiscr' and st[1][1] and st[1][1][-1] == '.state' and st[2] == widx)]
        # the initial Writing->Reading switch-over at the top of the function is not a reset: only look after the write
        wr = [c for c in s.calls() if 'poll' in c.callee.lower() or c.callee.endswith('::write')]
        if not sets:
            r.lost(rule, 'read_into_async:state', 'no transition back to Writing found')
        for bi, si in sets:
            lits = Fs.literals_at(bi, si)
            if any(l[0] == 'cmp' and l[1] == 'eq' and 'position' in fmt_lit(s, l) for l, e in lits):
                r.ok(rule, 'read_into_async:state', 'the buffer returns to Writing only when end == position (everything was sent)', loc=s.loc)
            else:
                r.fail(rule, 'read_into_async:state', 'the send buffer can be reset for writing while unsent bytes remain', loc=s.loc)
    r.assumptions += ['tokio_util::codec::FramedRead re-invokes decode with the unconsumed buffer plus newly read bytes (library contract)',
                      'tokio AsyncWrite::write is cancellation safe and reports the bytes accepted']
