"""C24 Monitored item queues keep the right values and survive resizing (E2 + E7 + E1)."""
import re
from ..rulelib import *
from ..facts import fmt_sym, fmt_lit
from ..panics import run_e1

Q = '.notification_queue'
MUT = re.compile(r'VecDeque::(push_back|push_front|insert|append|extend|pop_front|pop_back|drain|remove|clear|truncate|retain|swap_remove_back|swap_remove_front|split_off|resize|rotate_left|rotate_right)$')
WRITERS = {
    'MonitoredItem::enqueue_notification_message': 'the only insertion',
    'MonitoredItem::modify': 'shrinks the queue from the front',
    'MonitoredItem::all_notifications': 'drains the whole queue for a publish response',
    'MonitoredItem::oldest_notification_message': 'test helper (cfg(test))',
}
ENTRY = (r'^server::subscriptions::monitored_item::MonitoredItem::(enqueue_notification_message|all_notifications|modify)$')
STOP = r'^server::events::|FilterType::from_filter|::validate_filter$|AddressSpace::'


def _is_queue(b, F, op):
    return fmt_sym(b, F.sym_operand(op)).endswith(Q)


def run(ctx):
    r, db = ctx.r, ctx.db
    r.explanation = ('Structural clauses of the queue discipline, decided on MIR: (writers) only enqueue_notification_message, modify and '
                     'all_notifications mutate MonitoredItem.notification_queue, and only new/modify assign queue_size, so the per-function '
                     'rules below are an inductive argument for len <= queue_size; (bounded) the single push_back is reachable only through '
                     'the `len != queue_size` edge or after a pop on the `len == queue_size` branch; (policy) pop_front only under '
                     'discard_oldest, pop_back only under !discard_oldest; (order) insertion is push_back and the drain for publishing is the '
                     'full range; (overflow) the overflow bit and queue_overflow flag are written only on the full branch; (resize) modify '
                     'drains exactly 0..len-queue_size under len > queue_size, i.e. from the oldest end. E1: no undispositioned panic site in '
                     'these functions. Which values end up in the queue for a concrete history is not decided.')
    r.rule_text = 'E7 who-may-write x E2 guard dominance / must-pass-through over MIR of MonitoredItem; E1 panic sites'
    # ------------------------------------------------------------ writers
    rule = 'queue-writers'
    seen = 0
    for b in db.find_bodies_mentioning(r'^server::', 'notification_queue', 'queue_size'):
        if '::tests::' in b.path:
            continue
        F = None
        for c in b.calls():
            if MUT.search(c.callee) and c.args:
                F = F or ctx.facts(b)
                if _is_queue(b, F, c.args[0]) and 'MonitoredItem' in ''.join(b.locals[:2]) + b.path:
                    seen += 1
                    short = '::'.join(b.path.split('::')[-2:])
                    key = 'writer:%s:%s' % (short, c.callee.rsplit('::', 1)[-1])
                    if short in WRITERS:
                        r.ok(rule, key, 'expected writer (%s)' % WRITERS[short], loc=c.loc)
                    else:
                        r.fail(rule, key, 'notification_queue is also mutated in %s: the per-function queue rules no longer cover every writer' % b.path, loc=c.loc)
        # assignments to queue_size
        for bi, blk in enumerate(b.blocks):
            for st in blk['s']:
                if st[0] == '=' and st[1][1] and st[1][1][-1] == '.queue_size' and 'MonitoredItem' in b.locals[st[1][0]]:
                    short = '::'.join(b.path.split('::')[-2:])
                    key = 'size-writer:%s' % short
                    if short in ('MonitoredItem::modify', 'MonitoredItem::new'):
                        r.ok(rule, key, 'queue_size assigned in an expected place', loc=b.loc)
                    else:
                        r.fail(rule, key, 'queue_size is assigned outside new/modify: the queue is not re-trimmed there', loc=b.loc)
    r.count('queue_mutations', seen)
    # ------------------------------------------------------------ enqueue
    b = db.body('server::subscriptions::monitored_item::MonitoredItem::enqueue_notification_message')
    if b is None:
        r.lost('bounded', 'enqueue', 'enqueue_notification_message not found')
    else:
        F = ctx.facts(b)
        calls = [c for c in b.calls() if MUT.search(c.callee) and c.args and _is_queue(b, F, c.args[0])]
        pushes = [c for c in calls if c.callee.endswith(('push_back', 'push_front', 'insert', 'append', 'extend'))]
        pops = [c for c in calls if c.callee.endswith(('pop_front', 'pop_back'))]
        def is_qlen(x):
            return x[0] == 'len' and fmt_sym(b, x).endswith(Q + ')')
        def is_qsize(x):
            return fmt_sym(b, x).endswith('.queue_size')
        def full_edge(lit, op):
            return lit[0] == 'cmp' and lit[1] == op and ((is_qlen(lit[2]) and is_qsize(lit[3])) or (is_qlen(lit[3]) and is_qsize(lit[2])))
        ne_edges = edges_where(F, lambda l: full_edge(l, 'ne'))
        eq_edges = edges_where(F, lambda l: full_edge(l, 'eq'))
        if len(pushes) != 1 or not pushes[0].callee.endswith('push_back'):
            r.fail('order', 'enqueue:push', 'enqueue must append with exactly one push_back (found %s): sample order would not be preserved'
                   % [c.callee.rsplit('::', 1)[-1] for c in pushes], loc=b.loc)
        else:
            r.ok('order', 'enqueue:push', 'the only insertion is one VecDeque::push_back (newest at the back)', loc=pushes[0].loc)
            p = pushes[0]
            if not ne_edges or not eq_edges:
                r.lost('bounded', 'enqueue:full-test', 'comparison of notification_queue.len() with queue_size not found')
            else:
                cut = frozenset((s, d) for s, d, _ in ne_edges)
                reach = b.reachable_blocks(0, removed_edge=cut, stop={c.bb for c in pops})
                # blocks of pops are included in `reach` as stop points; the push must not be reachable past them
                if p.bb in reach and p.bb not in {c.bb for c in pops}:
                    r.fail('bounded', 'enqueue:push-bounded', 'push_back is reachable with a full queue without a preceding pop: the queue can exceed queue_size', loc=p.loc)
                else:
                    r.ok('bounded', 'enqueue:push-bounded', 'push_back is reachable only via `len != queue_size` or after a pop on the full branch', loc=p.loc)
        # policy
        for c in pops:
            lits = F.literals_at(c.bb)
            want = c.callee.endswith('pop_front')
            pol = [l for l, e in lits if l[0] == 'truth' and fmt_sym(b, l[1]).endswith('.discard_oldest') and l[2] == want]
            full = [l for l, e in lits if full_edge(l, 'eq')]
            key = 'enqueue:' + c.callee.rsplit('::', 1)[-1]
            if pol and full:
                r.ok('policy', key, '%s only when full and discard_oldest == %s' % (c.callee.rsplit('::', 1)[-1], want), loc=c.loc)
            else:
                r.fail('policy', key, '%s is not confined to the full queue with discard_oldest == %s: the wrong end of the queue is discarded'
                       % (c.callee.rsplit('::', 1)[-1], want), loc=c.loc)
        if {c.callee.rsplit('::', 1)[-1] for c in pops} != {'pop_front', 'pop_back'}:
            r.fail('policy', 'enqueue:pops', 'expected one pop_front (discard oldest) and one pop_back (replace newest) on the full branch, found %s'
                   % sorted(c.callee.rsplit('::', 1)[-1] for c in pops), loc=b.loc)
        # overflow marking
        marks = []
        for bi, blk in enumerate(b.blocks):
            for si, st in enumerate(blk['s']):
                if st[0] == '=' and st[1][1] and st[1][1][-1] == '.queue_overflow' and st[2][0] == 'use' and st[2][1][0] == 'k' and st[2][1][1] in ('1', 'true'):
                    marks.append(('queue_overflow', bi))
        for c in b.calls():
            if c.callee.endswith('BitOr::bitor') and any('OVERFLOW' in fmt_sym(b, F.sym_operand(a)) for a in c.args):
                marks.append(('status|OVERFLOW', c.bb))
        if {m for m, _ in marks} != {'queue_overflow', 'status|OVERFLOW'}:
            r.fail('overflow', 'enqueue:marks', 'overflow is not marked both in the notification status and in queue_overflow (found %s)' % sorted({m for m, _ in marks}), loc=b.loc)
        elif eq_edges:
            cut = frozenset((s, d) for s, d, _ in eq_edges)
            nofull = b.reachable_blocks(0, removed_edge=cut)
            bad = []
            for m, bb in marks:
                if bb not in nofull:
                    continue
                # path-insensitively reachable: the mark must then sit under a flag that is only true on the full branch
                flag_ok = False
                for lit, e in F.literals_at(bb):
                    if lit[0] == 'truth' and lit[2] is True and lit[1][0] == 'place' and not lit[1][2]:
                        defs = b.defs().get(lit[1][1], [])
                        if defs and all(d[0] == 'stmt' and ((d[3][0] == 'use' and d[3][1][0] == 'k' and d[3][1][1] in ('0', 'false')) or d[1] not in nofull)
                                        for d in defs):
                            flag_ok = True
                if not flag_ok:
                    bad.append(m)
            # the flag itself: on the full branch it is `queue_size > 1` (a queue of one entry replaces silently), nothing else
            flagdefs = []
            for m, bb in marks:
                for lit, e in F.literals_at(bb):
                    if lit[0] == 'truth' and lit[2] is True and lit[1][0] == 'place' and not lit[1][2]:
                        for d in b.defs().get(lit[1][1], []):
                            if d[0] == 'stmt' and not (d[3][0] == 'use' and d[3][1][0] == 'k'):
                                flagdefs.append(fmt_sym(b, F.sym_rvalue(d[3], 0, d[1])))
                            elif d[0] != 'stmt':
                                flagdefs.append(d[2].callee)
            wrong = sorted({x for x in flagdefs if not re.match(r'^\(\(\*self\(_1\)\)\.queue_size Gt 1\)$', x)})
            if wrong and not bad:
                bad = ['overflow flag computed as %s instead of queue_size > 1' % wrong[0][:80]]
            if bad:
                r.fail('overflow', 'enqueue:marks', 'overflow marking is wrong: %s' % bad, loc=b.loc)
            else:
                r.ok('overflow', 'enqueue:marks', 'OVERFLOW bit and queue_overflow are written only under a flag that is false unless `len == queue_size`', loc=b.loc)
    # ------------------------------------------------------------ modify
    b = db.body('server::subscriptions::monitored_item::MonitoredItem::modify')
    if b is None:
        r.lost('resize', 'modify', 'MonitoredItem::modify not found')
    else:
        F = ctx.facts(b)
        drains = [c for c in b.calls() if c.callee.endswith('VecDeque::drain') and _is_queue(b, F, c.args[0])]
        others = [c for c in b.calls() if MUT.search(c.callee) and c.args and _is_queue(b, F, c.args[0]) and not c.callee.endswith('drain')]
        if len(drains) != 1 or others:
            r.fail('resize', 'modify:drain', 'modify is expected to trim the queue with exactly one drain (found %d drains, other mutations %s)'
                   % (len(drains), [c.callee.rsplit('::', 1)[-1] for c in others]), loc=b.loc)
        else:
            c = drains[0]
            rng = fmt_sym(b, F.sym_operand(c.args[1]))
            lits = F.literals_at(c.bb)
            guard = [l for l, e in lits if l[0] == 'cmp' and l[1] == 'gt' and l[2][0] == 'len' and fmt_sym(b, l[2]).endswith(Q + ')') and fmt_sym(b, l[3]).endswith('.queue_size')]
            m = re.match(r'^(Range::)?Range\{0(_usize)?, \(len\(.*\.notification_queue\) Sub(WithOverflow)? .*\.queue_size\)(\.0)?\}$', rng)
            if guard and m:
                r.ok('resize', 'modify:drain', 'drain(%s) under `%s`: the oldest len - queue_size entries go, the newest stay' % (rng, fmt_lit(b, guard[0])), loc=c.loc)
            else:
                r.fail('resize', 'modify:drain', 'the trim in modify is not drain(0..len - queue_size) under len > queue_size (range %s, guard %s): '
                       'a shrink would drop recent entries or leave the queue over its size' % (rng, bool(guard)), loc=c.loc)
            # the new size is installed before the trim
            sets = [bi for bi, blk in enumerate(b.blocks) for st in blk['s'] if st[0] == '=' and st[1][1] and st[1][1][-1] == '.queue_size']
            if sets and all(b.dominates(s, c.bb) for s in sets):
                r.ok('resize', 'modify:size-before-trim', 'queue_size is assigned before the trim', loc=b.loc)
            else:
                r.fail('resize', 'modify:size-before-trim', 'queue_size is not assigned on every path before the trim', loc=b.loc)
    # ------------------------------------------------------------ all_notifications
    b = db.body('server::subscriptions::monitored_item::MonitoredItem::all_notifications')
    if b is None:
        r.lost('order', 'all_notifications', 'all_notifications not found')
    else:
        F = ctx.facts(b)
        ds = [c for c in b.calls() if c.callee.endswith('VecDeque::drain') and _is_queue(b, F, c.args[0])]
        if len(ds) == 1 and 'RangeFull' in fmt_sym(b, F.sym_operand(ds[0].args[1])):
            r.ok('order', 'all_notifications:drain', 'publishing drains the whole queue front to back (drain(..))', loc=ds[0].loc)
        else:
            r.fail('order', 'all_notifications:drain', 'all_notifications no longer drains the full range front to back: %s'
                   % [fmt_sym(b, F.sym_operand(c.args[1])) for c in ds], loc=b.loc)
    # ------------------------------------------------------------ E1
    run_e1(ctx, ENTRY, stop_pattern=STOP)
    r.floor('queue-writers', 'queue_mutations', seen, 5)
