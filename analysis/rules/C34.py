"""C34 Node management results describe what actually happened (E2)."""
import re
from ..rulelib import *
from ..facts import fmt_sym, fmt_lit

MUTATORS = re.compile(r'AddressSpace::(insert|insert_reference|delete|delete_reference|set_node_type|add_|set_)|References::(insert|delete)')


def good_returns(body, F):
    """(bb, idx) of tuple aggregates `(StatusCode::Good, ..)` and of bare `StatusCode::Good` values flowing to _0"""
    out = []
    for bi, blk in enumerate(body.blocks):
        if blk['c']:
            continue
        for si, st in enumerate(blk['s']):
            if st[0] != '=':
                continue
            rv = st[2]
            if rv[0] == 'agg' and rv[1] == 'tuple' and rv[4]:
                op = rv[4][0]
                if op[0] == 'k' and 'Good' in op[1] and 'StatusCode' in op[2]:
                    out.append((bi, si, 'tuple'))
            elif rv[0] == 'use' and rv[1][0] == 'k' and 'StatusCode' in rv[1][2] and 'Good' in rv[1][1] and st[1][0] == 0:
                out.append((bi, si, 'value'))
    return out


def run(ctx):
    r, db = ctx.r, ctx.db
    r.explanation = ('(1) result-must-be-used: in NodeManagementService::add_node every construction of (StatusCode::Good, id) is '
                     'dominated by the true edge of the bool returned by AddressSpace::insert. (2) error-before-effect: in add_node, '
                     'add_reference, delete_node, delete_reference no call that mutates the address space can precede a Bad* return on any path '
                     '(a Bad result never follows a mutation), except a mutator whose own failure result selects that return. Decides these clauses, not the content of the address space.')
    r.rule_text = 'E2 guard dominance in services::node_management'
    rule = 'insert-result-used'
    bs = db.find_bodies(r'^server::services::node_management::NodeManagementService::add_node$')
    if not bs:
        r.lost(rule, 'add_node', 'NodeManagementService::add_node not found'); return
    b = bs[0]; F = ctx.facts(b)
    ins = [c for c in b.calls() if c.callee.endswith('AddressSpace::insert')]
    if len(ins) != 1:
        r.lost(rule, 'add_node:insert', 'expected one AddressSpace::insert call in add_node, found %d' % len(ins)); return
    isym = F.sym_call(ins[0])
    goods = good_returns(b, F)
    if not goods:
        r.lost(rule, 'add_node:Good', 'no (StatusCode::Good, id) construction found in add_node'); return
    for bi, si, kind in goods:
        lits = F.literals_at(bi, si)
        ok = [l for l, e in lits if l[0] == 'truth' and l[1] == isym and l[2] is True]
        key = 'add_node:Good'
        if ok:
            r.ok(rule, key, '(Good, id) only on the true edge of AddressSpace::insert', loc=ins[0].loc)
        else:
            r.fail(rule, key, 'add_node returns Good without testing whether AddressSpace::insert created the node '
                              '(a colliding server-assigned id yields Good for a node that was not created)', loc=ins[0].loc)
    # (2) no mutation dominates a Bad return
    rule2 = 'error-before-effect'
    n = 0
    for pat in (r'NodeManagementService::add_node$', r'NodeManagementService::add_reference$', r'NodeManagementService::delete_node$', r'NodeManagementService::delete_reference$'):
        bs = db.find_bodies(r'^server::services::node_management::' + pat)
        if not bs:
            r.lost(rule2, pat, 'function not found: ' + pat); continue
        b = bs[0]
        muts = [c for c in b.calls() if MUTATORS.search(c.callee)]
        bads = []
        for bi, blk in enumerate(b.blocks):
            if blk['c']:
                continue
            for si, st in enumerate(blk['s']):
                if st[0] != '=':
                    continue
                rv = st[2]
                ops = rv[4] if rv[0] == 'agg' and rv[1] == 'tuple' else ([rv[1]] if rv[0] == 'use' else [])
                for op in ops[:1]:
                    if op[0] == 'k' and 'StatusCode' in op[2] and re.search(r'\bBad[A-Za-z]+', op[1]):
                        bads.append((bi, si, re.search(r'\bBad[A-Za-z]+', op[1]).group(0)))
        for bi, si, name in bads:
            n += 1
            key = '%s:%s' % (b.path.rsplit('::', 1)[-1], name)
            # may-precede: a mutating call from which this Bad return can be reached
            before = [m for m in muts if m.target is not None and bi in b.reachable_blocks(m.target)]
            # the insert whose failure is being reported is the one allowed predecessor
            # a mutator whose own failure result selects this Bad return did not change anything
            Fb = ctx.facts(b)
            lits = Fb.literals_at(bi, si)
            def failed(m):
                ms = Fb.sym_call(m)
                return any((l[0] == 'truth' and l[1] == ms and l[2] is False) or
                           (l[0] == 'variant' and l[1] == ms and l[2] in ('Err', 'None') and l[3]) for l, e in lits)
            before = [m for m in before if not failed(m)]
            if before:
                r.fail(rule2, key, '%s is returned after the address space was already modified by %s' % (name, before[0].callee.rsplit('::', 1)[-1]), loc=before[0].loc)
            else:
                r.ok(rule2, key, '%s is returned before any mutating call on its path' % name, loc='%s:%s' % (b.loc.file, b.stmts(bi)[si][3] if not isinstance(b.stmts(bi)[si][3], dict) else b.stmts(bi)[si][3]['l']))
    r.floor(rule2, 'bad_returns', n, 12)
    delete_result(ctx)
    # "linked to the given parent with the given reference type": AddNodes / AddReferences end in References::insert_reference,
    # which must not leave a reference out unless an equal one is there (rule shared with C28)
    from .C28 import insert_complete
    insert_complete(ctx)


def delete_result(ctx, rule='delete-result'):
    """AddressSpace::delete answers true whenever the node was removed from the node map (NodeManagementService::delete_node
    turns `false` into BadNodeIdUnknown): every definition of the return value other than the constant `true` must lie under
    `removed_node` being None, and delete_node maps exactly true -> Good"""
    r, db = ctx.r, ctx.db
    b = db.body('server::address_space::address_space::AddressSpace::delete')
    if b is None:
        r.lost(rule, 'AddressSpace::delete', 'not found'); return
    F = ctx.facts(b)
    rm = [c for c in b.calls() if c.callee.endswith('HashMap::remove') and fmt_sym(b, F.sym_operand(c.args[0])).endswith('.node_map')]
    if len(rm) != 1:
        r.lost(rule, 'node_map.remove', 'removal from node_map not found'); return
    n = 0; bad = []
    def value_defs(local, depth=0):
        out = []
        for d in b.defs().get(local, []):
            if d[0] == 'stmt' and d[3][0] == 'use' and d[3][1][0] in ('cp', 'mv') and not d[3][1][1][1] and depth < 3 and len(b.defs().get(d[3][1][1][0], [])) > 1:
                out += value_defs(d[3][1][1][0], depth + 1)
            else:
                out.append(d)
        return out
    for d in b.defs().get(0, []):
        n += 1
        if d[0] == 'stmt' and d[3][0] == 'use' and d[3][1][0] == 'k' and d[3][1][1] in ('1', 'true'):
            continue
        bb = d[1]
        si = d[2] if d[0] == 'stmt' else None
        lits = [fmt_lit(b, l) for l, e in (F.literals_at(bb, si) if si is not None else F.literals_at(bb))]
        absent = any(re.search(r'is_some\(&(removed_node\(_\d+\)|HashMap::remove\(.*\.node_map, .*\))\) == False$|(removed_node\(_\d+\)|HashMap::remove\(.*\.node_map, .*\)) is (None|not Some)$', x) for x in lits)
        if not absent:
            bad.append(fmt_sym(b, F.sym_rvalue(d[3], 0, bb))[:80] if d[0] == 'stmt' else d[2].callee.rsplit('::', 1)[-1])
    if bad:
        r.fail(rule, 'AddressSpace::delete:result', 'AddressSpace::delete can answer %s on a path where the node was removed from node_map: DeleteNodes then reports '
               'BadNodeIdUnknown for a node it deleted' % ' / '.join(bad[:2]), loc=b.loc)
    else:
        r.ok(rule, 'AddressSpace::delete:result', 'every non-constant result of AddressSpace::delete lies under `removed_node is None` (removed => true)', loc=b.loc)
    r.count('delete_result_defs', n)
    r.floor(rule, 'delete_result_defs', n, 2)
