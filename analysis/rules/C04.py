"""C04 Textual identifiers: the parsers never panic (E1 half only)."""
from ..panics import run_e1

ENTRY = (r'^<types::(node_id::NodeId|node_id::Identifier|expanded_node_id::ExpandedNodeId|guid::Guid|numeric_range::NumericRange|date_time::DateTime) as std::str::FromStr>::from_str$'
         r'|^types::date_time::DateTime::parse_from_rfc3339$|^types::numeric_range::NumericRange::(parse_range|from_str)$')


def run(ctx):
    r = ctx.r
    r.explanation = ('No-panic half only: every panic site reachable from the FromStr implementations of NodeId, Identifier, ExpandedNodeId, '
                     'Guid, NumericRange and DateTime is discharged by a dominating guard or a reviewed disposition (regex / uuid / chrono '
                     'parsers are trusted through the panicking-API table). Print/parse equality relates the output language of a formatter '
                     'to the input language of a regular expression and is not decided.')
    r.rule_text = 'E1 panic-site inventory over the text parsers'
    run_e1(ctx, ENTRY)
    r.floor('E1-panic', 'reachable_bodies', r.counts.get('reachable_bodies', 0), 6)
