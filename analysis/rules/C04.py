"""C04 Textual identifiers: the parsers never panic (E1 half only)."""
from ..panics import run_e1

ENTRY = (r'^<types::(node_id::NodeId|node_id::Identifier|expanded_node_id::ExpandedNodeId|guid::Guid|numeric_range::NumericRange|date_time::DateTime) as std::str::FromStr>::from_str$'
         r'|^types::date_time::DateTime::parse_from_rfc3339$|^types::numeric_range::NumericRange::(parse_range|from_str)$')


def run(ctx):
    r = ctx.r
    r.explanation = ('No-panic half only: every panic site reachable from the FromStr implementations of NodeId, Identifier, ExpandedNodeId, '
                     'Guid, NumericRange and DateTime is discharged by a dominating guard or a reviewed disposition (regex / uuid / chrono '
                     'parsers are trusted through the panicking-API table). Print/parse equality relates the output language of a formatter '
                     'to the input language of a regular expression and is not decided, except one structural clause: the escape replacements of the ExpandedNodeId namespace URI are inverted in reverse order by the parser.')
    r.rule_text = 'E1 panic-site inventory over the text parsers'
    run_e1(ctx, ENTRY)
    escape_order(ctx)
    r.floor('escape-order', 'escape_pairs', r.counts.get('escape_pairs', 0), 4)
    r.floor('E1-panic', 'reachable_bodies', r.counts.get('reachable_bodies', 0), 6)


def escape_order(ctx, rule='escape-order'):
    """ExpandedNodeId escapes '%' and ';' in the namespace URI when printing and undoes it when parsing. Sequential
    string replacement only inverts when (a) no later printer replacement can touch the output of an earlier one and
    (b) the parser applies the inverse replacements in the reverse order."""
    import re
    from .C01 import rpo
    r, db = ctx.r, ctx.db
    pb = db.find_bodies(r'^<types::expanded_node_id::ExpandedNodeId as std::fmt::Display>::fmt$')
    qb = db.find_bodies(r'^<types::expanded_node_id::ExpandedNodeId as std::str::FromStr>::from_str$')
    if not pb or not qb:
        r.lost(rule, 'functions', 'Display / FromStr of ExpandedNodeId not found'); return
    def pairs(b):
        F = ctx.facts(b)
        order = {x: i for i, x in enumerate(rpo(b))}
        out = []
        for c in sorted([c for c in b.calls() if c.bb in order and re.search(r'str.*::replace$', c.callee_raw) or c.callee.endswith('str::replace')], key=lambda c: order.get(c.bb, 0)):
            def lit(op):
                s = F.sym_operand(op)
                while s[0] in ('ref', 'deref'):
                    s = s[1]
                if s[0] == 'k' and s[2] == 'char':
                    return chr(int(s[1]))
                if s[0] == 'k' and s[1].startswith('"'):
                    return s[1][1:-1]
                return None
            if len(c.args) == 3:
                out.append((lit(c.args[1]), lit(c.args[2])))
        return out
    P, Q = pairs(pb[0]), pairs(qb[0])
    if len(P) < 2 or len(Q) < 2 or any(a is None or b_ is None for a, b_ in P + Q):
        r.lost(rule, 'replacements', 'constant replace() sequences not recognised (printer %s, parser %s)' % (P, Q)); return
    probs = []
    for i in range(len(P)):
        for j in range(i + 1, len(P)):
            if P[j][0] in P[i][1]:
                probs.append('the printer escapes %r after %r, but %r occurs in the escape %r written earlier' % (P[j][0], P[i][0], P[j][0], P[i][1]))
    want = [(b_, a) for a, b_ in reversed(P)]
    if Q != want:
        probs.append('the parser undoes %s; the inverse of the printer sequence %s is %s' % (Q, P, want))
    if probs:
        r.fail(rule, 'ExpandedNodeId:namespace_uri', 'escaping of the namespace URI does not invert: ' + '; '.join(probs[:2]), loc=qb[0].loc)
    else:
        r.ok(rule, 'ExpandedNodeId:namespace_uri', 'printer escapes %s, parser undoes them in reverse order' % P, loc=qb[0].loc)
    r.count('escape_pairs', len(P) + len(Q))
