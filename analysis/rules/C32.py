"""C32 Attribute reads and writes obey access rights and never crash (E2 + E6 + E1)."""
import re
from ..rulelib import *
from ..facts import fmt_sym, fmt_lit
from ..panics import run_e1

AS = 'server::services::attribute::AttributeService::'
ENTRY = (r'^server::services::attribute::AttributeService::(read|write)$'
         r'|^server::services::attribute::AttributeService::(read_node_value|write_node_value)$')
STOP = r'^server::callbacks::|::history_|AttributeGetter|AttributeSetter'
MUTATORS = re.compile(r'(Variable::set_value|Variable::set_value_range|Variable::set_value_direct|Node::set_attribute|AddressSpace::find_node_mut|NodeType::as_mut_node|AddressSpace::set_variable_value)')


def _norm(s):
    return s.replace('_', '').lower()


def run(ctx):
    r, db = ctx.r, ctx.db
    r.explanation = ('Access-right and no-panic clauses, decided on MIR. (write gate) in write_node_value every call that can change a node '
                     '(find_node_mut, Variable::set_value, Node::set_attribute) is dominated by is_writable(..) == true, a present value, a '
                     'parsed index range and data_type_valid == true, where data_type_valid for the Value of a Variable is '
                     'validate_value_to_write; so a refused write reaches no mutator. (is_writable) for Variable/Value the answer is '
                     'user_access_level(..).contains(CURRENT_WRITE); every other attribute is answered from the write mask bit of the same '
                     'name. (read gate) get_attribute_max_age is dominated by is_readable == true, which is '
                     'user_access_level(..).contains(CURRENT_READ); user_access_level filters the node\'s level through '
                     'Session::effective_user_access_level. (E1) no undispositioned panic site from AttributeService::read/write, including '
                     'Variant::range_of / set_range_of and UAString / ByteString sub-ranges. Read-after-write value equality is not decided.')
    r.rule_text = 'E2 guard dominance of mutators / readers; E6 attribute-id vs write-mask table; E1 panic inventory'
    # ---------------------------------------------------------------- write gate
    rule = 'write-gate'
    b = db.body(AS + 'write_node_value')
    if b is None:
        r.lost(rule, 'write_node_value', 'not found')
    else:
        F = ctx.facts(b)
        muts = [c for c in b.calls() if MUTATORS.search(c.callee)]
        if len(muts) < 3:
            r.lost(rule, 'mutators', 'expected find_node_mut / set_value / set_attribute in write_node_value, found %d' % len(muts))
        nwr = 0
        for c in muts:
            nwr += 1
            lits = [fmt_lit(b, l) for l, e in F.literals_at(c.bb)]
            short = c.callee.rsplit('::', 2)[-2] + '::' + c.callee.rsplit('::', 1)[-1]
            key = 'mutator:%s#%d' % (short, nwr)
            need = {
                'is_writable': any(re.match(r'^AttributeService::is_writable\(&\(\*session.*\) == True$', x) for x in lits),
                'value present': any(re.search(r'\.value\.value is Some$', x) for x in lits),
                'index range parsed': any(re.search(r'index_range\)\) == False$|index_range\) is (not Err|Ok)$', x) for x in lits),
                'type valid': any(re.match(r'^data_type_valid\(_\d+\) == True$', x) for x in lits),
            }
            miss = [k for k, v in need.items() if not v]
            if miss:
                r.fail(rule, key, '%s is reachable in write_node_value without %s: a write the server should refuse can change the node' % (short, ', '.join(miss)), loc=c.loc)
            else:
                r.ok(rule, key, '%s only after is_writable, a present value, a parsed range and a valid data type' % short, loc=c.loc)
        r.count('write_mutators', nwr)
        # data_type_valid: for Value of a Variable it is validate_value_to_write
        dtv = b.local_by_name('data_type_valid')
        okv = False
        if dtv:
            for d in b.defs().get(dtv[0], []):
                if d[0] == 'call' and d[2].callee.endswith('AttributeService::validate_value_to_write'):
                    lits = [fmt_lit(b, l) for l, e in F.literals_at(d[1])]
                    okv = any(' eq AttributeId::Value' in x for x in lits) and any(x.endswith('is Variable') for x in lits)
            consts = [d for d in b.defs().get(dtv[0], []) if d[0] == 'stmt' and d[3][0] == 'use' and d[3][1][0] == 'k']
            # a constant `true` must only be reachable through an edge that says "attribute is not Value" or "node is not a Variable"
            def escape(l):
                if l[0] == 'cmp' and l[1] == 'ne' and 'AttributeId::Value' in fmt_sym(b, l[3]) and 'attribute_id' in fmt_sym(b, l[2]):
                    return True
                if l[0] == 'variant' and 'find_node' in fmt_sym(b, l[1]) and ((l[2] == 'Variable' and not l[3]) or (l[2] not in ('Variable', 'Some', 'None', 'Ok', 'Err') and l[3])):
                    return True
                return False
            esc = edges_where(F, escape)
            cut = frozenset((s_, d_) for s_, d_, _ in esc)
            reach = b.reachable_blocks(0, removed_edge=cut) if cut else set(range(len(b.blocks)))
            for d in consts:
                if d[1] in reach:
                    okv = False
        if okv:
            r.ok(rule, 'data_type_valid', 'for the Value of a Variable data_type_valid is validate_value_to_write(..)', loc=b.loc)
        else:
            r.fail(rule, 'data_type_valid', 'the value written to a Variable is not type-checked with validate_value_to_write on every path', loc=b.loc)
    # ---------------------------------------------------------------- type compatibility
    rule = 'type-compatible'
    b = db.body(AS + 'validate_value_to_write')
    if b is None:
        r.lost(rule, 'validate_value_to_write', 'not found')
    else:
        F = ctx.facts(b)
        v = b.local_by_name('valid')
        defs = b.defs().get(v[0], []) if v else []
        if not defs:
            r.lost(rule, 'valid', 'result flag of validate_value_to_write not found')
        scalar_rank = reachable_under(b, F, lambda e: e[0] == 'call' and e[1].endswith('Variable::value_rank'), -1)
        nacc = 0
        def subtype_only(local, depth=0):
            ds = b.defs().get(local, [])
            return bool(ds) and all((d[0] == 'call' and d[2].callee.endswith('AddressSpace::is_subtype')) or
                                    (d[0] == 'stmt' and d[3][0] == 'use' and d[3][1][0] == 'k' and d[3][1][1] in ('0', 'false')) for d in ds)
        for d in defs:
            if d[0] == 'call':
                if d[2].callee.endswith('AddressSpace::is_subtype'):
                    nacc += 1
                    r.ok(rule, 'accept@bb%d' % d[1], 'valid = is_subtype(value type, node data type)', loc=d[2].loc)
                else:
                    r.fail(rule, 'accept@bb%d' % d[1], 'the validity of a written value is decided by %s, not by a subtype test' % d[2].callee, loc=d[2].loc)
                continue
            if d[0] != 'stmt':
                r.fail(rule, 'accept@bb%d' % d[1], 'unrecognised definition of the validity flag', loc=b.loc); continue
            rv = d[3]
            if rv[0] == 'use' and rv[1][0] == 'k':
                if rv[1][1] in ('0', 'false'):
                    continue
                lits = [fmt_lit(b, l) for l, e in F.literals_at(d[1], d[2])]
                nacc += 1
                key = 'accept@bb%d' % d[1]
                if any(x.endswith('(*value(_3)) is Empty') or re.search(r'\(\*value\(_\d+\)\) is Empty$', x) for x in lits):
                    r.ok(rule, key, 'an empty value is always writable', loc=b.loc)
                elif any(re.match(r'^AddressSpace::is_subtype\(.*\) == True$', x) for x in lits):
                    r.ok(rule, key, 'accepted under is_subtype(..) == true', loc=b.loc)
                elif any(x.endswith('is ByteString') for x in lits) and any(re.search(r'data_type\(.*\) eq Into::into\(DataTypeId::Byte\)$', x) for x in lits):
                    if d[1] in scalar_rank:
                        r.fail(rule, key, 'a ByteString is accepted for a Byte variable on a path that is feasible with ValueRank -1 (Scalar): '
                               'the exception exists for Byte arrays only', loc=b.loc)
                    else:
                        r.ok(rule, key, 'ByteString accepted for a Byte variable only on paths infeasible with ValueRank -1 (Scalar)', loc=b.loc)
                else:
                    r.fail(rule, key, 'a written value is declared valid without an empty value, a successful subtype test or the ByteString/Byte[] exception', loc=b.loc)
            elif rv[0] == 'use' and rv[1][0] in ('cp', 'mv') and not rv[1][1][1] and subtype_only(rv[1][1][0]):
                nacc += 1
                r.ok(rule, 'accept@bb%d' % d[1], 'valid = result of the subtype test', loc=b.loc)
            else:
                r.fail(rule, 'accept@bb%d' % d[1], 'unrecognised definition of the validity flag: %s' % fmt_sym(b, F.sym_rvalue(rv, 0, d[1]))[:80], loc=b.loc)
        r.count('type_accepting_sites', nacc)
        r.floor(rule, 'type_accepting_sites', nacc, 4)
    # ---------------------------------------------------------------- is_writable
    rule = 'is-writable'
    b = db.body(AS + 'is_writable')
    if b is None:
        r.lost(rule, 'is_writable', 'not found')
    else:
        F = ctx.facts(b)
        narms = 0
        var_value = False
        for d in b.defs().get(0, []):
            if d[0] == 'call':
                c = d[2]
                lits = F.literals_at(c.bb)
                txt = [fmt_lit(b, l) for l, e in lits]
                a = [fmt_sym(b, F.sym_operand(x)) for x in c.args]
                if c.callee.endswith('::contains') and 'user_access_level' in a[0]:
                    ok = (a[1].endswith('UserAccessLevel::CURRENT_WRITE') and any(x.endswith('is Variable') for x in txt) and
                          any(x.endswith(' eq AttributeId::Value') for x in txt) and re.search(r'user_access_level\(&\(\*session', a[0]))
                    if ok:
                        var_value = True
                        r.ok(rule, 'Variable.Value', 'Variable/Value is writable iff user_access_level(session, node, attribute).contains(CURRENT_WRITE)', loc=c.loc)
                    else:
                        r.fail(rule, 'Variable.Value', 'the access-level answer of is_writable is %s.contains(%s) under %s' % (a[0][:60], a[1][-30:], txt[:2]), loc=c.loc)
                elif c.callee.endswith('::contains') and 'write_mask' in a[0]:
                    arm = [l[2] for l, e in lits if l[0] == 'variant' and l[3] and 'attribute_id' in fmt_sym(b, l[1])]
                    flag = a[1].rsplit('::', 1)[-1]
                    if not arm:
                        # Value for VariableType
                        if flag == 'VALUE_FOR_VARIABLE_TYPE' and any(x.endswith('is VariableType') for x in txt):
                            narms += 1
                            r.ok(rule, 'arm:Value(VariableType)', 'Value of a VariableType answered from VALUE_FOR_VARIABLE_TYPE', loc=c.loc)
                        else:
                            r.fail(rule, 'arm:?%s' % flag, 'write-mask test %s is not tied to one attribute id' % flag, loc=c.loc)
                        continue
                    narms += 1
                    if arm[-1] == 'Value':
                        if flag == 'VALUE_FOR_VARIABLE_TYPE' and any(x.endswith('is VariableType') for x in txt):
                            r.ok(rule, 'arm:Value(VariableType)', 'Value of a VariableType answered from VALUE_FOR_VARIABLE_TYPE', loc=c.loc)
                        else:
                            r.fail(rule, 'arm:Value', 'Value is answered from write-mask bit %s outside the VariableType case' % flag, loc=c.loc)
                        continue
                    if _norm(arm[-1]) == _norm(flag):
                        r.ok(rule, 'arm:' + arm[-1], '%s answered from WriteMask::%s' % (arm[-1], flag), loc=c.loc)
                    else:
                        r.fail(rule, 'arm:' + arm[-1], 'attribute %s is answered from the write-mask bit %s of a different attribute' % (arm[-1], flag), loc=c.loc)
            elif d[0] == 'stmt' and d[3][0] == 'use' and d[3][1][0] == 'k' and d[3][1][1] in ('1', 'true'):
                r.fail(rule, 'const-true@bb%d' % d[1], 'is_writable answers a constant true on some path', loc=b.loc)
        if not var_value:
            r.fail(rule, 'Variable.Value', 'is_writable has no access-level answer for the Value of a Variable', loc=b.loc)
        r.count('write_mask_arms', narms)
        r.floor(rule, 'write_mask_arms', narms, 20)
    # ---------------------------------------------------------------- read gate
    rule = 'read-gate'
    b = db.body(AS + 'read_node_value')
    if b is None:
        r.lost(rule, 'read_node_value', 'not found')
    else:
        F = ctx.facts(b)
        gets = [c for c in b.calls() if re.search(r'Node::get_attribute(_max_age)?$', c.callee)]
        if not gets:
            r.lost(rule, 'get_attribute', 'no attribute read in read_node_value')
        for n, c in enumerate(gets):
            lits = [fmt_lit(b, l) for l, e in F.literals_at(c.bb)]
            if any(re.match(r'^AttributeService::is_readable\(&\(\*session.*\) == True$', x) for x in lits):
                r.ok(rule, 'get_attribute#%d' % n, 'the attribute is read only after is_readable(session, node, attribute) == true', loc=c.loc)
            else:
                r.fail(rule, 'get_attribute#%d' % n, 'read_node_value reads the attribute without is_readable having answered true', loc=c.loc)
    b = db.body(AS + 'is_readable')
    if b is None:
        r.lost(rule, 'is_readable', 'not found')
    else:
        F = ctx.facts(b)
        ds = b.defs().get(0, [])
        ok = len(ds) == 1 and ds[0][0] == 'call' and ds[0][2].callee.endswith('::contains')
        if ok:
            a = [fmt_sym(b, F.sym_operand(x)) for x in ds[0][2].args]
            ok = re.search(r'user_access_level\(&\(\*session', a[0]) is not None and a[1].endswith('UserAccessLevel::CURRENT_READ')
        if ok:
            r.ok(rule, 'is_readable', 'is_readable = user_access_level(session, node, attribute).contains(CURRENT_READ)', loc=b.loc)
        else:
            r.fail(rule, 'is_readable', 'is_readable is not the CURRENT_READ bit of the effective user access level', loc=b.loc)
    b = db.body(AS + 'user_access_level')
    if b is None:
        r.lost(rule, 'user_access_level', 'not found')
    else:
        F = ctx.facts(b)
        ds = b.defs().get(0, [])
        ok = len(ds) == 1 and ds[0][0] == 'call' and ds[0][2].callee.endswith('Session::effective_user_access_level')
        lvl_ok = False
        if ok:
            c = ds[0][2]
            lv = F.sym_operand(c.args[1])
            if lv[0] == 'place' and not lv[2]:
                srcs = []
                for d in b.defs().get(lv[1], []):
                    if d[0] == 'call':
                        lits = [fmt_lit(b, l) for l, e in F.literals_at(d[1])]
                        srcs.append(('call', d[2].callee, any(x.endswith('is Variable') for x in lits)))
                    elif d[0] == 'stmt':
                        srcs.append(('const', fmt_sym(b, F.sym_rvalue(d[3], 0, d[1])), False))
                lvl_ok = any(k == 'call' and cal.endswith('Variable::user_access_level') and var for k, cal, var in srcs) and \
                    all((k == 'call' and cal.endswith('Variable::user_access_level')) or (k == 'const' and cal.endswith('CURRENT_READ')) for k, cal, var in srcs)
        if ok and lvl_ok:
            r.ok(rule, 'user_access_level', 'a Variable contributes its own user_access_level(), other nodes CURRENT_READ; both filtered by Session::effective_user_access_level', loc=b.loc)
        else:
            r.fail(rule, 'user_access_level', 'the effective level is not Session::effective_user_access_level(node level, ..) with the Variable\'s own level', loc=b.loc)
    # ---------------------------------------------------------------- E1
    run_e1(ctx, ENTRY, stop_pattern=STOP)
    r.floor('write-gate', 'write_mutators', r.counts.get('write_mutators', 0), 3)
    whole_write_only_without_range(ctx)


def whole_write_only_without_range(ctx, rule='range-dispatch'):
    """a Value write that names an index range must go through set_value_range (which rejects what it cannot apply): in
    Variable::set_value the whole-value path set_value_direct is taken only when the request's range is NumericRange::None -
    decided by the parameter itself or by a predicate that answers false only for None"""
    r, db = ctx.r, ctx.db
    b = db.body('server::address_space::variable::Variable::set_value')
    if b is None:
        r.lost(rule, 'Variable::set_value', 'not found'); return
    F = ctx.facts(b)
    ds = [c for c in b.calls() if c.callee.endswith('Variable::set_value_direct')]
    rs = [c for c in b.calls() if c.callee.endswith('Variable::set_value_range')]
    if not ds or not rs:
        r.lost(rule, 'calls', 'set_value_direct / set_value_range calls not found in Variable::set_value'); return
    ps = b.local_by_name('index_range')
    P = r'index_range\(_%d\)' % ps[0] if ps else r'index_range\(_\d+\)'
    for i, c in enumerate(ds):
        ok = None
        for l, e in F.literals_at(c.bb):
            t = fmt_lit(b, l)
            if re.match(r'^%s (is|eq) (NumericRange::)?None$' % P, t):
                ok = 'index_range is None'
            if l[0] == 'truth' and l[1][0] == 'call' and db.body(l[1][1]) is not None and [fmt_sym(b, a) for a in l[1][2]] == ['&' + (b.local_name(ps[0]) if ps else '')]:
                outs = bool_fn_outcomes(ctx, l[1][1], l[2])
                hb = db.body(l[1][1])
                if outs and all(any(re.match(r'^\(\*self\(_1\)\) (eq|is) (NumericRange::)?None$', fmt_lit(hb, x)) for x in conj) for conj in outs):
                    ok = '%s == %s, which it is only for NumericRange::None' % (fmt_sym(b, l[1])[:60], l[2])
        if ok:
            r.ok(rule, 'direct#%d' % i, 'the whole value is replaced only when no index range was given (%s)' % ok, loc=c.loc)
        else:
            r.fail(rule, 'direct#%d' % i, 'Variable::set_value replaces the whole value although the write may name an index range (guards: %s): a ranged write that must be '
                   'rejected or applied to part of the array overwrites everything' % [fmt_lit(b, l)[:60] for l, e in F.literals_at(c.bb)], loc=c.loc)
    for i, c in enumerate(rs):
        a = fmt_sym(b, F.sym_operand(c.args[2]))
        if re.match(r'^%s$' % P, a):
            r.ok(rule, 'range#%d' % i, 'set_value_range receives the request\'s index range', loc=c.loc)
        else:
            r.fail(rule, 'range#%d' % i, 'set_value_range is given %s, not the request\'s index range' % a[:60], loc=c.loc)
