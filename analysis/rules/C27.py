"""C27 Higher-priority subscriptions are served first (E6: comparator direction)."""
import re
from ..rulelib import *
from ..facts import fmt_sym


def _param_of(sym):
    """closure parameter local (2 = first, 3 = second) a compared operand is derived from, and its field path"""
    s = sym
    while isinstance(s, tuple) and s and s[0] in ('ref', 'deref', 'cast'):
        s = s[1]
    if isinstance(s, tuple) and s and s[0] == 'place':
        return s[1], tuple(t for t in s[2] if t != '*')
    if isinstance(s, tuple) and s and s[0] == 'call' and s[2]:
        # e.g. Reverse(..) or a getter on the parameter
        return _param_of(s[2][0])
    return None, ()


def run(ctx):
    r, db = ctx.r, ctx.db
    r.explanation = ('The order in which Subscriptions::tick visits subscriptions is decided by one sort call; the rule '
                     'reads the comparator closure MIR and requires that the receiver of Ord::cmp derives from the SECOND '
                     'closure parameter and the argument from the FIRST (descending), or an ascending sort followed by '
                     'rev()/reverse(), or a sort_by_key whose key is wrapped in Reverse; and that the compared tuple '
                     'field is the one filled from Subscription::priority().')
    r.rule_text = 'comparator argument provenance in the sort closure of Subscriptions::tick'
    rule = 'priority-descending'
    bs = db.find_bodies(r'^server::subscriptions::subscriptions::Subscriptions::tick$')
    if not bs:
        r.lost(rule, 'Subscriptions::tick', 'Subscriptions::tick not found'); return
    b = bs[0]
    F = ctx.facts(b)
    sorts = [c for c in b.calls() if re.search(r'::(sort_by|sort_unstable_by|sort_by_key|sort_unstable_by_key|sort_by_cached_key|sort|sort_unstable)$', c.callee)]
    r.count('sort_calls', len(sorts))
    if len(sorts) != 1:
        # no sort at all: visiting order is the BTreeMap key order (subscription id), not priority
        r.fail(rule, 'tick:sort', 'expected exactly one sort establishing the visiting order in Subscriptions::tick, found %d' % len(sorts), loc=b.loc)
        return
    sc = sorts[0]
    # which tuple field holds the priority?
    prio_field = None
    for cb in db.find_bodies(r'^server::subscriptions::subscriptions::Subscriptions::tick::\{closure#\d+\}$'):
        Fc = ctx.facts(cb)
        for bi, blk in enumerate(cb.blocks):
            for st in blk['s']:
                if st[0] == '=' and st[2][0] == 'agg' and st[2][1] == 'tuple':
                    for k, op in enumerate(st[2][4]):
                        sy = Fc.sym_operand(op)
                        if sy[0] == 'call' and sy[1].endswith('Subscription::priority'):
                            prio_field = '.%d' % k
    if prio_field is None:
        r.lost(rule, 'tick:priority-field', 'no tuple element filled from Subscription::priority() in the closures of tick'); return
    # the comparator closure
    reversed_after = any(re.search(r'::(rev|reverse)$', c.callee) and b.dominates(sc.bb, c.bb) for c in b.calls())
    name = sc.callee.rsplit('::', 1)[-1]
    direction = None; field = None; detail = ''
    if name in ('sort', 'sort_unstable'):
        direction = 'asc'; field = None
    else:
        clo = F.sym_operand(sc.args[-1])
        cpath = clo[2] if clo[0] == 'agg' else None
        cb = db.body(cpath) if cpath else None
        if cb is None:
            r.lost(rule, 'tick:comparator', 'comparator closure of the sort call not found'); return
        Fc = ctx.facts(cb)
        if name in ('sort_by', 'sort_unstable_by'):
            cmps = [c for c in cb.calls() if c.callee.endswith(('Ord::cmp', 'PartialOrd::partial_cmp'))]
            if len(cmps) != 1:
                r.lost(rule, 'tick:comparator-cmp', 'comparator closure does not consist of a single cmp call (%d found): direction undecidable' % len(cmps)); return
            a, bb_ = Fc.sym_operand(cmps[0].args[0]), Fc.sym_operand(cmps[0].args[1])
            pa, fa = _param_of(a); pb, fb = _param_of(bb_)
            detail = 'cmp(%s, %s)' % (fmt_sym(cb, a), fmt_sym(cb, bb_))
            if (pa, pb) == (2, 3):
                direction = 'asc'
            elif (pa, pb) == (3, 2):
                direction = 'desc'
            rev_after_cmp = any(c.callee.endswith('Ordering::reverse') for c in cb.calls())
            if rev_after_cmp and direction:
                direction = 'desc' if direction == 'asc' else 'asc'
            field = fa[-1] if fa and fa == fb else None
        else:
            # sort_by_key: descending iff the key is wrapped in Reverse
            wraps = any(st[0] == '=' and st[2][0] == 'agg' and st[2][2].endswith('cmp::Reverse') for blk in cb.blocks for st in blk['s'])
            direction = 'desc' if wraps else 'asc'
            for blk in cb.blocks:
                for st in blk['s']:
                    if st[0] == '=' and st[2][0] in ('use',) and st[2][1][0] in ('cp', 'mv'):
                        sy = Fc.sym_operand(st[2][1])
                        p_, f_ = _param_of(sy)
                        if p_ == 2 and f_:
                            field = f_[-1]
    if direction is None:
        r.lost(rule, 'tick:direction', 'comparator shape not recognised (%s): direction undecidable' % detail); return
    if reversed_after:
        direction = 'desc' if direction == 'asc' else 'asc'
    key = 'Subscriptions::tick:sort'
    if field is not None and field != prio_field:
        r.fail(rule, key + ':field', 'the sort compares tuple field %s but the priority is stored in %s' % (field, prio_field), detail=detail, loc=sc.loc)
    elif direction == 'desc':
        r.ok(rule, key, 'subscriptions are visited in descending priority (%s)' % detail, loc=sc.loc)
    else:
        r.fail(rule, key, 'subscriptions are sorted by ASCENDING priority and visited in that order: lowest priority is served first',
               detail=detail, loc=sc.loc)
    # the sorted order must be the one iterated: the for-loop consumes a collection derived from the sorted vec
    r.assumptions.append('Subscription::tick/publish order within one tick equals the iteration order of the sorted id list')
