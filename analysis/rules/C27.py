"""C27 Higher-priority subscriptions are served first (E6: comparator direction)."""
import re
from ..rulelib import *
from ..facts import fmt_sym


def _param_of(sym):
    """closure parameter local (2 = first, 3 = second) a compared operand is derived from, and its field path"""
    s = sym
    while isinstance(s, tuple) and s and s[0] in ('ref', 'deref', 'cast'):
        s = s[1]
    if isinstance(s, tuple) and s and s[0] == 'place':
        return s[1], tuple(t for t in s[2] if t != '*')
    if isinstance(s, tuple) and s and s[0] == 'call' and s[2]:
        # e.g. Reverse(..) or a getter on the parameter
        return _param_of(s[2][0])
    return None, ()


def run(ctx):
    r, db = ctx.r, ctx.db
    r.explanation = ('The order in which Subscriptions::tick visits subscriptions is decided by one sort call; the rule '
                     'reads the comparator closure MIR and requires that the receiver of Ord::cmp derives from the SECOND '
                     'closure parameter and the argument from the FIRST (descending), or an ascending sort followed by '
                     'rev()/reverse(), or a sort_by_key whose key is wrapped in Reverse; and that the compared tuple '
                     'field is the one filled from Subscription::priority().')
    r.rule_text = 'comparator argument provenance in the sort closure of Subscriptions::tick'
    rule = 'priority-descending'
    bs = db.find_bodies(r'^server::subscriptions::subscriptions::Subscriptions::tick$')
    if not bs:
        r.lost(rule, 'Subscriptions::tick', 'Subscriptions::tick not found'); return
    b = bs[0]
    F = ctx.facts(b)
    sorts = [c for c in b.calls() if re.search(r'::(sort_by|sort_unstable_by|sort_by_key|sort_unstable_by_key|sort_by_cached_key|sort|sort_unstable)$', c.callee)]
    r.count('sort_calls', len(sorts))
    if len(sorts) != 1:
        # no sort at all: visiting order is the BTreeMap key order (subscription id), not priority
        r.fail(rule, 'tick:sort', 'expected exactly one sort establishing the visiting order in Subscriptions::tick, found %d' % len(sorts), loc=b.loc)
        return
    sc = sorts[0]
    # which tuple field holds the priority?
    prio_field = None
    for cb in db.find_bodies(r'^server::subscriptions::subscriptions::Subscriptions::tick(::\{closure#\d+\})*$'):
        Fc = ctx.facts(cb)
        for bi, blk in enumerate(cb.blocks):
            for st in blk['s']:
                if st[0] == '=' and st[2][0] == 'agg' and st[2][1] == 'tuple':
                    for k, op in enumerate(st[2][4]):
                        sy = Fc.sym_operand(op)
                        if sy[0] == 'call' and sy[1].endswith('Subscription::priority'):
                            prio_field = '.%d' % k
    if prio_field is None:
        r.lost(rule, 'tick:priority-field', 'no tuple element filled from Subscription::priority() in the closures of tick'); return
    # the comparator closure
    reversed_after = any(re.search(r'::(rev|reverse)$', c.callee) and b.dominates(sc.bb, c.bb) for c in b.calls())
    name = sc.callee.rsplit('::', 1)[-1]
    direction = None; field = None; detail = ''
    if name in ('sort', 'sort_unstable'):
        direction = 'asc'; field = None
    else:
        clo = F.sym_operand(sc.args[-1])
        cpath = clo[2] if clo[0] == 'agg' else None
        cb = db.body(cpath) if cpath else None
        if cb is None:
            r.lost(rule, 'tick:comparator', 'comparator closure of the sort call not found'); return
        Fc = ctx.facts(cb)
        if name in ('sort_by', 'sort_unstable_by'):
            cmps = [c for c in cb.calls() if c.callee.endswith(('Ord::cmp', 'PartialOrd::partial_cmp'))]
            if len(cmps) != 1:
                r.lost(rule, 'tick:comparator-cmp', 'comparator closure does not consist of a single cmp call (%d found): direction undecidable' % len(cmps)); return
            a, bb_ = Fc.sym_operand(cmps[0].args[0]), Fc.sym_operand(cmps[0].args[1])
            pa, fa = _param_of(a); pb, fb = _param_of(bb_)
            detail = 'cmp(%s, %s)' % (fmt_sym(cb, a), fmt_sym(cb, bb_))
            if (pa, pb) == (2, 3):
                direction = 'asc'
            elif (pa, pb) == (3, 2):
                direction = 'desc'
            rev_after_cmp = any(c.callee.endswith('Ordering::reverse') for c in cb.calls())
            if rev_after_cmp and direction:
                direction = 'desc' if direction == 'asc' else 'asc'
            field = fa[-1] if fa and fa == fb else None
        else:
            # sort_by_key: descending iff the key is wrapped in Reverse
            wraps = any(st[0] == '=' and st[2][0] == 'agg' and st[2][2].endswith('cmp::Reverse') for blk in cb.blocks for st in blk['s'])
            direction = 'desc' if wraps else 'asc'
            for blk in cb.blocks:
                for st in blk['s']:
                    if st[0] == '=' and st[2][0] in ('use',) and st[2][1][0] in ('cp', 'mv'):
                        sy = Fc.sym_operand(st[2][1])
                        p_, f_ = _param_of(sy)
                        if p_ == 2 and f_:
                            field = f_[-1]
    if direction is None:
        r.lost(rule, 'tick:direction', 'comparator shape not recognised (%s): direction undecidable' % detail); return
    if reversed_after:
        direction = 'desc' if direction == 'asc' else 'asc'
    key = 'Subscriptions::tick:sort'
    if field is not None and field != prio_field:
        r.fail(rule, key + ':field', 'the sort compares tuple field %s but the priority is stored in %s' % (field, prio_field), detail=detail, loc=sc.loc)
    elif direction == 'desc':
        r.ok(rule, key, 'subscriptions are visited in descending priority (%s)' % detail, loc=sc.loc)
    else:
        r.fail(rule, key, 'subscriptions are sorted by ASCENDING priority and visited in that order: lowest priority is served first',
               detail=detail, loc=sc.loc)
    # the sorted order must be the one iterated: the for-loop consumes a collection derived from the sorted vec
    r.assumptions.append('Subscription::tick/publish order within one tick equals the iteration order of the sorted id list')
    priority_wiring(ctx)
    order_preserved(ctx)


def order_preserved(ctx):
    """the priority order exists where the (subscription, request, notification) pairs are queued; it reaches the wire only if the
    queues between there and the socket hand entries on oldest-first"""
    from .C21 import fifo_ends
    fifo_ends(ctx, ('transmission_queue', 'publish_response_queue'), rule='order-preserved')


def priority_wiring(ctx, rule='priority-wiring'):
    """the priority the sort reads is the one the client asked for: CreateSubscription passes request.priority to
    Subscription::new, ModifySubscription stores request.priority with set_priority on every path that answers with a
    ModifySubscriptionResponse, and set_priority / priority are plain accessors of the same field"""
    import re
    from ..facts import fmt_sym
    r, db = ctx.r, ctx.db
    S = 'server::services::subscription::SubscriptionService::'
    n = 0
    b = db.body(S + 'create_subscription')
    if b is None:
        r.lost(rule, 'create', 'create_subscription not found')
    else:
        F = ctx.facts(b)
        news = [c for c in b.calls() if c.callee.endswith('subscription::Subscription::new')]
        ok = any(any(re.match(r'^\(\*request\(_\d+\)\)\.priority$', fmt_sym(b, F.sym_operand(a))) for a in c.args) for c in news)
        n += 1
        if ok:
            r.ok(rule, 'create', 'Subscription::new receives request.priority', loc=news[0].loc)
        else:
            r.fail(rule, 'create', 'CreateSubscription does not pass request.priority to the new subscription', loc=b.loc)
    b = db.body(S + 'modify_subscription')
    if b is None:
        r.lost(rule, 'modify', 'modify_subscription not found')
    else:
        F = ctx.facts(b)
        sets = [c for c in b.calls() if c.callee.endswith('Subscription::set_priority') and len(c.args) == 2 and
                re.match(r'^\(\*request\(_\d+\)\)\.priority$', fmt_sym(b, F.sym_operand(c.args[1])))]
        resp = [(bi, si) for bi, blk in enumerate(b.blocks) if not blk['c'] for si, st in enumerate(blk['s'])
                if st[0] == '=' and st[2][0] == 'agg' and str(st[2][2]).endswith('ModifySubscriptionResponse')]
        n += 1
        if not resp:
            r.lost(rule, 'modify:response', 'ModifySubscriptionResponse construction not found')
        elif len(sets) == 1 and all(b.dominates(sets[0].bb, bi) for bi, si in resp):
            r.ok(rule, 'modify', 'set_priority(request.priority) dominates the ModifySubscriptionResponse', loc=sets[0].loc)
        else:
            r.fail(rule, 'modify', 'a ModifySubscriptionResponse can be sent without the requested priority having been stored (set_priority is conditional or missing): '
                   'the publish order keeps following the old priority', loc=b.loc)
    sp = db.body('server::subscriptions::subscription::Subscription::set_priority')
    if sp is not None:
        n += 1
        Fs = ctx.facts(sp)
        wr = [st for blk in sp.blocks for st in blk['s'] if st[0] == '=' and st[1][1] and st[1][1][-1] == '.priority' and st[2][0] == 'use' and
              Fs.sym_operand(st[2][1]) == ('place', 2, ())]
        if wr and len(sp.blocks) <= 2:
            r.ok(rule, 'set_priority', 'set_priority stores its argument in Subscription.priority', loc=sp.loc)
        else:
            r.fail(rule, 'set_priority', 'Subscription::set_priority is not a plain store of its argument into .priority', loc=sp.loc)
    r.count('priority_wiring_sites', n)
    r.floor(rule, 'priority_wiring_sites', n, 3)
