"""C37 Reconnect back-off never overflows (E1 on the back-off iterator and retry policy)."""
from ..panics import run_e1

ENTRY = r'^<client::retry::ExponentialBackoff as std::iter::Iterator>::next$|^client::retry::(ExponentialBackoff|SessionRetryPolicy)::'


def run(ctx):
    r = ctx.r
    r.explanation = ('No-panic clause only: every overflow assert and panicking call (Duration arithmetic included) reachable from '
                     'ExponentialBackoff::next and the SessionRetryPolicy constructors is discharged or dispositioned. The sequence of '
                     'sleep values itself is not decided.')
    r.rule_text = 'E1 panic-site inventory over client::retry'
    run_e1(ctx, ENTRY)
    r.floor('E1-panic', 'reachable_bodies', r.counts.get('reachable_bodies', 0), 5)
