"""C37 Reconnect back-off never overflows (E1 on the back-off iterator and retry policy)."""
from ..panics import run_e1

ENTRY = r'^<client::retry::ExponentialBackoff as std::iter::Iterator>::next$|^client::retry::(ExponentialBackoff|SessionRetryPolicy)::'


def run(ctx):
    r = ctx.r
    r.explanation = ('No-panic clause only: every overflow assert and panicking call (Duration arithmetic included) reachable from '
                     'ExponentialBackoff::next and the SessionRetryPolicy constructors is discharged or dispositioned. The sequence of '
                     'sleep values itself is not decided.')
    r.rule_text = 'E1 panic-site inventory over client::retry'
    run_e1(ctx, ENTRY)
    r.floor('E1-panic', 'reachable_bodies', r.counts.get('reachable_bodies', 0), 5)
    backoff_formula(ctx)


def backoff_formula(ctx, rule='backoff-formula'):
    """the recurrence of ExponentialBackoff::next read from MIR: yields the current delay, then
    current := min(max_sleep, current.saturating_mul(2)) on the Duration itself (no unit conversion), counts with a saturating
    increment, and stops exactly when max_retries is Some(max) with max <= retry_count"""
    import re
    from ..facts import fmt_sym, fmt_lit
    r, db = ctx.r, ctx.db
    bs = db.find_bodies(r'ExponentialBackoff as std::iter::Iterator>::next$')
    if not bs:
        r.lost(rule, 'next', 'ExponentialBackoff::next not found'); return
    b = bs[0]; F = ctx.facts(b)
    writes = {}
    for bi, blk in enumerate(b.blocks):
        if blk['c']:
            continue
        for st in blk['s']:
            if st[0] == '=' and st[1][0] == 1 and st[1][1] and st[1][1][0] == '*':
                writes.setdefault(st[1][1][-1], []).append(fmt_sym(b, F.sym_rvalue(st[2], 0, bi)))
        t = blk['t']
        if t[0] == 'call' and t[3][0] == 1 and t[3][1] and t[3][1][0] == '*':
            c = [c for c in b.calls() if c.bb == bi][0]
            writes.setdefault(t[3][1][-1], []).append(fmt_sym(b, F.sym_call(c)))
    S = r'\(\*self\(_1\)\)'
    probs = []
    cs = writes.get('.current_sleep', [])
    okc = len(cs) == 1 and (re.match(r'^Ord::min\(%s\.max_sleep, Duration::saturating_mul\(%s\.current_sleep, 2\)\)$' % (S, S), cs[0]) or
                            re.match(r'^Ord::min\(Duration::saturating_mul\(%s\.current_sleep, 2\), %s\.max_sleep\)$' % (S, S), cs[0]))
    if not okc:
        probs.append('current_sleep := %s, not min(max_sleep, current_sleep.saturating_mul(2))' % (cs or ['(no write)'])[0][:110])
    rc = writes.get('.retry_count', [])
    if not (len(rc) == 1 and re.match(r'^num::saturating_add\(%s\.retry_count, 1\)$' % S, rc[0])):
        probs.append('retry_count := %s, not retry_count.saturating_add(1)' % (rc or ['(no write)'])[0][:80])
    extra = sorted(k for k in writes if k not in ('.current_sleep', '.retry_count'))
    if extra:
        probs.append('also writes %s' % extra)
    rets = [fmt_sym(b, F.sym_rvalue(d[3], 0, d[1])) for d in b.defs().get(0, []) if d[0] == 'stmt']
    SOME = ('Option::Some{Clone::clone(&(*self(_1)).current_sleep)}', 'Option::Some{(*self(_1)).current_sleep}')   # Duration is Copy
    if not (len(rets) == 2 and 'Option::None' in rets and any(x in SOME for x in rets)):
        probs.append('yields %s, not None / Some(current_sleep)' % rets)
    # Some(current) is built from the value read before the update
    wsite = [(bi, si) for bi, blk in enumerate(b.blocks) if not blk['c'] for si, st in enumerate(blk['s'])
             if st[0] == '=' and st[1][0] == 1 and st[1][1] and st[1][1][-1] == '.current_sleep']
    wsite += [(bi, len(blk['s'])) for bi, blk in enumerate(b.blocks) if not blk['c'] and blk['t'][0] == 'call' and blk['t'][3][0] == 1 and blk['t'][3][1] and blk['t'][3][1][-1] == '.current_sleep']
    def read_site(local, depth=0):
        """where the value that ends up in `local` was read from self.current_sleep"""
        ds = b.defs().get(local, [])
        if len(ds) != 1 or depth > 6:
            return None
        d = ds[0]
        if d[0] == 'call':
            if d[2].callee.endswith('Clone::clone') and 'current_sleep' in fmt_sym(b, F.sym_operand(d[2].args[0])):
                return (d[1], len(b.stmts(d[1])))
            return None
        rv = d[3]
        if rv[0] == 'use' and rv[1][0] in ('cp', 'mv'):
            pl = rv[1][1]
            if pl[0] == 1 and pl[1] and pl[1][-1] == '.current_sleep':
                return (d[1], d[2])
            if not pl[1]:
                return read_site(pl[0], depth + 1)
        return None
    for d in b.defs().get(0, []):
        if d[0] == 'stmt' and d[3][0] == 'agg' and d[3][3] == 'Some':
            op = d[3][4][0]
            rs = read_site(op[1][0]) if op[0] in ('cp', 'mv') and not op[1][1] else None
            if rs is None or not wsite or not all((rs[0] == w[0] and rs[1] < w[1]) or (rs[0] != w[0] and b.dominates(rs[0], w[0])) for w in wsite):
                probs.append('the delay handed out is not read from current_sleep before current_sleep is doubled')
    # stop condition: None exactly under "max_retries is Some(max) and max <= retry_count"
    closure_form = False
    for d in b.defs().get(0, []):
        if d[0] == 'stmt' and fmt_sym(b, F.sym_rvalue(d[3], 0, d[1])) == 'Option::None':
            raw = F.literals_at(d[1], d[2])
            lits = [fmt_lit(b, l) for l, e in raw]
            if any(re.search(r'is_some_and\(%s\.max_retries, .*\) == True$' % S, x) for x in lits):
                closure_form = True
                continue
            some = any(re.match(r'^%s\.max_retries is Some$' % S, x) for x in lits)
            RC, MX = r'%s\.retry_count' % S, r'%s\.max_retries@Some\.0' % S
            cmp_ok = any(re.match(r'^%s ge %s$' % (RC, MX), x) or re.match(r'^%s le %s$' % (MX, RC), x) for x in lits)
            if not (some and cmp_ok):
                probs.append('None is returned under [%s], not under "max_retries is Some(max) and max <= retry_count"' % ', '.join(lits))
    if probs:
        r.fail(rule, 'ExponentialBackoff::next', 'the back-off recurrence is not "yield current; current = min(max, 2 * current)": ' + '; '.join(probs[:3]), loc=b.loc)
    else:
        r.ok(rule, 'ExponentialBackoff::next', 'yields current_sleep, then current_sleep = min(max_sleep, current_sleep.saturating_mul(2)); retry_count saturating; None only when the limit is reached', loc=b.loc)
    # the limit test: max <= retry_count
    cl = db.find_bodies(r'ExponentialBackoff as std::iter::Iterator>::next(::\{closure#\d+\})+$')
    if not closure_form:
        if not probs:
            r.ok(rule, 'limit-test', 'stops when max <= retry_count (tested inline)', loc=b.loc)
    elif cl:
        Fc = ctx.facts(cl[0])
        ds = cl[0].defs().get(0, [])
        t = fmt_sym(cl[0], Fc.sym_rvalue(ds[0][3], 0, ds[0][1])) if len(ds) == 1 and ds[0][0] == 'stmt' else ''
        # `limit <= retry_count` in either spelling; the closure parameter (the limit) is _2, whatever it is called
        if re.match(r'^\(\w+\(_2\) Le .*retry_count(\(_[\d.]+\))?\)$', t) or re.match(r'^\(.*retry_count(\(_[\d.]+\))? Ge \w+\(_2\)\)$', t):
            r.ok(rule, 'limit-test', 'stops when max <= retry_count', loc=cl[0].loc)
        else:
            r.fail(rule, 'limit-test', 'the retry limit test is %s, not max <= retry_count: the policy yields one delay too many or too few' % t[:80], loc=cl[0].loc)
    else:
        r.lost(rule, 'limit-test', 'limit closure not found')
