"""C41 Saved configurations load back unchanged - I/O wiring and derive symmetry (E2 + E6)."""
import re
from ..rulelib import *
from ..facts import fmt_sym, fmt_lit

CFG = r'^(client::config|server::config|core::config)::'
# fields that are deliberately neither written nor read; anything else that is not serialised is reported
SKIPPED_OK = {
    'server::config::ServerUserToken.thumbprint': 'runtime cache derived from the x509 path by read_thumbprint() after loading; None in every configuration a user writes or the builders produce',
}


def run(ctx):
    r, db = ctx.r, ctx.db
    r.explanation = ('Structural clauses only. (save) Config::save answers Ok only after write_all - the complete write - of '
                     'serde_yaml::to_string(self) succeeded, and only for a configuration that is_valid. (load) Config::load answers the '
                     'serde_yaml::from_str of the string read_to_string filled from the file, Err otherwise. (derive symmetry) for every '
                     'struct of the configuration modules that derives both Serialize and Deserialize, the keys the serializer writes are '
                     'the keys the field visitor recognises, a key the serializer may skip belongs to an Option field (which the '
                     'deserializer fills with None), and every field that is not written at all is listed with a reason. What serde_yaml '
                     'does with the values themselves (quoting, special characters, number formats) is not decided.')
    r.rule_text = 'E2 guard dominance / argument provenance in Config::save and load; E6 key tables of the derived serde impls read from MIR'
    # ---------------------------------------------------------------- save
    rule = 'save-wiring'
    b = db.body('core::config::Config::save')
    if b is None:
        r.lost(rule, 'save', 'Config::save not found')
    else:
        F = ctx.facts(b)
        oks = result_ctor_sites(b, 'Ok')
        wr = [c for c in b.calls() if re.search(r'io::Write::(write_all|write)$', c.callee)]
        if not oks or not wr:
            r.lost(rule, 'save:sites', 'Ok(..) / write call not found in Config::save')
        else:
            w = wr[0]
            arg = fmt_sym(b, F.sym_operand(w.args[1]))
            if not w.callee.endswith('write_all'):
                r.fail(rule, 'save:complete-write', 'the configuration is written with %s, which may write only a prefix' % w.callee.rsplit('::', 1)[-1], loc=w.loc)
            elif not re.search(r'serde_yaml::to_string\(&self\(_1\)\)', arg):
                r.fail(rule, 'save:complete-write', 'what is written is %s, not serde_yaml::to_string(self)' % arg[:80], loc=w.loc)
            else:
                r.ok(rule, 'save:complete-write', 'write_all(serde_yaml::to_string(self))', loc=w.loc)
            for i, (bb, si, pl) in enumerate(oks):
                lits = [fmt_lit(b, l) for l, e in F.literals_at(bb, si)]
                okw = any(re.search(r'write_all\(.*\)\) == True$|write_all\(.*\) is Ok$', x) for x in lits)
                okv = any(re.match(r'^Config::is_valid\(&\(\*self\(_1\)\)\) == True$', x) for x in lits)
                if okw and okv:
                    r.ok(rule, 'save:Ok#%d' % i, 'Ok(()) only after is_valid and a successful write_all', loc=b.loc)
                else:
                    r.fail(rule, 'save:Ok#%d' % i, 'Config::save can answer Ok without %s' % ('a successful write' if not okw else 'the is_valid gate'), loc=b.loc)
    # ---------------------------------------------------------------- load
    rule = 'load-wiring'
    b = db.body('core::config::Config::load')
    if b is None:
        r.lost(rule, 'load', 'Config::load not found')
    else:
        F = ctx.facts(b)
        fs = [c for c in b.calls() if c.callee.endswith('serde_yaml::from_str')]
        rd = [c for c in b.calls() if re.search(r'io::Read::read_to_(string|end)$', c.callee)]
        if len(fs) != 1 or len(rd) != 1:
            r.lost(rule, 'load:sites', 'expected one read_to_string and one serde_yaml::from_str in Config::load')
        else:
            buf = fmt_sym(b, F.sym_operand(rd[0].args[1])); src = fmt_sym(b, F.sym_operand(fs[0].args[0]))
            lits = [fmt_lit(b, l) for l, e in F.literals_at(fs[0].bb)]
            same = buf == src
            after = any(re.search(r'read_to_string\(.*\)\) == True$|read_to_string\(.*\) is Ok$', x) for x in lits) and b.dominates(rd[0].bb, fs[0].bb)
            if same and after:
                r.ok(rule, 'load:source', 'from_str parses the buffer read_to_string filled, after that call succeeded', loc=fs[0].loc)
            else:
                r.fail(rule, 'load:source', 'Config::load does not parse the complete content of the file (buffer %s, parsed %s, after a successful read: %s)' % (buf, src, after), loc=fs[0].loc)
            ret = [d for d in b.defs().get(0, [])]
            from_parse = any(d[0] == 'call' and d[2].callee.endswith('Result::map_err') and 'from_str' in fmt_sym(b, F.sym_operand(d[2].args[0])) for d in ret)
            if from_parse:
                r.ok(rule, 'load:result', 'the success result is the value serde_yaml::from_str produced', loc=b.loc)
            else:
                r.fail(rule, 'load:result', 'the result of Config::load is not the value parsed from the file', loc=b.loc)
    # ---------------------------------------------------------------- derive symmetry
    rule = 'derive-symmetry'
    nstruct = 0
    sers = db.find_bodies(r'^(client|server|core)::config::_::<impl .*_serde::Serialize for ((client|server|core)::config::\w+)>::serialize$')
    for sb in sorted(sers, key=lambda x: x.path):
        m = re.search(r'Serialize for ((?:client|server|core)::config::\w+)>::serialize$', sb.path)
        ty = m.group(1); short = ty.rsplit('::', 1)[-1]
        adt = db.adts.get(ty)
        if not adt or adt['kind'] != 'struct':
            continue
        vis = db.find_bodies(re.escape(ty) + r">::deserialize::__FieldVisitor as .*Visitor<'de>>::visit_str$")
        if not vis:
            continue   # Serialize only
        nstruct += 1
        Fs = ctx.facts(sb)
        written = {}; skipped = set()
        for c in sb.calls():
            if c.callee.endswith('SerializeStruct::serialize_field') and len(c.args) == 3:
                k = Fs.sym_operand(c.args[1])
                f = fmt_sym(sb, Fs.sym_operand(c.args[2]))
                mm = re.search(r'\(\*self\(_1\)\)\.(\w+)$', f)
                if k[0] == 'k':
                    written[k[1].strip('"')] = mm.group(1) if mm else None
            elif c.callee.endswith('SerializeStruct::skip_field') and len(c.args) == 2:
                k = Fs.sym_operand(c.args[1])
                if k[0] == 'k':
                    skipped.add(k[1].strip('"'))
        Fv = ctx.facts(vis[0])
        read = set()
        for c in vis[0].calls():
            if c.callee.endswith('PartialEq::eq') and len(c.args) == 2:
                k = Fv.sym_operand(c.args[1])
                if k[0] == 'k' and k[1].startswith('"'):
                    read.add(k[1].strip('"'))
        fields = {f[0]: f[1] for f in adt['variants'][0]['fields']}
        probs = []
        if set(written) != read:
            probs.append('keys written %s, keys read %s' % (sorted(set(written) - read), sorted(read - set(written))))
        for k in sorted(skipped):
            fld = written.get(k)
            t = fields.get(fld or k, '')
            if not t.startswith('std::option::Option<'):
                probs.append('key `%s` may be omitted when saving but field %s of type %s is required when loading' % (k, fld or k, t[:40]))
        unser = [f for f in fields if f not in set(written.values())]
        for f in unser:
            if '%s.%s' % (ty, f) not in SKIPPED_OK:
                probs.append('field `%s` is never written: a loaded configuration cannot equal the saved one when it is set' % f)
        if probs:
            r.fail(rule, short, 'derived serde impls of %s are not symmetric: %s' % (short, '; '.join(probs[:3])), loc=sb.loc)
        else:
            note = ''
            if unser:
                note = ' (not serialised by design: %s)' % ', '.join(unser)
            r.ok(rule, short, '%s: %d keys written = keys read; %d skippable keys are Option fields%s' % (short, len(written), len(skipped), note),
                 status='safe' if unser else 'auto', loc=sb.loc)
    r.count('config_structs', nstruct)
    r.floor(rule, 'config_structs', nstruct, 8)
