"""C12 Sequence numbers increase by one per chunk and replays are rejected (E2)."""
import re
from ..rulelib import *
from ..facts import fmt_sym, fmt_lit


def loops(body):
    """[(header, latch)] natural loops: back edges latch -> header where header dominates latch"""
    out = []
    for bi in range(len(body.blocks)):
        if body.is_cleanup(bi):
            continue
        for s in body.succ(bi):
            if body.dominates(s, bi):
                out.append((s, bi))
    return out


def run(ctx):
    r, db = ctx.r, ctx.db
    r.explanation = ('Receivers (server TcpTransport and client TransportState): Chunker::decode is dominated by the success edge of '
                     'Chunker::validate_chunks, whose first argument is last_received_sequence_number + 1, and the stored number is only '
                     'updated from that successful result. validate_chunks: the Ok result is dominated by first >= starting (a replay '
                     'starts below), and inside its loop the channel-id, sequence-number and request-id comparisons are evaluated on '
                     'every iteration (the loop latch is unreachable from the loop body entry without them, except the id==0 and i==0 '
                     'escapes) and their mismatch edges cannot reach Ok. Senders: Chunker::encode gets last_sent + 1 and last_sent is '
                     'advanced by chunks.len() only after encode succeeded. Wrap-around arithmetic is not decided.')
    r.rule_text = 'E2 guard dominance, argument provenance and loop must-pass-through over MIR'
    # ---------------- receivers
    rule = 'receiver-validates'
    for pat in (r'^server::comms::tcp_transport::TcpTransport::turn_received_chunks_into_message$',
                r'^client::transport::core::TransportState::turn_received_chunks_into_message$'):
        bs = db.find_bodies(pat)
        side = pat.split('::')[0].lstrip('^')
        if not bs:
            r.lost(rule, side, 'turn_received_chunks_into_message not found (%s)' % side); continue
        b = bs[0]; F = ctx.facts(b)
        dec = [c for c in b.calls() if c.callee.endswith('Chunker::decode')]
        val = [c for c in b.calls() if c.callee.endswith('Chunker::validate_chunks')]
        if len(dec) != 1 or len(val) != 1:
            r.lost(rule, side + ':calls', 'expected one validate_chunks and one decode call'); continue
        lits = F.literals_at(dec[0].bb)
        if any(l[0] == 'try' and l[2] and l[1][0] == 'call' and l[1][1].endswith('Chunker::validate_chunks') for l, e in lits):
            r.ok(rule, side + ':decode-after-validate', 'chunks are decoded only after validate_chunks succeeded', loc=dec[0].loc)
        else:
            r.fail(rule, side + ':decode-after-validate', 'chunks are decoded without validate_chunks having succeeded', loc=dec[0].loc)
        a0 = F.sym_operand(val[0].args[0]); txt = fmt_sym(b, a0)
        plus1 = 'last_received_sequence_number' in txt and re.search(r'(wrapping_add|checked_add|saturating_add|Add)', txt) and re.search(r'[ ,(]1\)?', txt)
        if plus1 and not re.search(r'[ ,(]0\)', txt):
            r.ok(rule, side + ':start', 'expected first sequence number is last_received_sequence_number + 1', detail=txt, loc=val[0].loc)
        else:
            r.fail(rule, side + ':start', 'validate_chunks is not started at last_received_sequence_number + 1', detail=txt, loc=val[0].loc)
        asg = [(bi, si, st) for bi, blk in enumerate(b.blocks) if not blk['c'] for si, st in enumerate(blk['s'])
               if st[0] == '=' and st[1][1] and st[1][1][-1] == '.last_received_sequence_number']
        if not asg:
            r.fail(rule, side + ':update', 'last_received_sequence_number is never updated after a message was accepted (every replay would pass)', loc=b.loc)
        for bi, si, st in asg:
            v = fmt_sym(b, F.sym_rvalue(st[2], 0))
            if 'validate_chunks' in v and '@Continue' in v:
                r.ok(rule, side + ':update', 'last_received_sequence_number is assigned the successful result of validate_chunks', loc=b.loc)
            else:
                r.fail(rule, side + ':update', 'last_received_sequence_number is assigned something other than the validated last number', detail=v[:160], loc=b.loc)
    # ---------------- validate_chunks
    rule = 'validate-chunks-total'
    bs = db.find_bodies(r'^core::comms::chunker::Chunker::validate_chunks$')
    if not bs:
        r.lost(rule, 'validate_chunks', 'Chunker::validate_chunks not found')
    else:
        b = bs[0]; F = ctx.facts(b)
        oks = result_ctor_sites(b, 'Ok')
        if len(oks) != 1:
            r.lost(rule, 'validate_chunks:Ok', 'expected one Ok construction, found %d' % len(oks))
        else:
            okb = oks[0][0]
            lits = F.literals_at(okb, oks[0][1])
            start = b.local_by_name('starting_sequence_number')
            ge = [l for l, e in lits if l[0] == 'cmp' and ((l[1] in ('ge', 'gt') and 'starting_sequence_number' in fmt_sym(b, l[3]) and 'sequence_number' in fmt_sym(b, l[2])
                                                          and 'starting_sequence_number' not in fmt_sym(b, l[2])) or
                                                         (l[1] in ('le', 'lt') and 'starting_sequence_number' in fmt_sym(b, l[2]) and 'sequence_number' in fmt_sym(b, l[3])
                                                          and 'starting_sequence_number' not in fmt_sym(b, l[3])))]
            # what is handed back becomes the receiver's last_received_sequence_number: it must be the number of the last chunk
            # accepted (first chunk's own sequence number + count - 1), not a function of the expected start
            val = fmt_sym(b, F.sym_operand(b.stmts(okb)[oks[0][1]][2][4][0]))
            FIRST = r'Try::branch\(MessageChunk::chunk_info\(&\*?(?:Try::branch\(Option::ok_or\(slice::first\(&\(\*chunks\(_\d+\)\)\), [^)]*\)\)@Continue\.0|.*chunks\(_\d+\)\)?\[(?:0|_\d+)\]), &\(\*secure_channel\(_\d+\)\)\)\)@Continue\.0\.sequence_header\.sequence_number'
            LEN = r'\(len\(\(\*chunks\(_\d+\)\)\) as u32\)'
            if re.match(r'^num::wrapping_sub\(num::wrapping_add\(%s, %s\), 1\)$' % (FIRST, LEN), val) or re.match(r'^num::wrapping_add\(%s, num::wrapping_sub\(%s, 1\)\)$' % (FIRST, LEN), val) \
                    or re.match(r'^num::wrapping_add\(%s, \(%s Sub(WithOverflow)? 1\)(\.0)?\)$' % (FIRST, LEN), val):
                r.ok(rule, 'validate_chunks:last-accepted', 'the value handed back is first chunk sequence number + count - 1', loc=b.loc)
            else:
                r.fail(rule, 'validate_chunks:last-accepted', 'validate_chunks hands back %s, not the sequence number of the last chunk it accepted: the receiver\'s high-water mark stays '
                       'behind after a gap and a replay of the accepted message is accepted again' % val[:160], loc=b.loc)
            if ge:
                r.ok(rule, 'validate_chunks:not-below-start', 'Ok only when `%s`' % fmt_lit(b, ge[0])[:140], loc=b.loc)
            else:
                r.fail(rule, 'validate_chunks:not-below-start', 'validate_chunks can succeed for a first sequence number below the expected start (replay accepted)', loc=b.loc)
            lp = loops(b)
            if len(lp) != 1:
                r.lost(rule, 'validate_chunks:loop', 'expected exactly one loop, found %d' % len(lp))
            else:
                H, L = lp[0]
                body_entries = [s for s in b.succ(H) if b.dominates(s, L) or s == L]
                # the loop body entry: the successor of the header chain that leads to the latch
                def cmp_edges(field_rx, other_rx):
                    res = []
                    for src, dst, lab, ls in all_switch_edges(F):
                        for l in ls:
                            if l[0] == 'cmp' and l[1] in ('eq', 'ne'):
                                t = fmt_lit(b, l)
                                if re.search(field_rx, t) and re.search(other_rx, t):
                                    res.append((src, dst, l))
                    return res
                checks = (('channel-id', r'message_header\.secure_channel_id', r'SecureChannel::secure_channel_id', r'SecureChannel::secure_channel_id\(.*\) eq 0$'),
                          ('sequence-number', r'sequence_header\.sequence_number', r'(wrapping_add|Add)', None),
                          ('request-id', r'sequence_header\.request_id', r'expected_request_id', r'^\(?.*\.0 eq 0$|^i.* eq 0$|\.0 eq 0$'))
                for name, frx, orx, escape_rx in checks:
                    es = cmp_edges(frx, orx)
                    key = 'validate_chunks:' + name
                    if not es:
                        r.fail(rule, key, 'the %s of each chunk is not compared inside validate_chunks' % name, loc=b.loc); continue
                    S = {e[0] for e in es}
                    mismatch = [e for e in es if e[2][1] == 'ne']
                    match = [e for e in es if e[2][1] == 'eq']
                    bad_reach = [e for e in mismatch if okb in b.reachable_blocks(e[1], stop={H})] 
                    esc = []
                    if escape_rx:
                        esc = edges_where(F, lambda l: l[0] == 'cmp' and re.search(escape_rx, fmt_lit(b, l)) is not None)
                    cut = frozenset((s_, d_) for s_, d_, _ in esc)
                    # every iteration evaluates the comparison: latch unreachable from the header's body successor without S
                    reach = set()
                    for ent in b.succ(H):
                        reach |= b.reachable_blocks(ent, removed_edge=cut, stop=S | {H})
                    every_iter = L not in reach or L in S
                    if bad_reach:
                        r.fail(rule, key, 'a %s mismatch does not reject the message (Ok reachable from the mismatch edge within the iteration)' % name, loc=b.loc)
                    elif not every_iter:
                        r.fail(rule, key, 'the %s comparison can be skipped for a chunk (loop latch reachable without it)' % name, loc=b.loc)
                    else:
                        r.ok(rule, key, '%s compared for every chunk; mismatch leads to Err' % name, detail=fmt_lit(b, es[0][2])[:160], loc=b.loc)
    # ---------------- senders
    rule = 'sender-consecutive'
    for pat in (r'^core::comms::message_writer::MessageWriter::write$', r'^client::transport::buffer::SendBuffer::write$'):
        bs = db.find_bodies(pat)
        side = pat.split('::')[-2]
        if not bs:
            r.lost(rule, side, pat + ' not found'); continue
        b = bs[0]; F = ctx.facts(b)
        enc = [c for c in b.calls() if c.callee.endswith('Chunker::encode')]
        if len(enc) != 1:
            r.lost(rule, side + ':encode', 'expected one Chunker::encode call'); continue
        txt = fmt_sym(b, F.sym_operand(enc[0].args[0]))
        if 'last_sent_sequence_number' in txt and re.search(r'(AddWithOverflow|wrapping_add|Add) 1\b|, 1\)', txt):
            r.ok(rule, side + ':first', 'first chunk gets last_sent_sequence_number + 1', detail=txt, loc=enc[0].loc)
        else:
            r.fail(rule, side + ':first', 'the first sequence number of a message is not last_sent_sequence_number + 1', detail=txt, loc=enc[0].loc)
        asg = [(bi, si, st) for bi, blk in enumerate(b.blocks) if not blk['c'] for si, st in enumerate(blk['s'])
               if st[0] == '=' and st[1][1] and st[1][1][-1] == '.last_sent_sequence_number']
        if not asg:
            r.fail(rule, side + ':advance', 'last_sent_sequence_number is never advanced', loc=b.loc)
        for bi, si, st in asg:
            v = fmt_sym(b, F.sym_rvalue(st[2], 0))
            lits = F.literals_at(bi, si)
            ok_edge = any(l[0] == 'try' and l[2] and l[1][0] == 'call' and l[1][1].endswith('Chunker::encode') for l, e in lits)
            by_len = 'last_sent_sequence_number' in v and 'len(' in v and 'Chunker::encode' in v
            if ok_edge and by_len:
                r.ok(rule, side + ':advance', 'advanced by the number of chunks produced, only after encode succeeded', loc=b.loc)
            else:
                r.fail(rule, side + ':advance', 'last_sent_sequence_number is not advanced by chunks.len() on the encode-success path', detail=v[:200], loc=b.loc)
    r.floor('C12', 'obligations', len(r.obls), 14)
