"""C05 Relative path strings: parsing never panics (E1 half only)."""
from ..panics import run_e1

ENTRY = (r'^types::relative_path::<impl types::service_types::relative_path::RelativePath>::from_str$'
         r'|^types::relative_path::<impl types::service_types::relative_path_element::RelativePathElement>::(from_str|default_node_resolver|relative_path_reference_type)$'
         r'|^types::relative_path::(target_name|unescape_browse_name|escape_browse_name)$'
         r'|^types::relative_path::<impl std::convert::From<&.a types::service_types::relative_path(_element)?::RelativePath(Element)?> for std::string::String>::from$')


def run(ctx):
    r = ctx.r
    r.explanation = ('No-panic half only: every panic site reachable from RelativePath::from_str, RelativePathElement::from_str and the '
                     'browse-name helpers is discharged by a guard or a reviewed disposition (captures of groups that are not optional in '
                     'the constant regular expression; the flag characters the expression admits). The printer (String::from(&RelativePath)) is '
                     'included in the inventory: its unwrap of the browse-name resolver is a listed known finding. Equality of the text round '
                     'trip is not decided, except one structural clause: the notation tables of printer and parser (shorthands and flags) agree.')
    r.rule_text = 'E1 panic-site inventory over the relative path parser'
    run_e1(ctx, ENTRY)
    flag_tables(ctx)
    regex_arms_agree(ctx)
    escape_automaton(ctx)
    r.floor('flag-table-agreement', 'notation_tokens', r.counts.get('notation_tokens', 0), 10)
    r.floor('E1-panic', 'reachable_bodies', r.counts.get('reachable_bodies', 0), 8)


def flag_tables(ctx, rule='flag-table-agreement'):
    """the printer's choice of '/', '.', '#', '!' and the parser's reading of them must describe the same
    (reference type, include_subtypes, is_inverse) triples - read from the push sites of the printer and the tuple
    constructions of the parser, with the conditions that dominate them"""
    import re
    from ..facts import fmt_lit, fmt_sym
    r, db = ctx.r, ctx.db
    pb = db.find_bodies(r'RelativePathElement>::relative_path_reference_type$')
    qb = db.find_bodies(r'RelativePathElement>::from_str$')
    if not pb or not qb:
        r.lost(rule, 'functions', 'printer / parser of RelativePathElement not found'); return
    pb, qb = pb[0], qb[0]
    Fp, Fq = ctx.facts(pb), ctx.facts(qb)
    # ---- printer: char -> conditions
    printer = {}
    for c in pb.calls():
        if c.callee.endswith('String::push') and len(c.args) == 2:
            ch = Fp.sym_operand(c.args[1])
            if ch[0] != 'k' or ch[2] != 'char':
                continue
            cond = {}
            for l, e in Fp.literals_at(c.bb):
                t = fmt_lit(pb, l)
                m = re.match(r'^\(\*self\(_1\)\)\.(include_subtypes|is_inverse) == (True|False)$', t)
                if m:
                    cond[m.group(1)] = m.group(2) == 'True'
                m = re.match(r'^\(\*self\(_1\)\)\.reference_type_id eq Into::into\(ReferenceTypeId::(\w+)\)$', t)
                if m:
                    cond['reftype'] = m.group(1)
            printer[chr(int(ch[1]))] = cond
    # ---- parser: token -> (reftype?, include_subtypes, is_inverse)
    parser = {}
    for bi, blk in enumerate(qb.blocks):
        if blk['c']:
            continue
        for si, st in enumerate(blk['s']):
            if st[0] == '=' and st[2][0] == 'agg' and st[2][1] == 'tuple' and len(st[2][4]) in (2, 3):
                ops = [Fq.sym_operand(o) for o in st[2][4]]
                bools = [o for o in ops if o[0] == 'k' and o[2] == 'bool']
                if len(bools) != 2:
                    continue
                vals = tuple(b_[1] in ('1', 'true') for b_ in bools)
                ref = None
                if len(ops) == 3:
                    m = re.search(r'ReferenceTypeId::(\w+)', fmt_sym(qb, ops[0]))
                    ref = m.group(1) if m else None
                tok = None
                for l, e in Fq.literals_at(bi, si):
                    t = fmt_lit(qb, l)
                    m = re.search(r'"(reftype|flags)"\)+(@Some\.0)? eq "([^"]*)"$', t)
                    if m:
                        tok = m.group(3)
                    if re.search(r'"flags"\) is None$', t):
                        tok = ''
                if tok is not None:
                    parser[tok] = (ref, vals[0], vals[1])
    need_p = {'/', '.', '#', '!'}
    need_q = {'/', '.', '#', '!', '#!', ''}
    if not need_p <= set(printer) or not need_q <= set(parser):
        r.lost(rule, 'tables', 'printer pushes %s, parser tokens %s: expected %s / %s' % (sorted(printer), sorted(parser), sorted(need_p), sorted(need_q))); return
    probs = []
    # shorthands
    for ch in ('/', '.'):
        pc = printer[ch]; ref, inc, inv = parser[ch]
        if pc.get('reftype') != ref or pc.get('include_subtypes') is not inc or pc.get('is_inverse') is not inv:
            probs.append("'%s' is printed for %s but parsed as (%s, include_subtypes=%s, is_inverse=%s)" % (ch, pc, ref, inc, inv))
    # flags inside <...>
    if printer['#'].get('include_subtypes') is not False or 'is_inverse' in printer['#']:
        probs.append("'#' is printed under %s, it must mean exactly include_subtypes == false" % printer['#'])
    if printer['!'].get('is_inverse') is not True or 'include_subtypes' in printer['!']:
        probs.append("'!' is printed under %s, it must mean exactly is_inverse == true" % printer['!'])
    for tok in ('#', '!', '#!', ''):
        ref, inc, inv = parser[tok]
        if inc is not ('#' not in tok) or inv is not ('!' in tok):
            probs.append("flags '%s' are parsed as include_subtypes=%s, is_inverse=%s" % (tok, inc, inv))
    if probs:
        r.fail(rule, 'RelativePathElement', 'printer and parser disagree on the reference-type notation: ' + '; '.join(probs[:3]), loc=pb.loc)
    else:
        r.ok(rule, 'RelativePathElement', "'/', '.', '#', '!' are printed for exactly the (reference type, include_subtypes, is_inverse) triples they are parsed as", loc=pb.loc)
    r.count('notation_tokens', len(printer) + len(parser))


def escape_automaton(ctx, rule='escape-automaton'):
    """the tokenizer of RelativePath::from_str handles `&` as a one-character escape: the flag escaped_char is only ever
    assigned constants - true exactly under (not escaped, current char == '&'), false when the escaped character has been
    consumed - and an element boundary is only processed while not escaped.  (The printer escapes every reserved
    character, '&' included, with one '&'.)"""
    import re
    from ..facts import fmt_lit, fmt_sym
    r, db = ctx.r, ctx.db
    bs = db.find_bodies(r'relative_path::RelativePath>::from_str$')
    if not bs:
        r.lost(rule, 'from_str', 'RelativePath::from_str not found'); return
    b = bs[0]; F = ctx.facts(b)
    e = b.local_by_name('escaped_char')
    if not e:
        r.lost(rule, 'escaped_char', 'state variable escaped_char not found'); return
    probs = []; n = 0
    sets_true = sets_false_after_escape = 0
    for d in b.defs().get(e[0], []):
        n += 1
        if d[0] != 'stmt' or not (d[3][0] == 'use' and d[3][1][0] == 'k'):
            probs.append('escaped_char is assigned a computed value (%s)' % (fmt_sym(b, F.sym_rvalue(d[3], 0, d[1]))[:60] if d[0] == 'stmt' else d[2].callee))
            continue
        val = d[3][1][1] in ('1', 'true')
        lits = [fmt_lit(b, l) for l, ed in F.literals_at(d[1], d[2])]
        in_loop = any(x.startswith('Iterator::next(') and x.endswith('is Some') for x in lits)
        if val:
            if any(re.match(r'^escaped_char\(_\d+\) == False$', x) for x in lits) and any(re.search(r'@Some\.0 eq 38$', x) for x in lits):
                sets_true += 1
            else:
                probs.append('escaped_char becomes true under %s, not under (not escaped, char == \'&\')' % [x[-40:] for x in lits])
        elif in_loop:
            if any(re.match(r'^escaped_char\(_\d+\) == True$', x) for x in lits):
                sets_false_after_escape += 1
            else:
                probs.append('escaped_char is cleared under %s' % [x[-40:] for x in lits])
    if not sets_true or not sets_false_after_escape:
        probs.append('missing transition (set on &: %d, cleared after the escaped char: %d)' % (sets_true, sets_false_after_escape))
    # element boundaries inside the loop only while not escaped
    for c in b.calls():
        if c.callee_raw.endswith('RelativePathElement>::from_str') or c.callee.endswith('relative_path_element::RelativePathElement>::from_str'):
            lits = [fmt_lit(b, l) for l, ed in F.literals_at(c.bb)]
            if any(x.startswith('Iterator::next(') and x.endswith('is Some') for x in lits):
                n += 1
                if not any(re.match(r'^escaped_char\(_\d+\) == False$', x) for x in lits):
                    probs.append('an element boundary is processed while the current character is escaped')
    if probs:
        r.fail(rule, 'tokenizer', 'the escape handling of RelativePath::from_str is not the one-character `&` escape the printer writes: ' + '; '.join(probs[:2]), loc=b.loc)
    else:
        r.ok(rule, 'tokenizer', 'escaped_char: set on an unescaped \'&\', cleared after the next character, boundaries only while unescaped', loc=b.loc)
    r.count('escape_sites', n)
    r.floor(rule, 'escape_sites', n, 4)


def regex_arms_agree(ctx, rule='regex-arms-agree'):
    """RelativePathElement::from_str matches on the text captured by the `flags` group of its regular expression and panics in
    the fall-through arm.  That arm is dead only if the group can capture nothing but the strings the arms handle: the group
    must be a plain alternation of literal strings, each of which is excluded on the way to the panic."""
    import re
    from ..facts import fmt_lit
    r, db = ctx.r, ctx.db
    ib = db.find_bodies(r'RelativePathElement>::from_str::RE as std::ops::Deref>::deref::__static_ref_initialize$')
    qb = db.find_bodies(r'RelativePathElement>::from_str$')
    if not ib or not qb:
        r.lost(rule, 'regex', 'the regular expression of RelativePathElement::from_str was not found'); return
    Fi = ctx.facts(ib[0])
    pat = None
    for c in ib[0].calls():
        if c.callee.endswith('Regex::new') and c.args:
            s_ = Fi.sym_operand(c.args[0])
            while s_[0] in ('ref', 'deref'):
                s_ = s_[1]
            if s_[0] == 'k':
                pat = s_[1]
    if pat is None:
        r.lost(rule, 'regex:pattern', 'constant pattern of Regex::new not found'); return
    pat = pat.strip('"').replace('\\\\', '\\')
    i = pat.find('(?P<flags>')
    if i < 0:
        r.lost(rule, 'regex:flags-group', 'no group named flags in the pattern'); return
    j = i + len('(?P<flags>'); depth = 1; k = j
    while k < len(pat) and depth:
        if pat[k] == '\\':
            k += 2; continue
        depth += pat[k] == '('
        depth -= pat[k] == ')'
        k += 1
    group = pat[j:k - 1]
    q = qb[0]; Fq = ctx.facts(q)
    panics = [bi for bi, blk in enumerate(q.blocks) if not blk['c'] and blk['t'][0] == 'call' and 'panic' in str(blk['t'][1]) and
              any('"flags")' in fmt_lit(q, l) for l, e in Fq.literals_at(bi))]
    if not panics:
        r.ok(rule, 'flags', 'no panicking fall-through arm on the flags capture', loc=q.loc); return
    excluded = set()
    for bi in panics:
        for l, e in Fq.literals_at(bi):
            m = re.search(r'"flags"\)@Some\.0 ne "([^"]*)"$', fmt_lit(q, l))
            if m:
                excluded.add(m.group(1))
    if re.search(r'[\[\]{}*+?.()\\^$]', group):
        r.fail(rule, 'flags', 'the flags group `%s` is not a plain alternation of literal strings: it can capture text that none of the arms (%s) handles, which reaches '
               'panic!("Error in regular expression for flags") on untrusted input' % (group, sorted(excluded)), loc=q.loc); return
    alts = set(group.split('|'))
    extra = sorted(alts - excluded)
    if extra:
        r.fail(rule, 'flags', 'the flags group can capture %s, which no arm handles: the fall-through panic is reachable from untrusted input' % extra, loc=q.loc)
    else:
        r.ok(rule, 'flags', 'the flags group captures only %s, all excluded before the fall-through arm' % sorted(alts), loc=q.loc)
