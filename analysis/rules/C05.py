"""C05 Relative path strings: parsing never panics (E1 half only)."""
from ..panics import run_e1

ENTRY = (r'^types::relative_path::<impl types::service_types::relative_path::RelativePath>::from_str$'
         r'|^types::relative_path::<impl types::service_types::relative_path_element::RelativePathElement>::(from_str|default_node_resolver|relative_path_reference_type)$'
         r'|^types::relative_path::(target_name|unescape_browse_name|escape_browse_name)$'
         r'|^types::relative_path::<impl std::convert::From<&.a types::service_types::relative_path(_element)?::RelativePath(Element)?> for std::string::String>::from$')


def run(ctx):
    r = ctx.r
    r.explanation = ('No-panic half only: every panic site reachable from RelativePath::from_str, RelativePathElement::from_str and the '
                     'browse-name helpers is discharged by a guard or a reviewed disposition (captures of groups that are not optional in '
                     'the constant regular expression; the flag characters the expression admits). The printer (String::from(&RelativePath)) is '
                     'included in the inventory: its unwrap of the browse-name resolver is a listed known finding. Equality of the text round '
                     'trip is not decided.')
    r.rule_text = 'E1 panic-site inventory over the relative path parser'
    run_e1(ctx, ENTRY)
    r.floor('E1-panic', 'reachable_bodies', r.counts.get('reachable_bodies', 0), 8)
