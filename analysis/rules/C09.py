"""C09 Secure-channel receive path is total on arbitrary peer bytes (E1)."""
from ..panics import run_e1

ENTRY = (r'SecureChannel::verify_and_remove_security(_forensic)?$|^core::comms::message_chunk_info::ChunkInfo::new$'
         r'|^core::comms::chunker::Chunker::(validate_chunks|decode)$'
         r'|^server::comms::tcp_transport::TcpTransport::(process_chunk|process_final_chunk|turn_received_chunks_into_message)$'
         r'|^client::transport::core::TransportState::(process_chunk|turn_received_chunks_into_message|merge_chunks)$'
         r'|^<core::comms::tcp_codec::TcpCodec as tokio_util::codec::Decoder>::decode$|^core::comms::tcp_codec::TcpCodec::decode_message$')
STOP = (r'MessageHandler::handle_message$|TcpTransport::process_open_secure_channel$|SupportedMessage::decode_by_object_id$'
        r'|ExtensionObject::decode_inner$')


def run(ctx):
    r = ctx.r
    r.explanation = ('E1 over the instance set reachable from the chunk receive entry points of both transports (codec frame '
                     'decoding, verify_and_remove_security, chunk info, validation and reassembly), stopping at the service '
                     'dispatcher and at message-body decoding (covered by C33 / C02): every panic site (overflow/bounds/div asserts, '
                     'panic-family macros, calls of the panicking-API table) must be discharged by a dominating guard re-proved on '
                     'this run, or carry a reviewed disposition whose premises still dominate the site, or a reason-only entry.')
    r.rule_text = 'E1 panic-site inventory x guard dominance x dispositions table'
    par = run_e1(ctx, ENTRY, stop_pattern=STOP)
    r.floor('E1-panic', 'panic_sites', r.counts.get('panic_sites', 0), 60)
    r.assumptions += ['external callees outside tables/panic_api.toml do not panic',
                      '64-bit additive/multiplicative overflow of in-memory lengths is infeasible (not counted)',
                      'the application certificate/private key objects hold RSA keys (own configuration, not peer data)']
