"""C16 Encrypted user passwords bind to the nonce and never crash (E1 + E2 + E6 table agreement)."""
import re
from ..rulelib import *
from ..facts import fmt_sym, fmt_lit
from ..panics import run_e1
from ..tables import match_table

ENTRY = (r'^crypto::user_identity::(decrypt_user_identity_token_password|legacy_password_decrypt|verify_x509_identity_token|make_user_name_identity_token|legacy_password_encrypt)$'
         r'|^crypto::pkey::PKey::<openssl::pkey::Public>::public_encrypt$'
         r'|^crypto::pkey::PKey::<openssl::pkey::Private>::private_decrypt$')


def run(ctx):
    r, db = ctx.r, ctx.db
    r.explanation = ('(1) E1: no undispositioned panic site reachable from decrypt_user_identity_token_password / legacy_password_decrypt / '
                     'PrivateKey::private_decrypt on any byte string. (2) E2: legacy_password_decrypt builds Ok(password) only on the edge '
                     'where the embedded nonce equals the server nonce and the length prefix matched. (3) E6: for every policy the padding '
                     'the client encrypts with (asymmetric_encryption_padding) equals the padding the server derives from the algorithm URI '
                     'the client sends (asymmetric_encryption_algorithm composed with the URI match in decrypt_user_identity_token_password). '
                     'The RSA round trip itself is not decided.')
    r.rule_text = 'E1 panic inventory; E2 guard dominance; E6 URI->padding table agreement'
    run_e1(ctx, ENTRY)
    # ---------------- (2)
    rule = 'nonce-binding'
    b = db.body('crypto::user_identity::legacy_password_decrypt')
    if b is None:
        r.lost(rule, 'legacy_password_decrypt', 'not found')
    else:
        F = ctx.facts(b)
        oks = success_sites(b)
        if not oks:
            r.lost(rule, 'legacy_password_decrypt:Ok', 'no Ok construction')
        for bb, si in oks:
            lits = F.literals_at(bb, si)
            t = [fmt_lit(b, l) for l, e in lits]
            nonce = any('server_nonce' in x and (' eq ' in x) for x in t)
            length = any('plaintext' in x.lower() or ('AddWithOverflow 4' in x and ' eq ' in x) or ('read_u32' in x and ' eq ' in x) for x in t)
            if nonce and length:
                r.ok(rule, 'legacy_password_decrypt:Ok', 'Ok(password) only when the embedded nonce equals server_nonce and the length prefix matched', loc=b.loc)
            else:
                r.fail(rule, 'legacy_password_decrypt:Ok', 'password accepted without %s' % ('the nonce equality' if not nonce else 'the length-prefix check'), loc=b.loc)
    # ---------------- (2a) the decrypt-side layout admits every plaintext the encrypt side produces (empty password included)
    rule = 'decrypt-layout'
    b = db.body('crypto::user_identity::legacy_password_decrypt')
    if b is not None:
        F = ctx.facts(b)
        nl = 0
        # the filter predicate on nonce_begin: true for 4 (empty password: the nonce starts right after the length prefix), false for 3
        preds = [cb for cb in db.find_bodies(r'^crypto::user_identity::legacy_password_decrypt(::\{closure#\d+\})*$') if cb.locals[0] == 'bool']
        if len(preds) != 1:
            r.lost(rule, 'nonce_begin-guard', 'expected one bool closure (the filter on nonce_begin), found %d' % len(preds))
        else:
            cb = preds[0]; Fc = ctx.facts(cb)
            ds = [d for d in cb.defs().get(0, []) if d[0] == 'stmt']
            sym = Fc.sym_rvalue(ds[0][3], 0, ds[0][1]) if len(ds) == 1 else None
            ok = False; why = 'not a single comparison'
            if sym is not None and sym[0] == 'bin' and sym[1] in ('Ge', 'Gt', 'Le', 'Lt', 'Ne', 'Eq'):
                OPS = {'Ge': lambda a, c: a >= c, 'Gt': lambda a, c: a > c, 'Le': lambda a, c: a <= c, 'Lt': lambda a, c: a < c, 'Ne': lambda a, c: a != c, 'Eq': lambda a, c: a == c}
                def val(x, arg):
                    if x[0] == 'place' and x[1] == 2:
                        return arg
                    c = Fc.const_int(x)
                    return c
                at4 = OPS[sym[1]](val(sym[2], 4), val(sym[3], 4)) if None not in (val(sym[2], 4), val(sym[3], 4)) else None
                at3 = OPS[sym[1]](val(sym[2], 3), val(sym[3], 3)) if None not in (val(sym[2], 3), val(sym[3], 3)) else None
                ok = at4 is True and at3 is False
                why = 'predicate(4) = %s, predicate(3) = %s' % (at4, at3)
            nl += 1
            if ok:
                r.ok(rule, 'nonce_begin-guard', 'nonce_begin is accepted from 4 (empty password) and refused below the length prefix', loc=cb.loc)
            else:
                r.fail(rule, 'nonce_begin-guard', 'the guard on where the nonce begins does not admit exactly nonce_begin >= 4 (%s): an empty password '
                       'no longer decrypts, or a plaintext shorter than its prefix is sliced' % why, loc=cb.loc)
        # slices: nonce = [nonce_begin .. actual_size], password = [4 .. nonce_begin], nonce_begin = actual_size - nonce.len()
        gets = [c for c in b.calls() if re.search(r'slice.*::get$', c.callee)]
        rngs = [fmt_sym(b, F.sym_operand(c.args[1])) for c in gets]
        has_nonce = any(re.match(r'^Range::Range\{.*checked_sub\(.*private_decrypt.*len\(\(\*server_nonce.*private_decrypt', x) for x in rngs)
        has_pw = any(re.match(r'^Range::Range\{4, .*checked_sub\(.*private_decrypt.*len\(\(\*server_nonce', x) for x in rngs)
        nl += 2
        if has_nonce and has_pw:
            r.ok(rule, 'slices', 'nonce = plaintext[size - nonce.len() .. size], password = plaintext[4 .. size - nonce.len()]', loc=b.loc)
        else:
            r.fail(rule, 'slices', 'the password / nonce slices of the decrypted plaintext are not [4 .. size - nonce.len()] and [size - nonce.len() .. size]: %s' % [x[:60] for x in rngs], loc=b.loc)
        r.count('decrypt_layout_sites', nl)
        r.floor(rule, 'decrypt_layout_sites', nl, 3)
    # ---------------- (2b) the cipher-text buffer is sized from the very buffer that gets encrypted
    rule = 'buffer-size-agreement'
    eb = db.body('crypto::user_identity::legacy_password_encrypt')
    if eb is None:
        r.lost(rule, 'legacy_password_encrypt', 'not found')
    else:
        Fe = ctx.facts(eb)
        cc = [c for c in eb.calls() if c.callee.endswith('calculate_cipher_text_size')]
        pe = [c for c in eb.calls() if c.callee.endswith('::public_encrypt')]
        fe = [c for c in eb.calls() if c.callee.endswith('from_elem')]
        if len(cc) != 1 or len(pe) != 1 or len(fe) < 2:
            r.lost(rule, 'calls', 'expected calculate_cipher_text_size, public_encrypt and two buffers in legacy_password_encrypt')
        else:
            size_arg = fmt_sym(eb, Fe.sym_operand(cc[0].args[1]))
            src_txt = fmt_sym(eb, Fe.sym_operand(pe[0].args[1]))
            plain_sizes = [fmt_sym(eb, Fe.sym_operand(c.args[1])) for c in fe]
            # the plaintext buffer is the vec that (through the cursor) becomes the src of public_encrypt
            same = size_arg in plain_sizes and ('src' in src_txt or 'from_elem' in src_txt or 'into_inner' in src_txt)
            dst_sized = any('calculate_cipher_text_size' in ps for ps in plain_sizes)
            if same and dst_sized:
                r.ok(rule, 'cipher-buffer', 'calculate_cipher_text_size is given the length of the plaintext buffer and sizes the destination buffer', detail=size_arg[:120], loc=cc[0].loc)
            else:
                r.fail(rule, 'cipher-buffer', 'the cipher text buffer is not sized from the length of the buffer that is encrypted (public_encrypt would write past it at block boundaries)',
                       detail='size arg: %s; buffers: %s' % (size_arg[:100], [p[:60] for p in plain_sizes]), loc=cc[0].loc)
    # ---------------- (3)
    rule = 'algorithm-table'
    SP = 'crypto::security_policy::SecurityPolicy::'
    pb = db.body(SP + 'asymmetric_encryption_padding'); ab = db.body(SP + 'asymmetric_encryption_algorithm')
    db_ = db.body('crypto::user_identity::decrypt_user_identity_token_password')
    if pb is None or ab is None or db_ is None:
        r.lost(rule, 'tables', 'padding / algorithm / decrypt functions not found'); return
    pad = match_table(ctx, pb)
    # algorithm URI per policy: the constant's evaluated string value
    uri = {}
    Fa = ctx.facts(ab)
    for bi, blk in enumerate(ab.blocks):
        t = blk['t']
        if t[0] == 'switch':
            e = Fa.sym_operand(t[1])
            if e[0] == 'discr' and 'SecurityPolicy' in e[2]:
                names = Fa.variants_of(e[2])
                for dst, lab in ab.succ_edges(bi):
                    if lab[0] == 'val' and int(lab[1]) < len(names):
                        for st in ab.stmts(dst):
                            if st[0] == '=' and st[2][0] == 'use' and st[2][1][0] == 'k' and st[2][1][2] in ('&str', "&'static str"):
                                uri[names[int(lab[1])]] = st[2][1][1]
    # server side: URI string -> padding, read from the string-comparison chain
    Fd = ctx.facts(db_)
    server = {}
    for src, dst, lab, ls in all_switch_edges(Fd):
        for l in ls:
            txt = fmt_lit(db_, l)
            pass
    # the match on &str compiles to a chain of `<str as PartialEq>::eq(alg, CONST)` tests: take each true edge and the
    # RsaPadding aggregate assigned in its target region
    for c in db_.calls():
        if c.callee.endswith('PartialEq::eq') or c.callee.endswith('cmp::PartialEq::eq'):
            a = [Fd.sym_operand(x) for x in c.args]
            consts = [x for x in a if (x[0] == 'k' or (x[0] == 'ref' and x[1][0] == 'k'))]
            if not consts:
                continue
            k = consts[0][1] if consts[0][0] == 'ref' else consts[0]
            # true edge of the switch that tests this call's result
            tgt = c.target
            t = db_.term(tgt) if tgt is not None else None
            if t and t[0] == 'switch':
                for d2, lab in db_.succ_edges(tgt):
                    if (lab[0] == 'otherwise') or (lab[0] == 'val' and lab[1] != '0'):
                        for bb2 in [d2] + db_.succ(d2):
                            for st in db_.stmts(bb2):
                                if st[0] == '=' and st[2][0] == 'agg' and st[2][2].endswith('RsaPadding') and k[1] not in server:
                                    server[k[1]] = 'RsaPadding::' + st[2][3]
    r.count('server_uri_arms', len(server))
    if len(server) < 3:
        r.lost(rule, 'server-table', 'could not read the URI -> padding table of decrypt_user_identity_token_password (%d arms)' % len(server))
    n = 0
    for pol in ('Basic128Rsa15', 'Basic256', 'Basic256Sha256', 'Aes128Sha256RsaOaep', 'Aes256Sha256RsaPss'):
        n += 1
        key = 'policy:' + pol
        u = uri.get(pol); cp = pad.get(pol) if pad else None
        sp = server.get(u)
        if u is None or cp is None:
            r.lost(rule, key, 'no algorithm URI / padding arm for ' + pol); continue
        if sp == cp:
            r.ok(rule, key, 'client encrypts with %s, sends %s, server decrypts with %s' % (cp, u, sp))
        else:
            r.fail(rule, key, 'policy %s: the client encrypts the password with %s but announces %s, for which the server uses %s' % (pol, cp, u, sp), loc=ab.loc)
    r.floor(rule, 'policies', n, 5)
