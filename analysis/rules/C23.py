"""C23 Revised subscription and monitored item parameters respect the limits (E5: comparison-lattice paths)."""
import re
from ..rulelib import *
from ..facts import fmt_sym, fmt_lit


def return_sites(body, F, field=None):
    """[(bb, idx, sym)] of every value that flows into the return place (or into tuple component `field` of it).
    Works for if/else chains where each branch assigns a temp that is later moved to _0."""
    # find the local that carries the value: for tuples, the aggregate assigned to _0
    target = 0
    if field is not None:
        for blk in body.blocks:
            for st in blk['s']:
                if st[0] == '=' and st[1][0] == 0 and not st[1][1] and st[2][0] == 'agg' and st[2][1] == 'tuple':
                    op = st[2][4][field]
                    target = op[1][0] if op[0] in ('cp', 'mv') else None
                    if target is None:
                        return [(-1, 0, F.sym_operand(op))]
    # follow single moves back
    for _ in range(6):
        ds = body.defs().get(target, [])
        if len(ds) == 1 and ds[0][0] == 'stmt' and ds[0][3][0] == 'use' and ds[0][3][1][0] in ('cp', 'mv') and not ds[0][3][1][1][1]:
            target = ds[0][3][1][1][0]
        else:
            break
    out = []
    for d in body.defs().get(target, []):
        if d[0] == 'stmt':
            out.append((d[1], d[2], F.sym_rvalue(d[3], 0)))
        elif d[0] == 'call':
            out.append((d[1], len(body.stmts(d[1])), F.sym_call(d[2])))
    return out


def is_param(b, s, name):
    return s[0] == 'place' and not s[2] and b.local_name(s[1]).startswith(name + '(')


def is_field(s, field):
    return place_ends_with(s, field)


def ordered(lits, x):
    return any(l[0] == 'ordered' and l[1] == x for l, e in lits) or \
        any(l[0] == 'truth' and l[2] is False and l[1][0] == 'call' and l[1][1].endswith('::is_nan') and l[1][2] and l[1][2][0] == x for l, e in lits)


def fge(F, lits, a, b):
    """a >= b for floats: a positive comparison, or a negated `a < b` with both sides known ordered
    (limit fields of the server state are assumed not to be NaN)"""
    if F.cmp_holds(lits, 'ge', a, b):
        return True
    for l, e in lits:
        if l[0] == 'ncmp' and l[1] == 'lt' and l[2] == a and l[3] == b and ordered(lits, a):
            return True
    return False


def run(ctx):
    r, db = ctx.r, ctx.db
    r.explanation = ('The three revising functions are loop-free decision trees whose inputs are only compared and copied. For every value '
                     'that can flow into the result, the order facts of the dominating switch edges (with IEEE semantics: a false float '
                     'comparison does not imply the opposite order unless the operand is known ordered) must imply the post-condition: '
                     'sampling interval == -1 or >= min; queue size in [1, max]; keep-alive in [1, max]; lifetime >= 3 x keep-alive. '
                     'Server limit fields are assumed sane (not NaN, max >= 1, default keep-alive in [1, max]); max_lifetime_count is '
                     'checked to be initialised as 3 x max_keep_alive_count.')
    r.rule_text = 'E5 path/edge-fact implication over MIR of sanitize_sampling_interval, sanitize_queue_size, revise_subscription_values'
    MI = 'server::subscriptions::monitored_item::MonitoredItem::'
    # ---------------- sampling interval
    rule = 'sampling-interval'
    b = db.body(MI + 'sanitize_sampling_interval')
    if b is None:
        r.lost(rule, 'fn', 'sanitize_sampling_interval not found')
    else:
        F = ctx.facts(b)
        sites = return_sites(b, F)
        r.count('sampling_return_values', len(sites))
        if len(sites) < 3:
            r.lost(rule, 'returns', 'expected three returned values, found %d' % len(sites))
        for bb, si, v in sites:
            lits = F.literals_at(bb, si)
            key = 'returns:' + fmt_sym(b, v)
            if v[0] == 'k' and v[1].startswith('-1'):
                r.ok(rule, key, 'returns -1 (use the publishing interval)', loc=b.loc)
            elif is_field(v, 'min_sampling_interval_ms'):
                r.ok(rule, key, 'returns the server minimum', loc=b.loc)
            elif is_param(b, v, 'requested_sampling_interval'):
                minf = [l[3] for l, e in lits if l[0] in ('ncmp', 'cmp') and is_field(l[3], 'min_sampling_interval_ms')]
                if minf and fge(F, lits, v, minf[0]):
                    r.ok(rule, key, 'the requested value is returned only when it is known >= the minimum (and not NaN)', loc=b.loc)
                else:
                    r.fail(rule, key, 'the requested sampling interval is returned on a path that does not establish requested >= min: '
                                      'a NaN request compares false with everything and is returned unchanged', detail='; '.join(fmt_lit(b, l) for l, e in lits), loc=b.loc)
            else:
                r.fail(rule, key, 'unexpected revised sampling interval expression', loc=b.loc)
    # ---------------- queue size
    rule = 'queue-size'
    b = db.body(MI + 'sanitize_queue_size')
    if b is None:
        r.lost(rule, 'fn', 'sanitize_queue_size not found')
    else:
        F = ctx.facts(b)
        sites = return_sites(b, F)
        if len(sites) < 3:
            r.lost(rule, 'returns', 'expected three returned values, found %d' % len(sites))
        for bb, si, v in sites:
            lits = F.literals_at(bb, si)
            key = 'returns:' + fmt_sym(b, v)
            one = ('k', '1', 'usize')
            if F.const_int(v) == 1:
                r.ok(rule, key, 'returns 1', loc=b.loc)
            elif is_field(v, 'max_monitored_item_queue_size'):
                r.ok(rule, key, 'returns the server maximum (assumed >= 1)', loc=b.loc)
            elif is_param(b, v, 'requested_queue_size'):
                lo = F.cmp_holds(lits, 'ge', v, one) or F.cmp_holds(lits, 'ne', v, ('k', '0', 'usize'))
                hi = [l for l, e in lits if l[0] == 'cmp' and l[1] in ('le', 'lt') and l[2] == v and is_field(l[3], 'max_monitored_item_queue_size')]
                if lo and hi:
                    r.ok(rule, key, 'the requested size is returned only when 1 <= requested <= max', loc=b.loc)
                else:
                    r.fail(rule, key, 'the requested queue size is returned without being known to lie in [1, max]', detail='; '.join(fmt_lit(b, l) for l, e in lits), loc=b.loc)
            else:
                r.fail(rule, key, 'unexpected revised queue size expression', loc=b.loc)
    # ---------------- subscription values
    rule = 'subscription-values'
    b = db.body('server::services::subscription::SubscriptionService::revise_subscription_values')
    if b is None:
        r.lost(rule, 'fn', 'revise_subscription_values not found')
    else:
        F = ctx.facts(b)
        # publishing interval
        pi = return_sites(b, F, 0)
        for bb, si, v in pi:
            t = fmt_sym(b, v)
            if re.search(r'f64::max\(|::max\(', t) and 'requested_publishing_interval' in t and 'min_publishing_interval_ms' in t:
                r.ok(rule, 'publishing-interval', 'max(requested, min) (IEEE max ignores a NaN request)', loc=b.loc)
            else:
                r.fail(rule, 'publishing-interval', 'the revised publishing interval is not max(requested, server minimum)', detail=t[:120], loc=b.loc)
        ka = return_sites(b, F, 1)
        if len(ka) < 3:
            r.lost(rule, 'keep-alive', 'expected three keep-alive values')
        for bb, si, v in ka:
            lits = F.literals_at(bb, si)
            key = 'keep-alive:' + fmt_sym(b, v)
            if is_field(v, 'max_keep_alive_count') or is_field(v, 'default_keep_alive_count'):
                r.ok(rule, key, 'a server limit value (assumed in [1, max])', loc=b.loc)
            elif is_param(b, v, 'requested_max_keep_alive_count'):
                lo = F.cmp_holds(lits, 'ne', v, ('k', '0', 'u32')) or F.cmp_holds(lits, 'ge', v, ('k', '1', 'u32'))
                hi = cmp_lits(lits, v, ('le', 'lt'), lambda x: is_field(x, 'max_keep_alive_count'))
                if lo and hi:
                    r.ok(rule, key, 'requested keep-alive returned only when 1 <= requested <= max', loc=b.loc)
                else:
                    r.fail(rule, key, 'the requested keep-alive count is returned without being known to lie in [1, max]', loc=b.loc)
            else:
                r.fail(rule, key, 'unexpected revised keep-alive expression', loc=b.loc)
        lt = return_sites(b, F, 2)
        if len(lt) < 3:
            r.lost(rule, 'lifetime', 'expected three lifetime values')
        for bb, si, v in lt:
            lits = F.literals_at(bb, si)
            t = fmt_sym(b, v)
            key = 'lifetime:' + t[:60]
            three_ka = lambda s: re.search(r'MulWithOverflow 3\)|Mul 3\)|\* 3', fmt_sym(b, s)) is not None
            if three_ka(v):
                r.ok(rule, key, '3 x keep-alive', loc=b.loc)
            elif is_field(v, 'max_lifetime_count'):
                # needs the construction invariant max_lifetime_count = 3 x max_keep_alive_count
                ok = False
                for sb in db.find_bodies(r'^server::server::Server::new'):
                    for blk in sb.blocks:
                        for st in blk['s']:
                            if st[0] == '=' and st[2][0] == 'agg' and st[2][2].endswith('state::ServerState') and len(st[2]) > 5:
                                names = st[2][5]; ops = st[2][4]
                                Fs = ctx.facts(sb)
                                d = {n: fmt_sym(sb, Fs.sym_operand(o)) for n, o in zip(names, ops)}
                                mk, ml = d.get('max_keep_alive_count', ''), d.get('max_lifetime_count', '')
                                if mk and re.fullmatch(r'\d+', mk) and re.search(r'\(?%s (MulWithOverflow|Mul) 3' % mk, ml):
                                    ok = True
                                elif re.fullmatch(r'\d+', mk or 'x') and re.fullmatch(r'\d+', ml or 'x') and int(ml) >= 3 * int(mk):
                                    ok = True
                if ok:
                    r.ok(rule, key, 'max_lifetime_count, which Server::new initialises to 3 x max_keep_alive_count >= 3 x any revised keep-alive', loc=b.loc)
                else:
                    r.fail(rule, key, 'the lifetime count is clamped to max_lifetime_count, which is not known to be >= 3 x keep-alive', loc=b.loc)
            elif is_param(b, v, 'requested_lifetime_count'):
                if cmp_lits(lits, v, ('ge', 'gt'), three_ka):
                    r.ok(rule, key, 'requested lifetime returned only when >= 3 x keep-alive', loc=b.loc)
                else:
                    r.fail(rule, key, 'the requested lifetime count is returned without being known >= 3 x keep-alive', loc=b.loc)
            else:
                r.fail(rule, key, 'unexpected revised lifetime expression', loc=b.loc)
    r.assumptions += ['ServerState limit fields are sane: min_sampling_interval_ms and min_publishing_interval_ms are not NaN, max_monitored_item_queue_size >= 1, 1 <= default_keep_alive_count <= max_keep_alive_count',
                      'u32 overflow of keep_alive x 3 needs max_keep_alive_count > u32::MAX / 3 (configuration), not decided here']
    r.floor('C23', 'obligations', len(r.obls), 12)
    installed_values(ctx)


def installed_values(ctx, rule='installed-values-are-revised'):
    """what is installed on the subscription is the revised tuple, component by component: Subscription::new(.., .0, .2, .1, ..)
    in CreateSubscription and set_publishing_interval(.0) / set_max_keep_alive_count(.1) / set_max_lifetime_count(.2) in
    ModifySubscription, all taken from revise_subscription_values(server_state, requested values of this request).
    (Subscription::tick panics on a publishing interval <= 0, so this is also a premise of C33.)"""
    import re
    from ..facts import fmt_sym
    r, db = ctx.r, ctx.db
    S = 'server::services::subscription::SubscriptionService::'
    REV = r'^SubscriptionService::revise_subscription_values\(&.*server_state.*, \(\*request\(_\d+\)\)\.requested_publishing_interval, \(\*request\(_\d+\)\)\.requested_max_keep_alive_count, \(\*request\(_\d+\)\)\.requested_lifetime_count\)\.%d$'
    n = 0
    b = db.body(S + 'create_subscription')
    if b is None:
        r.lost(rule, 'create', 'create_subscription not found')
    else:
        F = ctx.facts(b)
        news = [c for c in b.calls() if c.callee.endswith('subscription::Subscription::new')]
        if len(news) != 1 or len(news[0].args) < 6:
            r.lost(rule, 'create:new', 'Subscription::new call not recognised')
        else:
            a = [fmt_sym(b, F.sym_operand(x)) for x in news[0].args]
            want = {3: 0, 4: 2, 5: 1}    # publishing interval, lifetime count, keep alive count
            bad = [i for i, comp in want.items() if not re.match(REV % comp, a[i])]
            n += 3
            if bad:
                r.fail(rule, 'create', 'CreateSubscription installs %s as argument %s of Subscription::new instead of the revised value' % (a[bad[0]][:80], bad[0]), loc=news[0].loc)
            else:
                r.ok(rule, 'create', 'Subscription::new receives the revised interval, lifetime and keep-alive counts', loc=news[0].loc)
    b = db.body(S + 'modify_subscription')
    if b is None:
        r.lost(rule, 'modify', 'modify_subscription not found')
    else:
        F = ctx.facts(b)
        for setter, comp in (('set_publishing_interval', 0), ('set_max_keep_alive_count', 1), ('set_max_lifetime_count', 2)):
            cs = [c for c in b.calls() if c.callee.endswith('Subscription::' + setter)]
            n += 1
            if len(cs) != 1:
                r.fail(rule, 'modify:' + setter, 'expected exactly one %s call in ModifySubscription, found %d' % (setter, len(cs)), loc=b.loc); continue
            v = fmt_sym(b, F.sym_operand(cs[0].args[1]))
            if re.match(REV % comp, v):
                r.ok(rule, 'modify:' + setter, '%s receives component .%d of the revised tuple' % (setter, comp), loc=cs[0].loc)
            else:
                r.fail(rule, 'modify:' + setter, 'ModifySubscription installs %s with %s instead of the revised value (the response still reports the revised one)' % (v[:90], setter), loc=cs[0].loc)
    r.count('installed_value_sites', n)
    r.floor(rule, 'installed_value_sites', n, 6)
