"""C14 Security token renewal never breaks a healthy channel - two structural necessary conditions (E7 + dataflow)."""
import re
from ..rulelib import *
from ..facts import fmt_sym, fmt_lit

SC = 'core::comms::secure_channel::SecureChannel'
HDR = 'core::comms::security_header::SymmetricSecurityHeader'
KEYSET = r'\(std::vec::Vec<u8>, crypto::aeskey::AesKey, std::vec::Vec<u8>\)'


def run(ctx):
    r, db, cg = ctx.r, ctx.db, ctx.cg
    r.explanation = ('Two structural necessary conditions; the interleavings themselves are not explored. (token consulted) A receiver '
                     'can tell a chunk secured under the previous token from one secured under the current token, and refuse a token it '
                     'never issued, only if some function reachable from SecureChannel::verify_and_remove_security reads '
                     'SymmetricSecurityHeader.token_id of the received chunk (derived Debug / Clone / PartialEq and the codec do not '
                     'count). (keys retained) Messages secured under the previous token stay acceptable after a renewal only if the '
                     'channel can hold more than one set of remote keys: a second field of the key-set type, or a collection of key '
                     'sets. Both are read from the type-checked program: field reads in MIR over the instance call graph, and the field '
                     'types of SecureChannel. On the pinned tree neither holds; both are listed known findings with a demonstration.')
    r.rule_text = 'E7 field types of SecureChannel; reachability of a read of SymmetricSecurityHeader.token_id from the receive path'
    # ---------------------------------------------------------------- token consulted
    rule = 'token-consulted'
    roots = cg.instances_matching(r'^' + re.escape(SC) + r'::verify_and_remove_security(_forensic)?$')
    if not roots:
        r.lost(rule, 'receive-path', 'SecureChannel::verify_and_remove_security not found')
    else:
        par = cg.reach(roots)
        readers = []
        for i in par:
            inst = db.instances[i]
            raw = db.bodies.raw.get(inst.body_id)
            if raw is None or '.token_id' not in raw:
                continue
            p = inst.path
            if re.search(r' as std::(fmt::Debug|clone::Clone|cmp::PartialEq)>::|BinaryEncoder<', p):
                continue
            b = db.bodies[inst.body_id]
            # a read of `.token_id` through a place whose base type is the symmetric header
            for blk in b.blocks:
                for st in blk['s']:
                    if st[0] != '=':
                        continue
                    txt = str(st[2])
                    if "'.token_id'" in txt:
                        # resolve the local the projection starts from
                        for m in re.finditer(r"\[(\d+), \[[^\]]*'\.token_id'", txt):
                            ty = b.locals[int(m.group(1))]
                            if 'SymmetricSecurityHeader' in ty or 'SecurityHeader' in ty or 'ChunkInfo' in ty:
                                readers.append(p)
        r.count('receive_path_instances', len(par))
        if readers:
            r.ok(rule, 'receiver:Symmetric', 'the token id of a received symmetric chunk is read in ' + ', '.join(sorted(set(readers))[:3]), loc=db.bodies[db.instances[roots[0]].body_id].loc)
        else:
            r.fail(rule, 'receiver:Symmetric', 'no function reachable from verify_and_remove_security reads SymmetricSecurityHeader.token_id: a chunk '
                   'carrying a token the receiver never issued cannot be refused, and the previous token cannot be told from the current one',
                   loc=db.bodies[db.instances[roots[0]].body_id].loc)
        r.floor(rule, 'receive_path_instances', len(par), 20)
    # ---------------------------------------------------------------- keys retained
    rule = 'previous-keys-retained'
    adt = db.adts.get(SC)
    if not adt:
        r.lost(rule, 'SecureChannel', 'struct SecureChannel not found')
    else:
        fields = adt['variants'][0]['fields']
        keyish = [(n, t) for n, t in fields if re.search(KEYSET, t)]
        r.count('key_fields', len(keyish))
        remote_slots = [(n, t) for n, t in keyish if 'remote' in n or 'previous' in n or 'old' in n]
        multi = [(n, t) for n, t in keyish if re.search(r'(Vec|VecDeque|HashMap|BTreeMap)<', t.split('(')[0])]
        if len(remote_slots) >= 2 or multi:
            r.ok(rule, 'SecureChannel:remote-keys', 'the channel can hold more than one set of remote keys: ' + ', '.join(n for n, t in (remote_slots + multi)), loc=adt['loc']['f'])
        else:
            r.fail(rule, 'SecureChannel:remote-keys', 'SecureChannel has a single remote key slot (%s) that derive_keys overwrites: after a renewal a message '
                   'secured under the previous token can no longer be verified' % ', '.join(n for n, t in remote_slots or keyish), loc='%s:%s' % (adt['loc']['f'], adt['loc']['l']))
        r.floor(rule, 'key_fields', len(keyish), 2)
    nonce_setters_replace(ctx)


def nonce_setters_replace(ctx, rule='nonce-setters-replace'):
    """a renewal re-uses the same SecureChannel object: set_local_nonce / set_remote_nonce must REPLACE the stored nonce with
    their argument (clear, then extend with the whole argument - or assign), otherwise the second key derivation on one side
    uses old||new while the peer uses new, and every message after the first renewal is refused"""
    r, db = ctx.r, ctx.db
    n = 0
    for fn, fld, arg in (('set_local_nonce', '.local_nonce', 'local_nonce'), ('set_remote_nonce', '.remote_nonce', 'remote_nonce')):
        b = db.body(SC + '::' + fn)
        if b is None:
            r.lost(rule, fn, 'SecureChannel::%s not found' % fn); continue
        F = ctx.facts(b)
        n += 1
        muts = [(c, c.callee.rsplit('::', 1)[-1]) for c in b.calls() if c.args and fmt_sym(b, F.sym_operand(c.args[0])).endswith(fld)]
        names = [m for c, m in muts]
        assigns = [st for blk in b.blocks for st in blk['s'] if st[0] == '=' and st[1][1] and st[1][1][-1] == fld]
        ok = False
        if assigns and not muts:
            ok = True
        elif names == ['clear', 'extend_from_slice']:
            c0, c1 = muts[0][0], muts[1][0]
            a = fmt_sym(b, F.sym_operand(c1.args[1]))
            ps = b.local_by_name(arg)
            ok = b.dominates(c0.bb, c1.bb) and ps and a in ('&(*%s(_%d))' % (arg, ps[0]), '%s(_%d)' % (arg, ps[0]))
        if ok:
            r.ok(rule, fn, '%s replaces the stored nonce with its argument' % fn, loc=b.loc)
        else:
            r.fail(rule, fn, 'SecureChannel::%s does not replace the stored nonce (operations on %s: %s): after a renewal the two sides derive keys from different nonces'
                   % (fn, fld[1:], names or 'assignment'), loc=b.loc)
    r.count('nonce_setters', n)
    r.floor(rule, 'nonce_setters', n, 2)
