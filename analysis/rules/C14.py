"""C14 Security token renewal never breaks a healthy channel - two structural necessary conditions (E7 + dataflow)."""
import re
from ..rulelib import *
from ..facts import fmt_sym, fmt_lit

SC = 'core::comms::secure_channel::SecureChannel'
HDR = 'core::comms::security_header::SymmetricSecurityHeader'
KEYSET = r'\(std::vec::Vec<u8>, crypto::aeskey::AesKey, std::vec::Vec<u8>\)'


def run(ctx):
    r, db, cg = ctx.r, ctx.db, ctx.cg
    r.explanation = ('Two structural necessary conditions; the interleavings themselves are not explored. (token consulted) A receiver '
                     'can tell a chunk secured under the previous token from one secured under the current token, and refuse a token it '
                     'never issued, only if some function reachable from SecureChannel::verify_and_remove_security reads '
                     'SymmetricSecurityHeader.token_id of the received chunk (derived Debug / Clone / PartialEq and the codec do not '
                     'count). (keys retained) Messages secured under the previous token stay acceptable after a renewal only if the '
                     'channel can hold more than one set of remote keys: a second field of the key-set type, or a collection of key '
                     'sets. Both are read from the type-checked program: field reads in MIR over the instance call graph, and the field '
                     'types of SecureChannel. On the pinned tree neither holds; both are listed known findings with a demonstration.')
    r.rule_text = 'E7 field types of SecureChannel; reachability of a read of SymmetricSecurityHeader.token_id from the receive path'
    # ---------------------------------------------------------------- token consulted
    rule = 'token-consulted'
    roots = cg.instances_matching(r'^' + re.escape(SC) + r'::verify_and_remove_security(_forensic)?$')
    if not roots:
        r.lost(rule, 'receive-path', 'SecureChannel::verify_and_remove_security not found')
    else:
        par = cg.reach(roots)
        readers = []
        for i in par:
            inst = db.instances[i]
            raw = db.bodies.raw.get(inst.body_id)
            if raw is None or '.token_id' not in raw:
                continue
            p = inst.path
            if re.search(r' as std::(fmt::Debug|clone::Clone|cmp::PartialEq)>::|BinaryEncoder<', p):
                continue
            b = db.bodies[inst.body_id]
            # a read of `.token_id` through a place whose base type is the symmetric header
            for blk in b.blocks:
                for st in blk['s']:
                    if st[0] != '=':
                        continue
                    txt = str(st[2])
                    if "'.token_id'" in txt:
                        # resolve the local the projection starts from
                        for m in re.finditer(r"\[(\d+), \[[^\]]*'\.token_id'", txt):
                            ty = b.locals[int(m.group(1))]
                            if 'SymmetricSecurityHeader' in ty or 'SecurityHeader' in ty or 'ChunkInfo' in ty:
                                readers.append(p)
        r.count('receive_path_instances', len(par))
        if readers:
            r.ok(rule, 'receiver:Symmetric', 'the token id of a received symmetric chunk is read in ' + ', '.join(sorted(set(readers))[:3]), loc=db.bodies[db.instances[roots[0]].body_id].loc)
        else:
            r.fail(rule, 'receiver:Symmetric', 'no function reachable from verify_and_remove_security reads SymmetricSecurityHeader.token_id: a chunk '
                   'carrying a token the receiver never issued cannot be refused, and the previous token cannot be told from the current one',
                   loc=db.bodies[db.instances[roots[0]].body_id].loc)
        r.floor(rule, 'receive_path_instances', len(par), 20)
    # ---------------------------------------------------------------- keys retained
    rule = 'previous-keys-retained'
    adt = db.adts.get(SC)
    if not adt:
        r.lost(rule, 'SecureChannel', 'struct SecureChannel not found')
    else:
        fields = adt['variants'][0]['fields']
        keyish = [(n, t) for n, t in fields if re.search(KEYSET, t)]
        r.count('key_fields', len(keyish))
        remote_slots = [(n, t) for n, t in keyish if 'remote' in n or 'previous' in n or 'old' in n]
        multi = [(n, t) for n, t in keyish if re.search(r'(Vec|VecDeque|HashMap|BTreeMap)<', t.split('(')[0])]
        if len(remote_slots) >= 2 or multi:
            r.ok(rule, 'SecureChannel:remote-keys', 'the channel can hold more than one set of remote keys: ' + ', '.join(n for n, t in (remote_slots + multi)), loc=adt['loc']['f'])
        else:
            r.fail(rule, 'SecureChannel:remote-keys', 'SecureChannel has a single remote key slot (%s) that derive_keys overwrites: after a renewal a message '
                   'secured under the previous token can no longer be verified' % ', '.join(n for n, t in remote_slots or keyish), loc='%s:%s' % (adt['loc']['f'], adt['loc']['l']))
        r.floor(rule, 'key_fields', len(keyish), 2)
    nonce_setters_replace(ctx)
    renew_serialised(ctx)


def nonce_setters_replace(ctx, rule='nonce-setters-replace'):
    """a renewal re-uses the same SecureChannel object: whoever writes local_nonce / remote_nonce must REPLACE the stored nonce
    (assign it, or clear it and then extend it with one whole value), otherwise the second key derivation on one side uses
    old||new while the peer uses new, and every message after the first renewal is refused.  Every function of the crate that
    writes one of the two fields is examined (who-may-write), not a list of setter names.  Shared with C13."""
    r, db = ctx.r, ctx.db
    n = 0
    MUT = re.compile(r'Vec::(push|extend_from_slice|extend|append|insert|truncate|resize|clear|drain|retain|remove|pop|copy_from_slice|clone_from)$|Extend::extend$')
    for b in db.find_bodies_mentioning(r'^core::comms::secure_channel::', '_nonce'):
        if re.search(r'::tests?::', b.path) or re.search(r'::(new|default|clone)$', b.path):
            continue
        F = None
        for fld in ('.local_nonce', '.remote_nonce'):
            F = F or ctx.facts(b)
            muts = [(c, c.callee.rsplit('::', 1)[-1]) for c in b.calls() if c.args and MUT.search(c.callee) and re.search(r'\(\*self\(_1\)\)' + re.escape(fld) + '$', fmt_sym(b, F.sym_operand(c.args[0])))]
            assigns = [(bi, st) for bi, blk in enumerate(b.blocks) if not blk['c'] for st in blk['s'] if st[0] == '=' and st[1][0] == 1 and st[1][1] and st[1][1][-1] == fld]
            assigns += [(bi, None) for bi, blk in enumerate(b.blocks) if not blk['c'] and blk['t'][0] == 'call' and blk['t'][3][0] == 1 and blk['t'][3][1] and blk['t'][3][1][-1] == fld]
            if not muts and not assigns:
                continue
            n += 1
            key = '%s:%s' % (b.path.rsplit('::', 1)[-1], fld[1:])
            names = [m for c, m in muts]
            ok = False
            if not muts:
                ok = True
            elif names == ['clear', 'extend_from_slice'] or names == ['clear', 'extend']:
                ok = b.dominates(muts[0][0].bb, muts[1][0].bb) and muts[0][0].bb != muts[1][0].bb
            elif names == ['resize']:
                # set to the exact length, then every byte overwritten by the random generator
                fills = [c for c in b.calls() if c.callee.endswith('random::bytes') and c.args and re.search(r'\(\*self\(_1\)\)' + re.escape(fld) + r'\)?$', fmt_sym(b, F.sym_operand(c.args[0])))]
                ok = len(fills) == 1 and b.dominates(muts[0][0].bb, fills[0].bb)
            if ok:
                r.ok(rule, key, '%s replaces the stored nonce' % b.path.rsplit('::', 1)[-1], loc=b.loc)
            else:
                r.fail(rule, key, 'SecureChannel::%s does not replace the stored nonce (operations on %s: %s): after a renewal the two sides derive keys from different nonces'
                       % (b.path.rsplit('::', 1)[-1], fld[1:], names), loc=muts[0][0].loc)
    r.count('nonce_setters', n)
    r.floor(rule, 'nonce_setters', n, 4)


def renew_serialised(ctx, rule='renew-serialised'):
    """client side: a renewal is one exchange - begin_issue_or_renew_secure_channel stores the client nonce the keys will be
    derived from, end_issue_or_renew_secure_channel derives them from that nonce and the server's answer.  AsyncSecureChannel::send
    may run concurrently, so the pair must sit inside one critical section of issue_channel_lock: the guard is taken before
    `begin` and not released on any path from `begin` to `end` (a second renewal starting in between overwrites the nonce and
    the keys derived afterwards are ones the server never held)."""
    r, db = ctx.r, ctx.db
    bs = db.find_bodies(r'^client::transport::channel::AsyncSecureChannel::send::\{closure#0\}$')
    if not bs:
        r.lost(rule, 'send', 'AsyncSecureChannel::send coroutine not found'); return
    b = bs[0]; F = ctx.facts(b)
    begins = [c for c in b.calls() if c.callee.endswith('SecureChannelState::begin_issue_or_renew_secure_channel')]
    ends = [c for c in b.calls() if c.callee.endswith('SecureChannelState::end_issue_or_renew_secure_channel')]
    locks = [c for c in b.calls() if re.search(r'Mutex::lock$', c.callee) and fmt_sym(b, F.sym_operand(c.args[0])).endswith('.issue_channel_lock')]
    if len(begins) != 1 or len(ends) != 1 or len(locks) != 1:
        r.lost(rule, 'send:calls', 'expected one issue_channel_lock.lock(), one begin_ and one end_issue_or_renew_secure_channel in send (found %d/%d/%d)' % (len(locks), len(begins), len(ends))); return
    B, E, L = begins[0], ends[0], locks[0]
    # where the guard is kept: the place assigned from the awaited lock future
    gplaces = []
    for bi, blk in enumerate(b.blocks):
        if blk['c']:
            continue
        for si, st in enumerate(blk['s']):
            if st[0] == '=' and st[2][0] == 'use' and st[2][1][0] in ('mv', 'cp'):
                v = fmt_sym(b, F.sym_operand(st[2][1]))
                if 'Mutex::lock(&' in v and 'issue_channel_lock' in v and 'poll' in v and b.dominates(L.bb, bi):
                    gplaces.append((st[1][0], tuple(st[1][1])))
    gplaces = set(gplaces)
    if not gplaces:
        r.lost(rule, 'send:guard', 'the place holding the issue_channel_lock guard was not found'); return
    rel = set()
    for bi, blk in enumerate(b.blocks):
        if blk['c']:
            continue
        t = blk['t']
        if t[0] == 'drop' and (t[1][0], tuple(t[1][1])) in gplaces:
            rel.add(bi)
    for c in b.calls():
        if c.callee.endswith('mem::drop') and c.args and c.args[0][0] in ('mv', 'cp') and ((c.args[0][1][0], tuple(c.args[0][1][1])) in gplaces or
                ('Mutex::lock(&' in fmt_sym(b, F.sym_operand(c.args[0])) and 'issue_channel_lock' in fmt_sym(b, F.sym_operand(c.args[0])))):
            rel.add(c.bb)
    r.count('guard_release_points', len(rel))
    if not rel:
        r.lost(rule, 'send:release', 'no release of the issue_channel_lock guard found'); return
    if b.dominates(L.bb, B.bb) and any(b.dominates(bi, B.bb) for bi, blk in enumerate(b.blocks) if not blk['c'] and any(
            st[0] == '=' and (st[1][0], tuple(st[1][1])) in gplaces for st in blk['s'])):
        r.ok(rule, 'send:lock-before-begin', 'the renewal request is created only after issue_channel_lock was acquired', loc=B.loc)
    else:
        r.fail(rule, 'send:lock-before-begin', 'begin_issue_or_renew_secure_channel can run without issue_channel_lock being held', loc=B.loc)
    # from begin, walk without passing `end`: no release may be met
    seen = set(); work = [B.target] if B.target is not None else []
    hit = None
    while work:
        x = work.pop()
        if x in seen or b.is_cleanup(x):
            continue
        seen.add(x)
        if x == E.bb:
            continue
        if x in rel:
            # a release before end: is end still reachable from here?
            if E.bb in b.reachable_blocks(x):
                hit = x; break
            continue
        work.extend(b.succ(x))
    if hit is not None:
        t = b.term(hit)
        where = '%s:%s' % (t[6]['f'], t[6]['l']) if t[0] == 'call' else B.loc
        r.fail(rule, 'send:held-until-end', 'issue_channel_lock is released between begin_ and end_issue_or_renew_secure_channel: a concurrent send() starts a second renewal, '
               'overwrites the client nonce, and the keys derived from the first answer are ones the server never held (its messages are then rejected)', loc=where)
    else:
        r.ok(rule, 'send:held-until-end', 'the guard taken before begin_issue_or_renew_secure_channel is not released on any path to end_issue_or_renew_secure_channel', loc=E.loc)
