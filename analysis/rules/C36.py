"""C36 Each received notification is acknowledged exactly once (E2 on the stitched coroutine CFG)."""
import re
from ..rulelib import *
from ..facts import fmt_sym, fmt_lit

ST = 'client::session::services::subscriptions::state::SubscriptionState::'


def run(ctx):
    r, db = ctx.r, ctx.db
    r.explanation = ('On the stitched state machine of the client Session::publish coroutine: pending acknowledgements leave the state only '
                     'through take_acknowledgements (mem::take) and are what the PublishRequest carries; every path from the send to an Err '
                     'result passes re_queue_acknowledgements with the taken vector, the only bypass being the edge on which nothing was '
                     'taken; no path through re_queue_acknowledgements reaches the Ok result (never re-sent after success); '
                     'handle_notification records exactly one acknowledgement per received notification message. The acknowledgement '
                     'list is touched by exactly those three functions. What the server received is not decided.')
    r.rule_text = 'E2 must-pass-through / who-may-write over MIR (coroutine CFG stitched at suspension points)'
    rule = 'requeue-on-failure'
    bs = db.find_bodies(r'^client::session::services::subscriptions::service::<impl client::session::session::Session>::publish::\{closure#0\}$')
    if not bs:
        bs = [b for b in db.find_bodies(r'Session>::publish::\{closure#0\}$')]
    if not bs:
        r.lost(rule, 'publish', 'client Session::publish coroutine not found')
    else:
        b = bs[0]; F = ctx.facts(b)
        take = [c for c in b.calls() if c.callee.endswith('SubscriptionState::take_acknowledgements')]
        req = [c for c in b.calls() if c.callee.endswith('SubscriptionState::re_queue_acknowledgements')]
        send = [c for c in b.calls() if c.callee.endswith('AsyncSecureChannel::send')]
        if len(take) != 1 or len(req) < 1 or len(send) != 1:
            r.lost(rule, 'publish:calls', 'expected one take_acknowledgements, one re_queue_acknowledgements and one channel.send (found %d/%d/%d)' % (len(take), len(req), len(send)))
        else:
            # the request carries the taken acknowledgements
            reqagg = [st for blk in b.blocks for st in blk['s'] if st[0] == '=' and st[2][0] == 'agg' and st[2][2].endswith('PublishRequest')]
            carried = False
            for st in reqagg:
                names = st[2][5] if len(st[2]) > 5 else []
                for nme, op in zip(names, st[2][4]):
                    if nme == 'subscription_acknowledgements':
                        t = fmt_sym(b, F.sym_operand(op))
                        carried = 'clone' in t.lower() and ('acks' in t or 'take_acknowledgements' in t)
            if carried:
                r.ok(rule, 'publish:request-carries-acks', 'the PublishRequest carries a clone of the taken acknowledgements', loc=send[0].loc)
            else:
                r.fail(rule, 'publish:request-carries-acks', 'the PublishRequest does not carry the acknowledgements that were taken from the state', loc=send[0].loc)
            errs = [(bb, si) for bb, si, pl in result_ctor_sites(b, 'Err') if flows_to_return(b, bb, si, pl) or True]
            oks = [(bb, si) for bb, si, pl in result_ctor_sites(b, 'Ok')]
            # Result<bool, StatusCode> values only
            def is_ret(bb, si):
                st = b.stmts(bb)[si]
                return 'std::result::Result<bool' in b.locals[st[1][0]] or 'Poll<std::result::Result<bool' in b.locals[st[1][0]]
            errs = [(bb, si) for bb, si in errs if is_ret(bb, si)]
            oks = [(bb, si) for bb, si in oks if is_ret(bb, si)]
            none_edges = edges_where(F, lambda l: l[0] == 'variant' and 'acks' in fmt_sym(b, l[1]) and ((l[2] == 'None' and l[3]) or (l[2] == 'Some' and not l[3])))
            cut = frozenset((s_, d_) for s_, d_, _ in none_edges)
            reach = b.reachable_blocks(send[0].target, removed_edge=cut, stop={q.bb for q in req}) if send[0].target is not None else set()
            if not errs or not oks:
                r.lost(rule, 'publish:results', 'Ok/Err result constructions not found (%d/%d)' % (len(oks), len(errs)))
            else:
                leak = [bb for bb, si in errs if bb in reach and bb not in {q.bb for q in req}]
                if leak:
                    r.fail(rule, 'publish:err-requeues', 'publish can fail without putting the taken acknowledgements back (they would never be sent)', loc=req[0].loc)
                else:
                    r.ok(rule, 'publish:err-requeues', 'every failing exit after the send passes re_queue_acknowledgements (or nothing was taken)', loc=req[0].loc)
                after_req = set()
                for q in req:
                    if q.target is not None:
                        after_req |= b.reachable_blocks(q.target)
                if any(bb in after_req for bb, si in oks):
                    r.fail(rule, 'publish:no-requeue-on-success', 'acknowledgements can be re-queued on a path that ends in success (they would be sent twice)', loc=req[0].loc)
                else:
                    r.ok(rule, 'publish:no-requeue-on-success', 'no successful exit is reachable after re_queue_acknowledgements', loc=req[0].loc)
                a = fmt_sym(b, F.sym_operand(req[0].args[1]))
                if 'acks' in a or 'take_acknowledgements' in a:
                    r.ok(rule, 'publish:requeue-arg', 're_queue_acknowledgements receives the taken vector', loc=req[0].loc)
                else:
                    r.fail(rule, 'publish:requeue-arg', 're_queue_acknowledgements is not given the taken acknowledgements', detail=a[:120], loc=req[0].loc)
    # ---------------- one ack per notification
    rule = 'one-ack-per-notification'
    hb = db.body(ST + 'handle_notification')
    if hb is None:
        r.lost(rule, 'handle_notification', 'not found')
    else:
        F = ctx.facts(hb)
        adds = [c for c in hb.calls() if c.callee.endswith('SubscriptionState::add_acknowledgement')]
        rets = hb.return_blocks()
        if len(adds) == 1 and all(hb.dominates(adds[0].bb, rb) for rb in rets):
            a1, a2 = fmt_sym(hb, F.sym_operand(adds[0].args[1])), fmt_sym(hb, F.sym_operand(adds[0].args[2]))
            if 'subscription_id' in a1 and 'sequence_number' in a2 and 'notification' in a2:
                r.ok(rule, 'handle_notification:add', 'exactly one acknowledgement (subscription id, message sequence number) per handled notification, on every path', loc=adds[0].loc)
            else:
                r.fail(rule, 'handle_notification:add', 'the recorded acknowledgement is not (subscription_id, notification.sequence_number)', detail='%s, %s' % (a1, a2), loc=adds[0].loc)
        else:
            r.fail(rule, 'handle_notification:add', 'handle_notification records %d acknowledgements or not on every path' % len(adds), loc=hb.loc)
    # ---------------- the accessors move whole vectors, unconditionally
    rule = 'accessors-lossless'
    for fn, rx in (('re_queue_acknowledgements', r'Vec::(extend|append|extend_from_slice)$|Extend::extend$'), ('add_acknowledgement', r'Vec::push$'), ('take_acknowledgements', r'mem::take$|mem::replace$')):
        fb = db.body(ST + fn)
        key = fn
        if fb is None:
            r.lost(rule, key, fn + ' not found'); continue
        Ff = ctx.facts(fb)
        ops = [c for c in fb.calls() if re.search(rx, c.callee) and '.acknowledgements' in fmt_sym(fb, Ff.sym_operand(c.args[0]))]
        rets = fb.return_blocks()
        branches = [bi for bi in range(len(fb.blocks)) if fb.term(bi)[0] == 'switch' and not fb.is_cleanup(bi)]
        if len(ops) == 1 and all(fb.dominates(ops[0].bb, rb) for rb in rets) and not branches:
            if fn == 're_queue_acknowledgements':
                a = fmt_sym(fb, Ff.sym_operand(ops[0].args[1]))
                if not re.search(r'^(IntoIterator::into_iter\()?acks\(_\d+\)\)?$', a):
                    r.fail(rule, key, 're_queue_acknowledgements does not put back the whole vector it was given (%s)' % a[:80], loc=fb.loc); continue
            r.ok(rule, key, '%s performs one unconditional whole-value operation on the list' % fn, loc=fb.loc)
        else:
            r.fail(rule, key, '%s is no longer a single unconditional operation on the acknowledgement list (%d ops, %d branches): acknowledgements could be lost or duplicated' % (fn, len(ops), len(branches)), loc=fb.loc)
    # ---------------- who touches the list
    rule = 'ack-list-owners'
    allowed = {ST + 'take_acknowledgements', ST + 'add_acknowledgement', ST + 're_queue_acknowledgements'}
    touching = set()
    for b2 in db.find_bodies(r'^client::session::services::subscriptions::'):
        for blk in b2.blocks:
            for st in blk['s']:
                if st[0] == '=':
                    pls = [st[1]]
                    rv = st[2]
                    if rv[0] in ('ref',):
                        pls.append(rv[2])
                    elif rv[0] == 'use' and rv[1][0] in ('cp', 'mv'):
                        pls.append(rv[1][1])
                    for pl in pls:
                        if '.acknowledgements' in pl[1]:
                            touching.add(b2.path)
    extra = sorted(t for t in touching if t not in allowed and not re.search(r'::new$|Default', t))
    if extra:
        r.fail(rule, 'acknowledgements:owners', 'the pending acknowledgement list is also accessed in ' + ', '.join(extra), loc=extra[0])
    elif len(touching & allowed) == 3:
        r.ok(rule, 'acknowledgements:owners', 'the pending acknowledgement list is accessed only by take_/add_/re_queue_acknowledgement(s)')
    else:
        r.lost(rule, 'acknowledgements:owners', 'expected the three accessor functions, found %s' % sorted(touching))
    r.floor('C36', 'obligations', len(r.obls), 9)
