"""C35 Every client request completes exactly once (E7 type facts + E2)."""
import re
from ..rulelib import *
from ..facts import fmt_sym, fmt_lit

CORE = r'^client::transport::core::TransportState::'


def run(ctx):
    r, db = ctx.r, ctx.db
    r.explanation = ('At most once by linearity: the completion handle of a pending request (MessageState.callback, OutgoingMessage.callback) is '
                     'a tokio oneshot::Sender, whose send(self) consumes it. At least once: every removal of a MessageState from '
                     'message_states (time-out, chunk limit, FinalError, Final, close) feeds that state\'s callback to Sender::send in the '
                     'same function (or drops it on an error exit), states are only inserted together with the caller\'s sender, and '
                     'Request::send maps a dropped sender to Err(BadConnectionClosed). The race between deadline and response is decided by '
                     'whichever removal happens first and is not analysed further.')
    r.rule_text = 'E7 field types from the ADT table; E2 value provenance from each removal site to Sender::send'
    rule = 'linear-completion-handle'
    for adt, field, opt in (('client::transport::core::MessageState', 'callback', False), ('client::transport::core::OutgoingMessage', 'callback', True)):
        a = db.adts.get(adt)
        key = adt.rsplit('::', 1)[-1] + '.' + field
        if not a:
            r.lost(rule, key, adt + ' not found'); continue
        ft = dict((f[0], f[1]) for f in a['variants'][0]['fields']).get(field, '')
        want = 'tokio::sync::oneshot::Sender<'
        if (ft.startswith(want) and not opt) or (opt and ft.startswith('std::option::Option<' + want)):
            r.ok(rule, key, 'field type %s: completing consumes the handle' % ft[:70], loc=a['loc']['f'])
        else:
            r.fail(rule, key, '%s.%s is no longer a oneshot::Sender (type %s): a request could be completed twice' % (adt, field, ft[:80]), loc=a['loc']['f'])
    # ---------------- removals
    rule = 'removal-completes'
    nrem = 0
    for b in db.find_bodies(r'^client::transport::'):
        F = None
        rems = []
        for c in b.calls():
            if re.search(r'HashMap::(remove|drain|clear|retain|remove_entry)$', c.callee) and c.args:
                F = F or ctx.facts(b)
                if fmt_sym(b, F.sym_operand(c.args[0])).endswith('.message_states'):
                    rems.append(c)
        if not rems:
            continue
        sends = [c for c in b.calls() if c.callee.endswith('oneshot::Sender::send')]
        send_txt = [fmt_sym(b, F.sym_operand(c.args[0])) for c in sends]
        for i, c in enumerate(rems):
            nrem += 1
            op = c.callee.rsplit('::', 1)[-1]
            key = '%s:%s#%d' % (b.path.rsplit('::', 1)[-1] if '{' not in b.path.rsplit('::', 1)[-1] else '::'.join(b.path.rsplit('::', 2)[-2:]), op, i)
            if op in ('clear', 'retain'):
                r.fail(rule, key, 'pending requests are discarded with %s without completing them' % op, loc=c.loc); continue
            if op == 'drain':
                fed = any('.callback' in t and ('Iterator::next' in t or 'drain' in t.lower()) for t in send_txt)
            else:
                fed = any('.callback' in t and 'HashMap::remove' in t and 'message_states' in t for t in send_txt)
                # the send must be reachable from this very removal
                fed = fed and any(s.bb in b.reachable_blocks(c.target) for s in sends if c.target is not None)
            if fed:
                r.ok(rule, key, 'the removed state\'s callback is passed to Sender::send', loc=c.loc)
            else:
                r.fail(rule, key, 'a pending request is removed from message_states without its callback being completed', loc=c.loc)
    r.floor(rule, 'removal_sites', nrem, 5)
    # ---------------- the status a request is completed with
    rule = 'completion-status'
    cb = [x for x in db.find_bodies(CORE + r'close::\{closure#0\}$')]
    if not cb:
        r.lost(rule, 'close', 'TransportState::close coroutine not found')
    else:
        b = cb[0]; F = ctx.facts(b)
        sends = [c for c in b.calls() if c.callee.endswith('oneshot::Sender::send')]
        if len(sends) < 2:
            r.lost(rule, 'close:sends', 'expected the pending and the queued completion in close, found %d' % len(sends))
        for i, c in enumerate(sends):
            v = F.sym_operand(c.args[1])
            txt = fmt_sym(b, v)
            # Err(<local>) where the local is the "BadConnectionClosed if status is good" value
            inner = v[4][0] if v[0] == 'agg' and v[3] == 'Err' and v[4] else None
            defs = []
            if inner is not None and inner[0] == 'place':
                root = inner[1]
                # coroutine-saved copies: follow the name
                nm = b.local_name(root).split('(')[0]
                for l in set(b.local_by_name(nm)) | {root}:
                    for d in b.defs().get(l, []):
                        if d[0] == 'stmt':
                            defs.append(fmt_sym(b, F.sym_rvalue(d[3], 0)))
            ok = 'request_status' in txt or any('BadConnectionClosed' in d for d in defs)
            if ok and not re.search(r'Err\{status\(', txt):
                r.ok(rule, 'close:send#%d' % i, 'completed with the connection-closed status (never with a Good status)', detail=txt[:100], loc=c.loc)
            else:
                r.fail(rule, 'close:send#%d' % i, 'a request is completed on close with the raw close status, which is Good on a graceful close', detail=txt[:120], loc=c.loc)
    tb = db.find_bodies(CORE + r'next_timeout$')
    if tb:
        b = tb[0]; F = ctx.facts(b)
        for c in [c for c in b.calls() if c.callee.endswith('oneshot::Sender::send')]:
            txt = fmt_sym(b, F.sym_operand(c.args[1]))
            if 'BadTimeout' in txt:
                r.ok(rule, 'next_timeout:send', 'an expired request is completed with BadTimeout', loc=c.loc)
            else:
                r.fail(rule, 'next_timeout:send', 'an expired request is not completed with BadTimeout', detail=txt[:100], loc=c.loc)
    # ---------------- insertion
    rule = 'registered-with-sender'
    nins = 0
    for b in db.find_bodies(r'^client::transport::'):
        F = None
        for c in b.calls():
            if c.callee.endswith('HashMap::insert') and c.args:
                F = F or ctx.facts(b)
                if fmt_sym(b, F.sym_operand(c.args[0])).endswith('.message_states'):
                    nins += 1
                    v = fmt_sym(b, F.sym_operand(c.args[2]))
                    if 'MessageState' in v and 'callback' in v or ('outgoing' in v and '@Some' in v):
                        r.ok(rule, 'insert', 'a pending request is registered together with the caller\'s sender', loc=c.loc)
                    else:
                        r.fail(rule, 'insert', 'a MessageState is registered without the caller\'s completion handle', detail=v[:160], loc=c.loc)
    if nins != 1:
        r.fail(rule, 'insert:count', 'expected exactly one registration site for pending requests, found %d' % nins)
    # ---------------- dropped sender -> error
    rule = 'dropped-sender-maps-to-error'
    sb = [b for b in db.find_bodies(r'^client::transport::state::Request::send::\{closure#0\}$')]
    if not sb:
        r.lost(rule, 'Request::send', 'Request::send coroutine not found')
    else:
        b = sb[0]; F = ctx.facts(b)
        errs = []
        for bb, si, pl in result_ctor_sites(b, 'Err'):
            st = b.stmts(bb)[si]
            op = st[2][4][0]
            if op[0] == 'k' and 'BadConnectionClosed' in op[1]:
                lits = F.literals_at(bb, si)
                errs.append(any(l[0] == 'variant' and l[2] == 'Err' and l[3] and ('poll' in fmt_sym(b, l[1]).lower() or 'Receiver' in fmt_sym(b, l[1])) for l, e in lits))
        if any(errs):
            r.ok(rule, 'Request::send:recv-error', 'a receive error (sender dropped) completes the request with Err(BadConnectionClosed)', loc=b.loc)
        else:
            r.fail(rule, 'Request::send:recv-error', 'a dropped completion handle is not mapped to an error result', loc=b.loc)
    # ---------------- unknown request id
    rule = 'unknown-id-ignored'
    pb = db.find_bodies(CORE + r'process_chunk$')
    if pb:
        b = pb[0]; F = ctx.facts(b)
        ok = False
        for bb, si, pl in result_ctor_sites(b, 'Ok'):
            lits = F.literals_at(bb, si)
            if any(l[0] == 'variant' and 'get_mut' in fmt_sym(b, l[1]) and 'message_states' in fmt_sym(b, l[1]) and ((l[2] == 'None' and l[3]) or (l[2] == 'Some' and not l[3])) for l, e in lits):
                ok = True
        if ok:
            r.ok(rule, 'process_chunk:unknown-id', 'a chunk for an unknown request id returns Ok(()) on the None edge of the lookup', loc=b.loc)
        else:
            r.fail(rule, 'process_chunk:unknown-id', 'chunks for unknown request ids are not ignored on the None edge of the lookup', loc=b.loc)
    else:
        r.lost(rule, 'process_chunk', 'client process_chunk not found')
    r.assumptions += ['tokio::sync::oneshot::Sender is not Clone and send(self) consumes it (library contract)']
    earliest_deadline(ctx)
    limit_after_reaping(ctx)


def earliest_deadline(ctx, rule='earliest-deadline'):
    """TransportState::next_timeout must hand back the EARLIEST deadline still pending (the sleep until the next expiry scan):
    the running value is replaced by a request's deadline only when it is None or later than that deadline, and a request is
    queued for BadTimeout exactly under deadline <= now"""
    from ..facts import fmt_lit
    r, db = ctx.r, ctx.db
    b = db.body('client::transport::core::TransportState::next_timeout')
    if b is None:
        r.lost(rule, 'next_timeout', 'TransportState::next_timeout not found'); return
    F = ctx.facts(b)
    nt = b.local_by_name('next_timeout')
    if not nt:
        r.lost(rule, 'next_timeout:local', 'local next_timeout not found'); return
    n = 0; probs = []
    DL = r'\.deadline$'; NOW = r'^Instant::now\(\)$|^now\(_\d+\)$'; CUR = r'^next_timeout\(_\d+\)@Some\.0$'
    def first_or_later(raw):
        t = [fmt_lit(b, l) for l in raw]
        return any(re.match(r'^next_timeout\(_\d+\) is None$', x) for x in t) or holds_order(b, raw, CUR, '>', DL)
    for d in b.defs().get(nt[0], []):
        if d[0] != 'stmt':
            continue
        sy = F.sym_rvalue(d[3], 0, d[1])
        if not (sy[0] == 'agg' and sy[3] == 'Some'):
            continue
        n += 1
        raw = [l for l, e in F.literals_at(d[1], d[2])]
        upd = first_or_later(raw)
        if not upd:
            # the decision may sit in a boolean local (`let is_earlier = match .. { .. }`): every way it can be true must be one of the two
            for l in raw:
                if l[0] == 'truth' and l[2] is True and l[1][0] == 'place' and not l[1][2] and b.locals[l[1][1]] == 'bool':
                    outs = local_bool_outcomes(b, F, l[1][1], True)
                    if outs and all(first_or_later(conj) for conj in outs):
                        upd = True
        pending = holds_order(b, raw, DL, '>', NOW)
        if not (upd and pending):
            probs.append('next_timeout is replaced by a deadline under [%s]' % '; '.join(fmt_lit(b, x)[-70:] for x in raw if 'deadline' in fmt_lit(b, x) or 'next_timeout' in fmt_lit(b, x)))
    pushes = [c for c in b.calls() if c.callee.endswith('Vec::push')]
    for c in pushes:
        n += 1
        raw = [l for l, e in F.literals_at(c.bb)]
        if not holds_order(b, raw, DL, '<=', NOW):
            probs.append('a request is queued for time-out without `deadline <= now`')
    if n < 2 or not pushes:
        r.lost(rule, 'sites', 'deadline updates / time-out queueing not recognised in next_timeout'); return
    if probs:
        r.fail(rule, 'next_timeout', 'the transport does not wake up at the earliest pending deadline: %s - a request whose deadline passed is only timed out when a later one expires '
               '(and a late response is still delivered as success)' % '; '.join(probs[:2]), loc=b.loc)
    else:
        r.ok(rule, 'next_timeout', 'the running minimum is replaced only by an earlier pending deadline; expired requests (deadline <= now) are queued for BadTimeout', loc=b.loc)
    r.count('deadline_sites', n)


def limit_after_reaping(ctx, rule='limit-after-reaping'):
    """wait_for_outgoing_message decides between "accept the next request" and "only wait for the next deadline" by comparing
    max_inflight with the number of requests in flight.  The count must be read after next_timeout() has completed (and
    removed) the requests whose deadline passed in this very wake-up: with a stale count the loop sleeps on a deadline that no
    longer exists while queued requests are never sent or timed out."""
    import re
    from ..facts import fmt_sym
    r, db = ctx.r, ctx.db
    bs = db.find_bodies(r'^client::transport::core::TransportState::wait_for_outgoing_message::\{closure#0\}$')
    if not bs:
        r.lost(rule, 'wait_for_outgoing_message', 'coroutine not found'); return
    b = bs[0]; F = ctx.facts(b)
    nt = [c for c in b.calls() if c.callee.endswith('TransportState::next_timeout')]
    lens = [c for c in b.calls() if re.search(r'(HashMap|BTreeMap)::len$', c.callee) and 'message_states' in fmt_sym(b, F.sym_operand(c.args[0]))]
    if len(nt) != 1 or not lens:
        r.lost(rule, 'calls', 'expected one next_timeout() call and a message_states.len() in wait_for_outgoing_message (found %d / %d)' % (len(nt), len(lens))); return
    for i, c in enumerate(lens):
        if b.dominates(nt[0].bb, c.bb) and c.bb != nt[0].bb:
            # and nothing that can change the table runs between the count and the decision: the count feeds a comparison in its own block chain
            r.ok(rule, 'len#%d' % i, 'the in-flight count is read after next_timeout() of the same iteration', loc=c.loc)
        else:
            r.fail(rule, 'len#%d' % i, 'the in-flight count compared with max_inflight is read before next_timeout() has reaped the expired requests: when all in-flight '
                   'requests expire together the loop waits on a deadline that no longer exists and queued requests are neither sent nor timed out', loc=c.loc)
