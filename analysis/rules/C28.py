"""C28 The reference index always matches the set of references - key discipline of the two maps (E2/E6)."""
import re
from ..rulelib import *
from ..facts import fmt_sym, fmt_lit

R = 'server::address_space::references::References::'
MAPOP = re.compile(r'(HashMap|BTreeMap)::(get_mut|remove|insert|entry|clear|retain|drain)$')
SETOP = re.compile(r'(HashSet|BTreeSet)::(insert|remove|clear|retain|drain)$')
VECOP = re.compile(r'Vec::(push|retain|remove|clear|insert|truncate|drain|swap_remove|pop)$')


def _is_param(b, sym, name):
    """sym is (a borrow / clone of) the parameter `name`"""
    s = sym
    for _ in range(6):
        if s[0] in ('ref', 'deref'):
            s = s[1]
        elif s[0] == 'call' and s[1].endswith('Clone::clone') and s[2]:
            s = s[2][0]
        else:
            break
    ps = b.local_by_name(name)
    return s[0] == 'place' and ps and s[1] == ps[0] and tuple(x for x in s[2] if x != '*') == ()


def _map_of(b, sym):
    t = fmt_sym(b, sym)
    if t.endswith('.references_map'):
        return 'fwd'
    if t.endswith('.referenced_by_map'):
        return 'inv'
    return None


def inverse_only_when_unreferenced(ctx, rule='inverse-only-when-unreferenced'):
    """the inverse entry of a target goes only when no reference from the source to it is left (shared with C29: node deletion
    finds the nodes to clean through the inverse index)"""
    r, db = ctx.r, ctx.db
    n = 0
    b = db.body(R + 'delete_reference')
    if b is not None:
        F = ctx.facts(b)
        diff_problem = []
        def derives_from_difference(local, depth=0, seen=None):
            seen = seen or set()
            if depth > 8 or local in seen:
                return False
            seen.add(local)
            for d in b.defs().get(local, []):
                ops = []
                if d[0] == 'call':
                    if d[2].callee.endswith('HashSet::difference'):
                        # "targets before minus targets after": sets of node ids, each built from the .target_node of the list's
                        # entries - a difference of whole references would also contain the targets that are still referenced
                        # through another reference type
                        full = getattr(d[2], 'callee_full', '') or ''
                        if 'HashSet::<types::node_id::NodeId>' not in full:
                            diff_problem.append('the before / after sets hold %s, not target node ids' % (re.search(r'HashSet::<([^>]*)>', full).group(1) if re.search(r'HashSet::<([^>]*)>', full) else full))
                            return True
                        for a_ in d[2].args:
                            t_ = F.sym_operand(a_)
                            cl = None
                            def find_map(s_):
                                nonlocal cl
                                if isinstance(s_, tuple) and s_:
                                    if s_[0] == 'call' and s_[1].endswith('Iterator::map') and len(s_[2]) == 2 and s_[2][1][0] == 'agg' and s_[2][1][1] == 'closure':
                                        cl = s_[2][1][2]; return
                                    for x_ in s_:
                                        find_map(x_)
                            find_map(t_)
                            if cl is None:
                                # the mapping may sit in a private helper applied to the list: look at what the helper returns
                                def find_helper(s_):
                                    if isinstance(s_, tuple) and s_:
                                        if s_[0] == 'call' and s_[1].startswith(R) and db.body(s_[1]) is not None:
                                            return s_[1]
                                        for x_ in s_:
                                            h_ = find_helper(x_)
                                            if h_:
                                                return h_
                                    return None
                                hp = find_helper(t_)
                                hb_ = db.body(hp) if hp else None
                                if hb_ is not None and 'HashSet<types::node_id::NodeId>' in hb_.locals[0]:
                                    Fh_ = ctx.facts(hb_)
                                    for d_ in hb_.defs().get(0, []):
                                        find_map(Fh_.sym_call(d_[2]) if d_[0] == 'call' else Fh_.sym_rvalue(d_[3], 0, d_[1]))
                            cb_ = db.body(cl) if cl else None
                            if cb_ is None:
                                diff_problem.append('a set of the difference is not built by mapping the reference list'); continue
                            Fc_ = ctx.facts(cb_)
                            vals = local_defs_fmt(cb_, Fc_, 0)
                            if not vals or not all(re.match(r'^Clone::clone\(&\(\*\w*\(?_2\)?\)\.target_node\)$', v_) for v_ in vals):
                                diff_problem.append('a set of the difference is built from %s, not from the target of each reference' % (vals or ['?'])[0][:80])
                        return True
                    ops = d[2].args
                elif d[0] == 'stmt':
                    rv = d[3]
                    ops = [rv[1]] if rv[0] in ('use', 'cast') else ([[ 'cp', rv[2]]] if rv[0] == 'ref' else [])
                for o in ops:
                    if o[0] in ('cp', 'mv') and derives_from_difference(o[1][0], depth + 1, seen):
                        return True
            return False
        rem = [c for c in virtual_calls(ctx, b, F, '^' + re.escape(R) + r'(?!delete_reference$)') if SETOP.search(c.callee) and c.callee.endswith('::remove') and c.args and 'referenced_by_map' in fmt_sym(b, c.args[0])]
        if not rem:
            r.lost(rule, 'inverse-remove', 'removal from an inverse set not found in delete_reference')
        for i, c in enumerate(rem):
            n += 1
            setsym = c.args[0]
            # key of the get_mut that produced the set
            keyroot = None
            def find_getmut(s_):
                if isinstance(s_, tuple) and s_:
                    if s_[0] == 'call' and s_[1].endswith('::get_mut') and len(s_[2]) == 2:
                        return s_[2][1]
                    for x in s_:
                        y = find_getmut(x)
                        if y is not None:
                            return y
                return None
            key = find_getmut(setsym)
            ok = None
            if key is not None:
                def find_iter_local(s_):
                    if isinstance(s_, tuple) and s_:
                        if s_[0] == 'call' and s_[1].endswith('Iterator::next') and s_[2]:
                            t = s_[2][0]
                            while t[0] in ('ref', 'deref'):
                                t = t[1]
                            if t[0] == 'place':
                                return t[1]
                        for x in s_:
                            y = find_iter_local(x)
                            if y is not None:
                                return y
                    return None
                il = find_iter_local(key)
                if il is not None and derives_from_difference(il):
                    if diff_problem:
                        r.fail(rule, 'inverse-remove#%d' % i, 'delete_reference takes the source out of inverse sets for the wrong targets: %s (two references of different types to one '
                               'target: deleting one hides the other from inverse lookups)' % '; '.join(diff_problem[:2]), loc=c.loc)
                        continue
                    ok = 'the key iterates over HashSet::difference(targets before, targets after)'
            if ok is None:
                for l, e in F.literals_at(c.root_bb):
                    t = fmt_lit(b, l)
                    if re.search(r'Iterator::any\(.*\) == False$', t) or re.search(r'(contains|has_reference)\(.*\) == False$', t):
                        ok = 'guarded by `%s`' % t[:80]
            if ok:
                r.ok(rule, 'inverse-remove#%d' % i, 'source_node leaves an inverse set only for targets it no longer references: ' + ok, loc=c.loc)
            else:
                r.fail(rule, 'inverse-remove#%d' % i, 'delete_reference removes the source from the inverse set of a target without establishing that no other '
                       'reference from the source to that target is left (two references of different types to one target: deleting one hides the other '
                       'from inverse lookups)', loc=c.loc)
    return n


def insert_complete(ctx, rule='insert-complete'):
    """an inserted reference is left out of the forward list only when an equal reference (same type AND same target) is already
    there: every condition guarding the push in insert_reference is one of the recognised ones, the duplicate test compares whole
    references, and Reference equality looks at both fields"""
    r, db = ctx.r, ctx.db
    b = db.body(R + 'insert_reference')
    if b is None:
        r.lost(rule, 'insert_reference', 'not found'); return 0
    F = ctx.facts(b)
    NEWREF = r'Reference::new\(Into::into\(Clone::clone\(&\(\*reference_type\(_\d+\)\)\)\), Clone::clone\(&\(\*target_node\(_\d+\)\)\)\)'
    n = 0

    def whole_ref_any(x):
        """Iterator::any(list.iter(), |r| ..) whose closure answers true only for an equal type and an equal target"""
        if not (x[0] == 'call' and x[1].endswith('Iterator::any') and len(x[2]) == 2 and x[2][1][0] == 'agg' and x[2][1][1] == 'closure'):
            return False
        outs = bool_fn_outcomes(ctx, x[2][1][2], True)
        cb = db.body(x[2][1][2])
        if not outs or cb is None:
            return False
        for conj in outs:
            t = [fmt_lit(cb, l) for l in conj]
            if not (any(re.search(r'\.reference_type eq ', y) or re.search(r' eq .*\.reference_type$', y) for y in t) and
                    any(re.search(r'\.target_node eq ', y) or re.search(r' eq .*\.target_node$', y) for y in t)):
                return False
        return True

    pushes = [c for c in b.calls() if c.callee.endswith('Vec::push')]
    if not pushes:
        r.lost(rule, 'push', 'no push into a reference list in insert_reference'); return 0
    for i, c in enumerate(pushes):
        n += 1
        bad = []
        for l, e in F.literals_at(c.bb):
            t = fmt_lit(b, l)
            if re.match(r'^source_node\(_\d+\) ne target_node\(_\d+\)$|^PartialEq::(eq|ne)\(&source_node\(_\d+\), &target_node\(_\d+\)\) == (False|True)$', t):
                continue      # a node may not reference itself: refused for every type alike
            if l[0] == 'variant' and l[2] in ('Some', 'None') and re.search(r'HashMap::(get_mut|get)\(&\(\*self\(_1\)\)\.references_map, &?\(?\*?source_node', fmt_sym(b, l[1]) if l[1][0] != 'place' else
                                                                        ' '.join(local_defs_fmt(b, F, l[1][1]))):
                continue      # whether the source already has a list
            if l[0] == 'truth' and l[2] is False and l[1][0] == 'call' and l[1][1].endswith('::contains') and re.search(r', &' + NEWREF + r'\)$', fmt_sym(b, l[1])):
                continue      # no equal reference (type and target) present
            if l[0] == 'truth' and l[2] is False and whole_ref_any(l[1]):
                continue
            bad.append(t)
        if bad:
            r.fail(rule, 'push#%d' % i, 'insert_reference leaves the new reference out of the forward list on a condition other than an equal reference (same type and target) '
                   'being present: [%s] - a second reference of another type to the same target is lost while the inverse index still records it' % '; '.join(x[:140] for x in bad[:2]), loc=c.loc)
        else:
            r.ok(rule, 'push#%d' % i, 'the push is skipped only for an equal reference already in the list', loc=c.loc)
    eqs = db.find_bodies(r'references::Reference as std::cmp::PartialEq>::eq$')
    n += 1
    if not eqs:
        r.lost(rule, 'Reference::eq', 'PartialEq for Reference not found')
    else:
        outs = bool_fn_outcomes(ctx, eqs[0].path, True) or []
        okeq = bool(outs)
        for conj in outs:
            t = [fmt_lit(eqs[0], l) for l in conj]
            if not (any('.reference_type eq ' in y for y in t) and any('.target_node eq ' in y for y in t)):
                okeq = False
        if okeq:
            r.ok(rule, 'Reference::eq', 'two references are equal only when type and target are both equal', loc=eqs[0].loc)
        else:
            r.fail(rule, 'Reference::eq', 'Reference equality does not compare both the reference type and the target node', loc=eqs[0].loc)
    return n


def run(ctx):
    r, db = ctx.r, ctx.db
    r.explanation = ('Key discipline of the reference index, a necessary condition of "deleting one reference never removes or hides a '
                     'different one" and of the forward / inverse maps agreeing: insert_reference(source, target, type) touches the forward '
                     'map only at key source (pushing Reference(type, target)) and the inverse map only at key target (inserting source); '
                     'delete_reference(source, target, type) touches the forward map only at key source, removes an entry of that list only '
                     'when both its type and its target are equal to the arguments, removes only `source` from inverse sets, and calls no '
                     'other method of References that mutates the maps. Read from MIR call arguments. The full invariant over histories '
                     '(set equality with the references added and not removed) is not decided.')
    r.rule_text = 'E2/E6 argument provenance of every map / set / list mutation in References::insert_reference and delete_reference'
    n = 0
    for fn, rule in (('insert_reference', 'insert-keys'), ('delete_reference', 'delete-keys')):
        b = db.body(R + fn)
        if b is None:
            r.lost(rule, fn, 'References::%s not found' % fn); continue
        F = ctx.facts(b)
        probs = []
        seen = {'fwd': 0, 'inv': 0}
        # private helpers of References are looked into: their map / set / list operations count as the function's own, with the
        # helper's parameters replaced by what the function passes
        for c in virtual_calls(ctx, b, F, '^' + re.escape(R) + r'(?!%s$)' % fn):
            a = c.args
            if MAPOP.search(c.callee) and a:
                m = _map_of(b, a[0])
                if m is None:
                    continue
                n += 1; seen[m] += 1
                op = c.callee.rsplit('::', 1)[-1]
                key = a[1] if len(a) > 1 else None
                if m == 'fwd':
                    if key is None or not _is_param(b, key, 'source_node'):
                        probs.append('references_map.%s is keyed by %s, not by source_node' % (op, fmt_sym(b, key)[:60] if key is not None else '-'))
                else:
                    if fn == 'insert_reference':
                        if key is None or not _is_param(b, key, 'target_node'):
                            probs.append('referenced_by_map.%s is keyed by %s, not by target_node' % (op, fmt_sym(b, key)[:60] if key is not None else '-'))
                    # delete_reference: the key is one of the targets that lost their last reference - any node but the value removed is checked below
            elif SETOP.search(c.callee) and a:
                t = fmt_sym(b, a[0])
                if 'referenced_by_map' in t or 'lookup' in t:
                    n += 1
                    op = c.callee.rsplit('::', 1)[-1]
                    if len(a) < 2 or not _is_param(b, a[1], 'source_node'):
                        probs.append('the inverse set %s(%s): only source_node may be added / removed' % (op, fmt_sym(b, a[1])[:60] if len(a) > 1 else '-'))
            elif VECOP.search(c.callee) and a:
                op = c.callee.rsplit('::', 1)[-1]
                n += 1
                if fn == 'insert_reference':
                    if op != 'push':
                        probs.append('insert_reference mutates a reference list with %s' % op)
                    else:
                        v = fmt_sym(b, a[1])
                        if not re.match(r'^Reference::new\(Into::into\(Clone::clone\(&\(\*reference_type\(_\d+\)\)\)\), Clone::clone\(&\(\*target_node\(_\d+\)\)\)\)$', v):
                            probs.append('the reference stored is %s, not Reference::new(reference_type, target_node)' % v[:100])
                elif op != 'retain':
                    probs.append('delete_reference mutates a reference list with %s' % op)
            elif c.callee.startswith(R) and not c.callee.endswith(fn):
                cal = db.body(c.callee)
                writes = cal is not None and any(MAPOP.search(x.callee) or SETOP.search(x.callee) or VECOP.search(x.callee) for x in cal.calls())
                writes = writes or any(MAPOP.search(x.callee) or VECOP.search(x.callee) for cb in db.find_bodies('^' + re.escape(c.callee) + r'::\{closure') for x in cb.calls())
                if writes:
                    probs.append('%s calls %s, which rewrites map entries of other nodes' % (fn, c.callee.rsplit('::', 1)[-1]))
        if not probs and (not seen['fwd'] or not seen['inv']):
            r.lost(rule, fn + ':maps', 'mutations of references_map / referenced_by_map not recognised in %s' % fn); continue
        if probs:
            r.fail(rule, fn, '%s breaks the key discipline of the reference index: %s' % (fn, '; '.join(probs[:3])), loc=b.loc)
        else:
            r.ok(rule, fn, '%s: forward map only at source_node, inverse sets only gain / lose source_node, no foreign rewrites' % fn, loc=b.loc)
    n += inverse_only_when_unreferenced(ctx)
    # the removal predicate of delete_reference
    rule = 'delete-predicate'
    cls = db.find_bodies(r'^' + re.escape(R) + r'delete_reference(::\{closure#\d+\})+$')
    pred = [b for b in cls if b.locals[0] == 'bool']
    if len(pred) != 1:
        r.lost(rule, 'retain-closure', 'expected exactly one bool closure (the retain predicate) in delete_reference, found %d' % len(pred))
    else:
        b = pred[0]; F = ctx.facts(b)
        falses = [(bi, si) for bi, blk in enumerate(b.blocks) if not blk['c'] for si, st in enumerate(blk['s'])
                  if st[0] == '=' and st[1] == [0, []] and st[2][0] == 'use' and st[2][1][0] == 'k' and st[2][1][1] in ('0', 'false')]
        if not falses:
            r.lost(rule, 'retain-closure:false', 'the predicate never answers false')
        for bi, si in falses:
            n += 1
            lits = [fmt_lit(b, l) for l, e in F.literals_at(bi, si)]
            ty = any(re.match(r'^\(\*r\(_\d+\)\)\.reference_type eq reference_type', x) for x in lits)
            tg = any(re.match(r'^\(\*r\(_\d+\)\)\.target_node eq target_node', x) for x in lits)
            if ty and tg:
                r.ok(rule, 'retain-closure@bb%d' % bi, 'an entry is dropped only when its type and its target both equal the arguments', loc=b.loc)
            else:
                r.fail(rule, 'retain-closure@bb%d' % bi, 'delete_reference drops list entries without comparing %s: other references of the node are deleted too'
                       % ' and '.join(x for x, ok in (('the reference type', ty), ('the target node', tg)) if not ok), loc=b.loc)
    n += insert_complete(ctx)
    r.count('index_mutations', n)
    r.floor('insert-keys', 'index_mutations', n, 12)
    # node deletion keeps the two maps in step as well (rule shared with C29)
    from .C29 import cleanup_complete
    cleanup_complete(ctx)
