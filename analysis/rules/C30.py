"""C30 Browsing in pages: bounded, single-use, invalidated continuation points (E2)."""
import re
from ..rulelib import *
from ..facts import fmt_sym, fmt_lit

FIELD = '.browse_continuation_points'


def run(ctx):
    r, db, cg = ctx.r, ctx.db, ctx.cg
    r.explanation = ('(i) bounded per session: the only insertion into Session.browse_continuation_points is the push_back in '
                     'add_browse_continuation_point, dominated by the exit edge of the eviction loop (len < max). (ii) single use: '
                     'find_browse_continuation_point returns either None or the value removed from the queue. (iii) invalidation: in '
                     'browse_next the lookup path is dominated by remove_expired_browse_continuation_points, and the release path calls '
                     'remove_browse_continuation_points and performs no lookup. Page-concatenation equality with an unlimited Browse is '
                     'value-level and not decided.')
    r.rule_text = 'E2 who-may-write, guard dominance and return-value provenance over MIR of server::session / services::view'
    # ---------------- (i)
    rule = 'bounded'
    writers = []
    for b in db.find_bodies(r'^server::'):
        F = None
        for c in b.calls():
            if re.search(r'VecDeque::(push_back|push_front|insert|append|extend)$', c.callee) and c.args:
                F = F or ctx.facts(b)
                if fmt_sym(b, F.sym_operand(c.args[0])).endswith(FIELD):
                    writers.append((b, c, F))
    if not writers:
        r.lost(rule, 'push', 'no insertion into browse_continuation_points found')
    for b, c, F in writers:
        key = 'push@' + b.path.rsplit('::', 1)[-1]
        if not b.path.endswith('Session::add_browse_continuation_point'):
            r.fail(rule, key, 'browse_continuation_points is also appended to in ' + b.path, loc=c.loc); continue
        lits = F.literals_at(c.bb)
        ok = [l for l, e in lits if l[0] == 'cmp' and l[1] in ('lt', 'le') and l[2][0] == 'len' and fmt_sym(b, l[2]).endswith(FIELD + ')') and place_ends_with(l[3], 'max_browse_continuation_points')]
        if ok:
            r.ok(rule, key, 'push only when `%s` (after the eviction loop)' % fmt_lit(b, ok[0]), loc=c.loc)
        else:
            r.fail(rule, key, 'a continuation point is stored without the queue length being known below max_browse_continuation_points', loc=c.loc)
    # ---------------- (ii)
    rule = 'single-use'
    b = db.body('server::session::Session::find_browse_continuation_point')
    if b is None:
        r.lost(rule, 'find', 'find_browse_continuation_point not found')
    else:
        F = ctx.facts(b)
        srcs = []
        for d in b.defs().get(0, []):
            if d[0] == 'call':
                srcs.append(d[2].callee.rsplit('::', 2)[-2] + '::' + d[2].callee.rsplit('::', 1)[-1] + '(' + fmt_sym(b, F.sym_operand(d[2].args[0])) + ')')
            elif d[0] == 'stmt':
                srcs.append(fmt_sym(b, F.sym_rvalue(d[3], 0)))
        good = [s_ for s_ in srcs if s_.startswith('VecDeque::remove(') and s_.rstrip(')').endswith(FIELD)]
        # `position(..)?` hands the None of the search straight on (Option's FromResidual)
        bad = [s_ for s_ in srcs if s_ not in good and 'None' not in s_ and not s_.startswith('FromResidual::from_residual(')]
        idx_ok = True; idx_txt = ''
        for d in b.defs().get(0, []):
            if d[0] == 'call' and d[2].callee.endswith('VecDeque::remove'):
                idx_txt = fmt_sym(b, F.sym_operand(d[2].args[1]))
                # the index must be the position of the match in a plain forward iteration of the same queue
                idx_ok = False
                if re.search(r'^Iterator::position\(.*\)@Some\.0$', idx_txt) or re.search(r'^Try::branch\(Iterator::position\(.*\)\)@Continue\.0$', idx_txt):
                    for pc in [c for c in b.calls() if c.callee.endswith('Iterator::position')]:
                        it = pc.args[0]
                        root = it[1][0]
                        for _ in range(4):
                            ds = b.defs().get(root, [])
                            if len(ds) == 1 and ds[0][0] == 'stmt' and ds[0][3][0] in ('ref', 'use'):
                                pl = ds[0][3][2] if ds[0][3][0] == 'ref' else ds[0][3][1][1]
                                root = pl[0]
                            else:
                                break
                        ds = b.defs().get(root, [])
                        if len(ds) == 1 and ds[0][0] == 'call' and ds[0][2].callee.endswith('VecDeque::iter') and \
                                fmt_sym(b, F.sym_operand(ds[0][2].args[0])).endswith(FIELD):
                            idx_ok = True
                        else:
                            idx_txt += ' over ' + (ds[0][2].callee if ds and ds[0][0] == 'call' else '?')
        if good and not bad and not idx_ok:
            r.fail(rule, 'find:index-provenance', 'the index given to remove() is not the position of the matching id in a forward iteration of the same queue: a different continuation point would be consumed', detail=idx_txt[:200], loc=b.loc)
        elif good and not bad:
            r.ok(rule, 'find:returns-removed', 'the continuation point handed out is the one removed from the queue (or None), at the index where its id matched', loc=b.loc)
        else:
            r.fail(rule, 'find:returns-removed', 'find_browse_continuation_point can return a continuation point that stays in the queue (reusable)', detail=str(srcs)[:200], loc=b.loc)
    # ---------------- (iii)
    rule = 'invalidation'
    b = db.body('server::services::view::ViewService::browse_next')
    if b is None:
        r.lost(rule, 'browse_next', 'not found')
    else:
        F = ctx.facts(b)
        exp = [c for c in b.calls() if c.callee.endswith('Session::remove_expired_browse_continuation_points')]
        rel = [c for c in b.calls() if c.callee.endswith('Session::remove_browse_continuation_points')]
        # the lookup happens in a closure constructed in browse_next: find its construction block
        look_blocks = []
        for bi, blk in enumerate(b.blocks):
            for st in blk['s']:
                if st[0] == '=' and st[2][0] == 'agg' and st[2][1] == 'closure':
                    cb = db.body(st[2][2])
                    if cb is not None:
                        inst = [i for i in cg.by_path.get(cb.path, [])]
                        reach = cg.reach(inst) if inst else {}
                        if any(db.instances[n].path.endswith('Session::find_browse_continuation_point') for n in reach):
                            look_blocks.append(bi)
        look_blocks += [c.bb for c in b.calls() if c.callee.endswith('find_browse_continuation_point') or c.callee.endswith('browse_from_continuation_point')]
        if not look_blocks or not exp:
            r.lost(rule, 'browse_next:lookup', 'lookup or remove_expired_browse_continuation_points call not found in browse_next')
        else:
            if all(any(b.dominates(e.bb, lb) for e in exp) for lb in look_blocks):
                r.ok(rule, 'browse_next:expire-before-lookup', 'continuation points invalidated by address space changes are removed before any lookup', loc=exp[0].loc)
            else:
                r.fail(rule, 'browse_next:expire-before-lookup', 'a continuation point can be looked up without expired ones having been removed first', loc=b.loc)
        if not rel:
            r.fail(rule, 'browse_next:release', 'release_continuation_points no longer removes the continuation points', loc=b.loc)
        else:
            lits = F.literals_at(rel[0].bb)
            rl = any(l[0] == 'truth' and l[2] is True and fmt_sym(b, l[1]).endswith('.release_continuation_points') for l, e in lits)
            no_lookup = not any(lb in b.reachable_blocks(rel[0].bb) for lb in look_blocks)
            if rl and no_lookup:
                r.ok(rule, 'browse_next:release', 'release=true removes the points and performs no lookup', loc=rel[0].loc)
            else:
                r.fail(rule, 'browse_next:release', 'the release path is not selected by release_continuation_points or still browses', loc=rel[0].loc)
    r.floor('C30', 'obligations', len(r.obls), 4)
    expiry_examines_all(ctx)
    modification_stamps(ctx)


def expiry_examines_all(ctx, rule='expiry-examines-all'):
    """remove_expired_browse_continuation_points looks at every stored point: all paths to its return pass the retain over
    the whole queue, whose predicate is is_valid_browse_continuation_point(point, address_space), which in turn compares the
    point's own timestamp with address_space.last_modified()"""
    r, db = ctx.r, ctx.db
    b = db.body('server::session::Session::remove_expired_browse_continuation_points')
    if b is None:
        r.lost(rule, 'remove_expired', 'remove_expired_browse_continuation_points not found'); return
    F = ctx.facts(b)
    rets = [c for c in b.calls() if c.callee.endswith('VecDeque::retain') and fmt_sym(b, F.sym_operand(c.args[0])).endswith(FIELD)]
    if len(rets) != 1:
        r.fail(rule, 'retain', 'expected exactly one retain over browse_continuation_points (found %d): expired points are not all examined' % len(rets), loc=b.loc)
    else:
        c = rets[0]
        reach = b.reachable_blocks(0, stop={c.bb})
        early = [bb for bb in b.return_blocks() if bb in reach and bb != c.bb]
        if early:
            r.fail(rule, 'retain', 'remove_expired_browse_continuation_points can return without examining the stored points (a path to the return avoids the '
                   'retain): a point issued before a modification survives', loc=b.loc)
        else:
            r.ok(rule, 'retain', 'every path to the return passes the retain over the whole queue', loc=c.loc)
    cls = db.find_bodies(r'^server::session::Session::remove_expired_browse_continuation_points(::\{closure#\d+\})*$')
    pred = [x for x in cls if x.locals[0] == 'bool']
    if len(pred) != 1:
        r.lost(rule, 'predicate', 'retain predicate not found')
    else:
        p = pred[0]; Fp = ctx.facts(p)
        ds = p.defs().get(0, [])
        srcs = [fmt_sym(p, Fp.sym_rvalue(d[3], 0, d[1])) if d[0] == 'stmt' else d[2].callee for d in ds]
        if srcs and all('is_valid_browse_continuation_point' in s_ for s_ in srcs):
            r.ok(rule, 'predicate', 'a point is kept exactly when is_valid_browse_continuation_point answers true for it', loc=p.loc)
        else:
            r.fail(rule, 'predicate', 'the retain predicate is %s, not the validity of the point itself' % srcs, loc=p.loc)
    vb = db.find_bodies(r'BrowseContinuationPoint::is_valid_browse_continuation_point$')
    if not vb:
        r.lost(rule, 'is_valid', 'is_valid_browse_continuation_point not found')
    else:
        v = vb[0]; Fv = ctx.facts(v)
        ds = v.defs().get(0, [])
        s_ = None
        if len(ds) == 1 and ds[0][0] == 'stmt':
            s_ = Fv.sym_rvalue(ds[0][3], 0, ds[0][1])
        elif len(ds) == 1 and ds[0][0] == 'call' and ds[0][2].callee.rsplit('::', 1)[-1] in ('ge', 'le', 'eq') and len(ds[0][2].args) == 2:
            s_ = ('bin', {'ge': 'Ge', 'le': 'Le', 'eq': 'Eq'}[ds[0][2].callee.rsplit('::', 1)[-1]], Fv.sym_operand(ds[0][2].args[0]), Fv.sym_operand(ds[0][2].args[1]))
        # either spelling: point >= last_modified, or last_modified <= point
        if s_ is not None and s_[0] == 'bin' and s_[1] == 'Le':
            s_ = ('bin', 'Ge', s_[3], s_[2])
        t = fmt_sym(v, s_) if s_ is not None else ''
        if s_ is not None and s_[0] == 'bin' and s_[1] in ('Ge', 'Eq') and (('address_space_last_modified' in fmt_sym(v, s_[2]) and 'last_modified(' in fmt_sym(v, s_[3])) or
                (s_[1] == 'Eq' and 'address_space_last_modified' in fmt_sym(v, s_[3]) and 'last_modified(' in fmt_sym(v, s_[2]))):
            r.ok(rule, 'is_valid', 'valid iff the point is not older than the last modification: %s' % t[:100], loc=v.loc)
        else:
            r.fail(rule, 'is_valid', 'is_valid_browse_continuation_point is not `point.address_space_last_modified >= address_space.last_modified()` (%s)' % t[:100], loc=v.loc)


def modification_stamps(ctx, rule='modification-stamps'):
    """"a continuation point is invalid after the address space changes", structural part: validity is decided by comparing
    the point's timestamp with AddressSpace.last_modified (rule expiry-examines-all), so every method of AddressSpace that
    changes the node map or the reference index must stamp: from each such mutation every path to the function's return passes
    update_last_modified() (directly or through a method that always stamps).  Mutation through the &mut NodeType handed out
    by find_node_mut (attribute writes) is not covered."""
    r, db = ctx.r, ctx.db
    AS = 'server::address_space::address_space::AddressSpace::'
    MUT_REF = re.compile(r'^server::address_space::references::References::(insert|insert_reference|insert_references|delete_reference|delete_node_references)$')
    MUT_MAP = re.compile(r'(HashMap|BTreeMap)::(insert|remove|clear|retain|drain)$')
    bodies = [b for b in db.find_bodies('^' + re.escape(AS)) if not re.search(r'::tests?::', b.path)]
    if not bodies:
        r.lost(rule, 'AddressSpace', 'no AddressSpace methods found'); return
    stamp = AS + 'update_last_modified'
    if db.body(stamp) is None:
        r.lost(rule, 'update_last_modified', 'AddressSpace::update_last_modified not found'); return
    # the stamp itself: last_modified := now
    sb = db.body(stamp); Fs = ctx.facts(sb)
    w = [fmt_sym(sb, Fs.sym_call(c)) for c in sb.calls() if c.dest[0] == 1 and c.dest[1] and c.dest[1][-1] == '.last_modified']
    w += [fmt_sym(sb, Fs.sym_rvalue(st[2], 0, bi)) for bi, blk in enumerate(sb.blocks) if not blk['c'] for st in blk['s']
          if st[0] == '=' and st[1][0] == 1 and st[1][1] and st[1][1][-1] == '.last_modified']
    if w and all(re.match(r'^Utc::now\(\)$|^DateTime::now\(\)$', x) for x in w):
        r.ok(rule, 'stamp', 'update_last_modified sets last_modified to the current time', loc=sb.loc)
    else:
        r.fail(rule, 'stamp', 'update_last_modified does not set last_modified to the current time (%s)' % w, loc=sb.loc)
    # who else writes last_modified
    for b in db.find_bodies_mentioning(r'last_modified', 'last_modified') if hasattr(db, 'find_bodies_mentioning') else []:
        if b.path == stamp or not b.path.startswith('server::address_space::address_space::') or re.search(r'::(new|default)$', b.path):
            continue
        for bi, blk in enumerate(b.blocks):
            for st in blk['s']:
                if st[0] == '=' and st[1][1] and st[1][1][-1] == '.last_modified':
                    r.fail(rule, 'other-writer:' + b.path.rsplit('::', 1)[-1], 'last_modified is also assigned in %s' % b.path, loc=b.loc)
    # functions that stamp on every path (fixpoint)
    always = {stamp}
    changed = True
    while changed:
        changed = False
        for b in bodies:
            if b.path in always or '{closure' in b.path:
                continue
            stops = {c.bb for c in b.calls() if c.callee in always}
            if not stops:
                continue
            reach = b.reachable_blocks(0, stop=stops)
            if not any(rb in reach and rb not in stops for rb in b.return_blocks()):
                always.add(b.path); changed = True
    n = 0
    for b in bodies:
        F = None
        for c in b.calls():
            kind = None
            if MUT_REF.search(c.callee):
                kind = c.callee.rsplit('::', 1)[-1]
            elif MUT_MAP.search(c.callee) and c.args:
                F = F or ctx.facts(b)
                t = fmt_sym(b, F.sym_operand(c.args[0]))
                if re.search(r'[._]node_map(\(_[\d.]+\))?$', t):
                    kind = 'node_map.' + c.callee.rsplit('::', 1)[-1]
            if kind is None:
                continue
            n += 1
            key = '%s:%s' % (re.sub(r'^' + re.escape(AS), '', b.path), kind)
            if '{closure' in b.path:
                r.lost(rule, key, 'the index is changed inside a closure: the stamp cannot be tied to it'); continue
            stops = {x.bb for x in b.calls() if x.callee in always and x.bb != c.bb}
            start = c.target
            if start is None:
                continue
            seen = set(); work = [start]
            while work:
                x = work.pop()
                if x in seen or x in stops or b.is_cleanup(x):
                    continue
                seen.add(x)
                work.extend(b.succ(x))
            if any(rb in seen for rb in b.return_blocks()):
                r.fail(rule, key, '%s changes the address space (%s) and can return without update_last_modified(): continuation points issued before the change '
                       'stay valid and BrowseNext serves a stale remainder' % (b.path.rsplit('::', 1)[-1], kind), loc=c.loc)
            else:
                r.ok(rule, key, 'every path from this change to the return stamps last_modified', loc=c.loc)
    r.count('address_space_mutations', n)
    r.floor(rule, 'address_space_mutations', n, 6)
