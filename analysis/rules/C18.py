"""C18 Certificate trust verdicts follow the configured trust store (E2 decision-path rule)."""
import re
from ..rulelib import *
from ..facts import fmt_sym, fmt_lit


def const_sites(body, name):
    """(bb, idx) where the StatusCode constant `name` is assigned to the return place"""
    out = []
    for bi, blk in enumerate(body.blocks):
        if blk['c']:
            continue
        for si, st in enumerate(blk['s']):
            if st[0] == '=' and st[1][0] == 0 and st[2][0] == 'use' and st[2][1][0] == 'k' and 'StatusCode' in st[2][1][2] and re.search(r'\b%s\b' % name, st[2][1][1]):
                out.append((bi, si))
    return out


def run(ctx):
    r, db = ctx.r, ctx.db
    r.explanation = ('Every return of StatusCode::Good from CertificateStore::validate_application_instance_cert is dominated by: the '
                     'certificate file being absent from the rejected directory; (file present in the trusted directory OR '
                     'trust_unknown_certs); the on-disk copy matching; a readable key length valid for the policy; and either '
                     'skip_verify_certs or all of (check_time off or time valid), (no hostname or hostname valid), (no application uri or '
                     'uri valid). store_rejected_cert is never followed by a Good verdict and precedes BadCertificateUntrusted.')
    r.rule_text = 'E2 decision-path rule: sets of switch edges without which the Good return is unreachable'
    rule = 'good-verdict-guards'
    bs = db.find_bodies(r'^crypto::certificate_store::CertificateStore::validate_application_instance_cert$')
    if not bs:
        r.lost(rule, 'validate_application_instance_cert', 'function not found'); return
    b = bs[0]; F = ctx.facts(b)
    goods = const_sites(b, 'Good')
    r.floor(rule, 'good_returns', len(goods), 2)
    # which local holds which directory path
    dir_of = {}
    for c in b.calls():
        m = re.search(r'CertificateStore::(rejected|trusted)_certs_dir$', c.callee)
        if m and not c.dest[1]:
            dir_of[c.dest[0]] = m.group(1)
    def exists_edge(kind, val):
        def pred(l):
            if l[0] != 'truth' or l[2] is not val or l[1][0] != 'call' or not l[1][1].endswith('Path::exists'):
                return False
            txt = fmt_sym(b, l[1])
            return any(('_%d)' % loc) in txt or ('(_%d' % loc) in txt for loc, k in dir_of.items() if k == kind)
        return pred
    def truth_of(rx, val):
        return lambda l: l[0] == 'truth' and l[2] is val and re.search(rx, fmt_sym(b, l[1]))
    def field_truth(field, val):
        return lambda l: l[0] == 'truth' and l[2] is val and place_ends_with(l[1], field)
    def not_bad(fn):
        return lambda l: l[0] == 'truth' and l[2] is False and 'is_bad' in fmt_sym(b, l[1]) and fn in fmt_sym(b, l[1])
    def is_none(param):
        # "nothing to compare with" is the parameter itself being None - not a value derived from it (a filtered / mapped option
        # would let a blank expectation switch the check off)
        return lambda l: l[0] == 'variant' and ((l[2] == 'None' and l[3]) or (l[2] == 'Some' and not l[3])) and re.match(r'^%s\(_\d+\)$' % param, fmt_sym(b, l[1]))
    for gi, (bb, si) in enumerate(goods):
        key = 'Good#%d' % gi
        lits = F.literals_at(bb, si)
        skip = any(field_truth('skip_verify_certs', True)(l) for l, e in lits)
        probs = []
        # a. not in rejected directory: the second exists() on the rejected path is false
        rej = [e for e in edges_where(F, exists_edge('rejected', False))]
        if not (rej and unreachable_without(b, bb, rej)):
            probs.append('certificate not known to be absent from the rejected directory')
        # b. trusted file exists or trust_unknown_certs
        tr = edges_where(F, exists_edge('trusted', True))
        # the first trusted exists() is the directory test (true edge continues); the file test is the later one
        tu = edges_where(F, field_truth('trust_unknown_certs', True))
        file_edges = [e for e in tr if any(exists_edge('trusted', True)(l) for l, _ in F.literals_at(e[0])) ] or tr
        if not ((file_edges or tu) and unreachable_without(b, bb, file_edges + tu)):
            probs.append('neither present in the trusted directory nor trust_unknown_certs')
        # c. same as on disk
        if not any(truth_of(r'ensure_cert_and_file_are_the_same', True)(l) for l, e in lits):
            probs.append('ensure_cert_and_file_are_the_same not known true')
        # d. key length
        if not any(truth_of(r'is_valid_keylength', True)(l) for l, e in lits):
            probs.append('is_valid_keylength not known true')
        if not any(l[0] == 'variant' and l[2] == 'Ok' and l[3] and 'key_length' in fmt_sym(b, l[1]) for l, e in lits):
            probs.append('key_length() not known Ok')
        # e. the remaining checks unless skip_verify_certs
        if not skip:
            for name, off, okp in (('time', edges_where(F, field_truth('check_time', False)), edges_where(F, not_bad('is_time_valid'))),
                                   ('hostname', edges_where(F, is_none('hostname')), edges_where(F, not_bad('is_hostname_valid'))),
                                   ('application uri', edges_where(F, is_none('application_uri')), edges_where(F, not_bad('is_application_uri_valid')))):
                if not (okp and unreachable_without(b, bb, off + okp)):
                    probs.append('%s check can be bypassed' % name)
        if probs:
            r.fail(rule, key, 'certificate accepted although: ' + '; '.join(probs), loc=b.loc)
        else:
            r.ok(rule, key, 'Good only after all trust-store and certificate checks' + (' (skip_verify_certs path)' if skip else ''), loc=b.loc)
    for fn, param in (('is_hostname_valid', 'hostname'), ('is_application_uri_valid', 'application_uri')):
        cs = [c for c in b.calls() if c.callee.endswith('X509::' + fn)]
        if len(cs) != 1:
            r.lost(rule, fn + ':arg', 'expected one call of %s' % fn); continue
        t = fmt_sym(b, F.sym_operand(cs[0].args[1]))
        if re.match(r'^(&\(\*)?%s\(_\d+\)@Some\.0\)?$' % param, t):
            r.ok(rule, fn + ':arg', '%s is given the expected %s supplied by the caller' % (fn, param), loc=cs[0].loc)
        else:
            r.fail(rule, fn + ':arg', '%s compares the certificate with %s, not with the caller\'s %s' % (fn, t[:80], param), loc=cs[0].loc)
    if len([1 for gi, (bb, si) in enumerate(goods) if any(field_truth('skip_verify_certs', True)(l) for l, e in F.literals_at(bb, si))]) != 1:
        r.fail(rule, 'Good:skip-path', 'expected exactly one Good return under skip_verify_certs == true', loc=b.loc)
    # store_rejected_cert
    rule = 'rejected-store'
    sr = [c for c in b.calls() if c.callee.endswith('CertificateStore::store_rejected_cert')]
    if not sr:
        r.lost(rule, 'store_rejected_cert', 'no call of store_rejected_cert')
    for c in sr:
        after = b.reachable_blocks(c.target) if c.target is not None else set()
        if any(bb in after for bb, si in goods):
            r.fail(rule, 'store_rejected_cert:then-good', 'a certificate stored as rejected can still be accepted (Good reachable after store_rejected_cert)', loc=c.loc)
        else:
            r.ok(rule, 'store_rejected_cert:then-good', 'no Good verdict is reachable after store_rejected_cert', loc=c.loc)
    unt = const_sites(b, 'BadCertificateUntrusted')
    if not unt:
        r.lost(rule, 'BadCertificateUntrusted', 'no BadCertificateUntrusted return')
    for bb, si in unt:
        if any(b.dominates(c.bb, bb) for c in sr):
            r.ok(rule, 'untrusted:stored', 'BadCertificateUntrusted is returned only after the certificate was stored as rejected', loc=b.loc)
        else:
            r.fail(rule, 'untrusted:stored', 'BadCertificateUntrusted is returned without storing the certificate in the rejected directory', loc=b.loc)
    r.assumptions += ['file-system and X.509 parsing semantics (std::path, openssl) are trusted']
    time_window(ctx)


def time_window(ctx, rule='time-window'):
    """X509::is_time_valid answers Good only when both `now < not_before` and `now > not_after` were tested false on the full
    timestamps: the operands of the two comparisons are the `now` argument itself and the not_before() / not_after() results
    themselves (no date-only or otherwise truncated view)"""
    import json
    r, db = ctx.r, ctx.db
    b = db.body('crypto::x509::X509::is_time_valid')
    if b is None:
        r.lost(rule, 'is_time_valid', 'not found'); return
    F = ctx.facts(b)
    goods = [(bi, si) for bi, blk in enumerate(b.blocks) if not blk['c'] for si, st in enumerate(blk['s'])
             if st[0] == '=' and st[1] == [0, []] and 'StatusCode::Good' in json.dumps(st[2])]
    if not goods:
        r.lost(rule, 'Good', 'no Good verdict in is_time_valid'); return
    NB = r'X509::not_before\(&\(\*self\(_1\)\)\)@Ok\.0'
    NA = r'X509::not_after\(&\(\*self\(_1\)\)\)@Ok\.0'
    NOW = r'\(\*now\(_2\)\)'
    for i, (bi, si) in enumerate(goods):
        lits = [fmt_lit(b, l) for l, e in F.literals_at(bi, si)]
        lo = any(re.match(r'^PartialOrd::lt\(&%s, &%s\) == False$' % (NOW, NB), x) or re.match(r'^PartialOrd::(ge)\(&%s, &%s\) == True$' % (NOW, NB), x) or
                 re.match(r'^PartialOrd::(gt)\(&%s, &%s\) == False$' % (NB, NOW), x) or re.match(r'^PartialOrd::(le)\(&%s, &%s\) == True$' % (NB, NOW), x) for x in lits)
        hi = any(re.match(r'^PartialOrd::gt\(&%s, &%s\) == False$' % (NOW, NA), x) or re.match(r'^PartialOrd::(le)\(&%s, &%s\) == True$' % (NOW, NA), x) or
                 re.match(r'^PartialOrd::(lt)\(&%s, &%s\) == False$' % (NA, NOW), x) or re.match(r'^PartialOrd::(ge)\(&%s, &%s\) == True$' % (NA, NOW), x) for x in lits)
        if lo and hi:
            r.ok(rule, 'Good#%d' % i, 'Good only when not_before <= now <= not_after, compared on the full timestamps', loc=b.loc)
        else:
            r.fail(rule, 'Good#%d' % i, 'is_time_valid answers Good without having compared the full `now` timestamp with %s: a certificate outside its validity period '
                   '(by less than the granularity compared) is trusted' % ' and '.join(x for x, ok in (('not_before()', lo), ('not_after()', hi)) if not ok), loc=b.loc)
    r.count('time_window_sites', len(goods))
    r.floor(rule, 'time_window_sites', len(goods), 1)
