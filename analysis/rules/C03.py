"""C03 Configured decoding limits are enforced exactly (E2)."""
from .decode_common import *


def run(ctx):
    r = ctx.r
    r.explanation = ('Every allocation in the decoder-reachable instance set whose size is not a constant must be dominated '
                     'by the accepting edge of a strict `size > DecodingOptions.FIELD` comparison with the field the limits table '
                     'assigns to that decoder (a length equal to the limit is accepted, limit+1 is rejected), the raw signed '
                     'length must be known non-negative there, and no decoder outside the table may allocate from an '
                     'input-dependent size ("regardless of nesting": nested values are decoded by these same functions).')
    r.rule_text = 'E2 guard dominance over MIR: allocation call sites x (operator, operand, limit field) of the dominating switch edge'
    n = check_allocations(ctx, exact=True, rule='limit-exact')
    r.floor('limit-exact', 'limit_sites', n, 6)
    r.assumptions += ['the limit fields of DecodingOptions are not changed between the comparison and the allocation by another thread',
                      'TcpCodec frame-size limit is checked under C10']
