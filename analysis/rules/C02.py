"""C02 Decoding arbitrary bytes never panics, overflows the stack or over-allocates."""
from .decode_common import *
from ..panics import run_e1


def run(ctx):
    r = ctx.r
    r.explanation = ('(a) E4/W1: after removing every call edge that executes under a successfully obtained, still-alive '
                     'DecodingOptions::depth_lock(), the instance call graph reachable from all decode entry points is acyclic, '
                     'and DepthLock::obtain only succeeds under a comparison with max_depth. (b) every input-sized allocation '
                     'in that set is dominated by a limit comparison. (c) E1: every panic site in that set has a disposition.')
    r.rule_text = 'instance-level SCCs x depth-lock dominance; allocation guard dominance; panic-site dispositions'
    check_recursion(ctx)
    n = check_allocations(ctx, exact=False)
    r.floor('alloc-limit', 'allocation_sites', n, 6)
    # (c) E1 over the decoder reachable set; 64-bit products of input values are included (wide=True)
    run_e1(ctx, DECODE_ROOTS, rule='E1-panic', wide='mul')
    r.floor('W1-depth-lock', 'decoder_sccs', r.counts.get('decoder_sccs', 0), 2)
    r.floor('W1-depth-lock', 'depth_lock_sites', r.counts.get('depth_lock_sites', 0), 2)
    # allocation bound at the frame layer: the decoder must not wait for (= buffer) a frame larger than the limit (rule shared with C10)
    from .C10 import codec_wait_bounded
    codec_wait_bounded(ctx)
