"""C06 Implicit Variant conversion never changes a numeric value (cast lattice + guards)."""
import re
from ..rulelib import *
from ..rulelib import eval_sym, NoEval
from ..facts import fmt_sym, fmt_lit

INT = {'i8': (True, 8), 'i16': (True, 16), 'i32': (True, 32), 'i64': (True, 64), 'isize': (True, 64), 'i128': (True, 128),
       'u8': (False, 8), 'u16': (False, 16), 'u32': (False, 32), 'u64': (False, 64), 'usize': (False, 64), 'u128': (False, 128)}
FLOAT = {'f32': 24, 'f64': 53}


def classify(frm, to):
    """'ok' value preserving for every input, 'needs_nonneg' signed->unsigned of sufficient width,
    'needs_range' anything that can change the value"""
    if frm in INT and to in INT:
        fs, fw = INT[frm]; ts, tw = INT[to]
        if fs == ts:
            return 'ok' if tw >= fw else 'needs_range'
        if not fs and ts:
            return 'ok' if tw > fw else 'needs_range'
        # signed -> unsigned
        return 'needs_nonneg' if tw >= fw - 1 else 'needs_range'
    if frm in INT and to in FLOAT:
        return 'ok'      # nearest representable value by IEEE; the standard's implicit table allows it
    if frm == 'f32' and to == 'f64':
        return 'ok'
    if frm == to:
        return 'ok'
    if frm in ('bool',) and (to in INT):
        return 'ok'
    return 'needs_range'


def numeric_casts(body):
    for bi, blk in enumerate(body.blocks):
        if blk['c']:
            continue
        for si, st in enumerate(blk['s']):
            if st[0] == '=' and st[2][0] == 'cast' and st[2][1] in ('IntToInt', 'IntToFloat', 'FloatToFloat', 'FloatToInt'):
                yield bi, si, st


def run(ctx):
    r, db = ctx.r, ctx.db
    r.explanation = ('(a) Variant::convert: every numeric cast instruction in the function body is classified by the '
                     '(signedness,width) lattice; value-preserving casts pass, a signed->unsigned cast of sufficient width '
                     'must be dominated by the false edge of `v < 0`, every other cast (narrowing, u->i of same width, float->int) '
                     'is a violation because the property says an out-of-range value yields no result. '
                     '(b) Variant::cast: every cast that can change the value must be dominated by the `valid` edge of a range '
                     'test or be a widening one. Decides the cast structure, not float rounding.')
    r.rule_text = 'cast lattice over MIR Rvalue::Cast statements + dominance of the non-negative guard'
    rule = 'implicit-cast-lattice'
    bs = db.find_bodies(r'^types::variant::Variant::convert$')
    if not bs:
        r.lost(rule, 'Variant::convert', 'Variant::convert not found'); return
    b = bs[0]; F = ctx.facts(b)
    n = 0
    ord_ = {}
    for bi, si, st in numeric_casts(b):
        frm, to = st[2][3], st[2][4]
        loc = st[3]
        if isinstance(loc, dict) and any(c not in ('opcua', 'core', 'std', 'alloc') for _, c in loc.get('x', [])):
            continue
        n += 1
        cls = classify(frm, to)
        k0 = 'convert:%s->%s' % (frm, to)
        ord_[k0] = ord_.get(k0, 0) + 1
        key = '%s#%d' % (k0, ord_[k0] - 1)
        where = '%s:%s' % (loc['f'], loc['l']) if isinstance(loc, dict) else str(loc)
        v = F.sym_operand(st[2][2])
        if '@StatusCode' in fmt_sym(b, v) and frm == 'u32' and to == 'i32':
            # one named exemption: a StatusCode is a 32-bit pattern, not a number; Part 4 converts it by copying the bits
            r.ok(rule, key, 'StatusCode bits copied to %s (bit pattern, not a numeric value)' % to, status='safe-by-review', loc=where)
            continue
        if cls == 'ok':
            r.ok(rule, key, 'value-preserving cast %s -> %s' % (frm, to), loc=where)
        elif cls == 'needs_nonneg':
            lits = F.literals_at(bi, si)
            z = ('k', '0', frm)
            h = F.cmp_holds(lits, 'ge', v, z)
            if h:
                r.ok(rule, key, 'signed->unsigned cast %s -> %s under `%s`' % (frm, to, fmt_lit(b, h[0]) if h[0] != 'const' else 'const'), loc=where)
            else:
                r.fail(rule, key, 'implicit conversion %s -> %s casts a possibly negative value (no dominating `v < 0` rejection)' % (frm, to),
                       detail='operand ' + fmt_sym(b, v), loc=where)
        else:
            # a range guard that proves the value fits would be acceptable: v <= MAX (and v >= 0)
            lits = F.literals_at(bi, si)
            fits = False
            if frm in INT and to in INT:
                ts, tw = INT[to]
                tmax = (1 << (tw - (1 if ts else 0))) - 1
                tmin = -(1 << (tw - 1)) if ts else 0
                hi = F.cmp_holds(lits, 'le', v, ('k', str(tmax), frm))
                lo = (not INT[frm][0]) or F.cmp_holds(lits, 'ge', v, ('k', str(tmin), frm))
                fits = bool(hi and lo)
            if fits:
                r.ok(rule, key, 'narrowing cast %s -> %s under a dominating range test' % (frm, to), loc=where)
            else:
                r.fail(rule, key, 'implicit conversion %s -> %s can change the value (wrapping/truncating cast on the success path)' % (frm, to),
                       detail='operand ' + fmt_sym(b, v), loc=where)
    r.floor(rule, 'convert_casts', n, 55)

    # (b) explicit cast: Variant::cast
    rule2 = 'explicit-cast-guard'
    bs = db.find_bodies(r'^types::variant::Variant::cast$')
    if not bs:
        r.lost(rule2, 'Variant::cast', 'Variant::cast not found'); return
    b = bs[0]; F = ctx.facts(b)
    m = 0; ord_ = {}
    for bi, si, st in numeric_casts(b):
        frm, to = st[2][3], st[2][4]
        loc = st[3]
        cls = classify(frm, to)
        if cls == 'ok':
            continue
        m += 1
        k0 = 'cast:%s->%s' % (frm, to)
        ord_[k0] = ord_.get(k0, 0) + 1
        key = '%s#%d' % (k0, ord_[k0] - 1)
        where = '%s:%s' % (loc['f'], loc['l']) if isinstance(loc, dict) else str(loc)
        lits = F.literals_at(bi, si)
        # accepted: the cast is the range test itself (its result only feeds comparisons), or it is dominated by the
        # true edge of a bool local named `valid`
        dom_valid = [l for l, e in lits if l[0] == 'truth' and l[2] is True and 'valid' in fmt_sym(b, l[1])]
        dom_cmp = [l for l, e in lits if l[0] == 'cmp']
        if dom_valid or dom_cmp:
            r.ok(rule2, key, 'value-changing cast %s -> %s is dominated by a range decision (%s)' % (frm, to, fmt_lit(b, (dom_valid or dom_cmp)[0])), loc=where)
        else:
            # bound computations `$to::MIN as $from` are casts of constants
            v = F.sym_operand(st[2][2])
            if F.const_int(v) is not None or v[0] == 'k':
                r.ok(rule2, key, 'cast of a constant bound', loc=where)
            else:
                r.fail(rule2, key, 'explicit cast %s -> %s is not dominated by a range test' % (frm, to), detail='operand ' + fmt_sym(b, v), loc=where)
    r.count('cast_value_changing_casts', m)
    # (b2) a float -> integer `as` cast saturates; used as its own range test it is only sound when the bound it is compared
    # with lies strictly inside the range of the intermediate integer type
    rule3 = 'float-range-decision'
    nd = 0; ords = {}
    for v in b.local_by_name('valid'):
        for d in b.defs().get(v, []):
            if d[0] != 'stmt':
                continue
            s_ = F.sym_rvalue(d[3], 0, d[1])
            if s_[0] != 'bin' or s_[1] not in ('Le', 'Lt', 'Ge', 'Gt'):
                continue
            L, R_ = s_[2], s_[3]
            if not (L[0] == 'cast' and L[-2] in ('f64', 'f32') and L[-1] in ('u64', 'i64')):
                continue
            nd += 1
            try:
                K = eval_sym(R_, lambda x: None)
            except NoEval:
                K = None
            mid = L[-1]
            src = L[-2]
            # which target type: read from the bound's own cast
            tgt = R_[-2] if R_[0] == 'cast' else '?'
            k0 = '%s->%s:%s' % (src, tgt, s_[1])
            ords[k0] = ords.get(k0, 0) + 1
            key = 'range:%s#%d' % (k0, ords[k0] - 1)
            sound = K is not None and ((mid == 'u64' and ((s_[1] == 'Le' and K < 2 ** 64 - 1) or (s_[1] == 'Lt' and K <= 2 ** 64 - 1))) or
                                       (mid == 'i64' and ((s_[1] == 'Ge' and K > -2 ** 63) or (s_[1] == 'Gt' and K >= -2 ** 63))))
            if sound:
                r.ok(rule3, key, '`(x as %s) %s %s`: the bound lies inside the saturating range, so an out-of-range float fails the test' % (mid, s_[1], K), loc=b.loc)
            else:
                r.fail(rule3, key, 'the range test of the explicit %s -> %s cast compares `(x as %s)` with %s, the value the cast itself saturates to: '
                       'a float beyond the %s range passes the test and is returned as the saturated number' % (src, tgt, mid, K, tgt), loc=b.loc)
    r.count('float_range_tests', nd)
    r.floor(rule3, 'float_range_tests', nd, 12)
    # every float -> integer cast in Variant::cast is one of: the operand of such a range test, dominated by a `valid` flag,
    # dominated by float-domain bounds on the same operand, or the 0/1 test of a bool cast
    rule4 = 'float-cast-accounted'
    nf = 0; ords = {}
    range_operands = set()
    for v in b.local_by_name('valid'):
        for d in b.defs().get(v, []):
            if d[0] == 'stmt':
                s_ = F.sym_rvalue(d[3], 0, d[1])
                if s_[0] == 'bin' and s_[2][0] == 'cast':
                    range_operands.add((d[1], s_[2]))
    for bi, si, st in numeric_casts(b):
        if st[2][1] != 'FloatToInt':
            continue
        nf += 1
        frm, to = st[2][3], st[2][4]
        k0 = '%s->%s' % (frm, to)
        ords[k0] = ords.get(k0, 0) + 1
        key = 'float-cast:%s#%d' % (k0, ords[k0] - 1)
        op = F.sym_operand(st[2][2])
        me = ('cast', op, frm, to)
        lits = F.literals_at(bi, si)
        if any(l[0] == 'truth' and l[2] is True and 'valid' in fmt_sym(b, l[1]) for l, e in lits):
            r.ok(rule4, key, 'dominated by the valid flag of its range test', loc=b.loc); continue
        # float-domain bounds on the operand
        def fconst(x):
            if x[0] == 'k':
                m_ = re.match(r'^(-?[0-9.eE+]+)(f32|f64)?$', x[1])
                if m_:
                    try:
                        v_ = float(m_.group(1))
                    except ValueError:
                        return None
                    if m_.group(2) == 'f32':
                        # the extractor prints f32 constants with 9 significant digits: take the f32 value they denote
                        import struct
                        v_ = struct.unpack('f', struct.pack('f', v_))[0]
                    return v_
            return None
        tmin, tmax = {'i64': (-2.0 ** 63, 2.0 ** 63), 'u64': (0.0, 2.0 ** 64), 'i32': (-2.0 ** 31, 2.0 ** 31), 'u32': (0.0, 2.0 ** 32)}.get(to, (None, None))
        lo = hi = False
        for l, e in lits:
            if l[0] != 'cmp':
                continue
            opn, a_, b_ = l[1], l[2], l[3]
            if b_ == op and a_ != op:     # constant on the left: flip
                opn = {'lt': 'gt', 'le': 'ge', 'gt': 'lt', 'ge': 'le'}.get(opn, opn); a_, b_ = b_, a_
            if a_ != op:
                continue
            c_ = fconst(b_)
            if c_ is None or tmin is None:
                continue
            if (opn == 'ge' and c_ >= tmin) or (opn == 'gt' and c_ >= tmin - 1):
                lo = True
            if (opn == 'lt' and c_ <= tmax) or (opn == 'le' and c_ < tmax):
                hi = True
        if lo and hi:
            r.ok(rule4, key, 'dominated by float-domain bounds inside the range of %s' % to, loc=b.loc); continue
        # operand of a comparison only (range test or bool test): the destination feeds a bin comparison in the same block chain
        dst = st[1]
        uses_cmp = False
        for sj, st2 in enumerate(b.stmts(bi)[si + 1:], si + 1):
            if st2[0] == '=' and st2[2][0] == 'bin' and st2[2][1] in ('Le', 'Lt', 'Ge', 'Gt', 'Eq', 'Ne') and any(o[0] in ('cp', 'mv') and o[1] == dst for o in (st2[2][2], st2[2][3])):
                uses_cmp = True
        t = b.term(bi)
        if t[0] == 'switch' and t[1][0] in ('cp', 'mv') and t[1][1] == dst:
            uses_cmp = True
        if uses_cmp:
            r.ok(rule4, key, 'the cast result only feeds a comparison (range or 0/1 test)', loc=b.loc)
        else:
            r.fail(rule4, key, 'float -> %s cast in Variant::cast whose result is used without a range decision on that value (a saturating cast changes the number)' % to,
                   detail='operand ' + fmt_sym(b, op)[:100], loc=b.loc)
    r.count('float_casts', nf)
