"""C17 Signature data verifies exactly when made by the right key over the right data (E6 + E2)."""
import re
from ..rulelib import *
from ..facts import fmt_sym, fmt_lit
from ..tables import match_table

SP = 'crypto::security_policy::SecurityPolicy::'


def run(ctx):
    r, db = ctx.r, ctx.db
    r.explanation = ('create_signature_data and verify_signature_data build the signed bytes with the same helper and argument order '
                     '(certificate bytes, then nonce) and hand exactly that buffer to asymmetric_sign / asymmetric_verify_signature; the '
                     'verification key comes from the signing certificate; Good is returned only on the Ok edge of the verification; '
                     'for every policy asymmetric_sign and asymmetric_verify_signature select the matching primitive pair, and each '
                     'sign_X / verify_X pair of the key types uses the same (digest, padding). Cryptographic soundness is trusted.')
    r.rule_text = 'E6 sibling agreement of call-argument provenance and match-arm tables; E2 guard dominance'
    rule = 'signed-data-agreement'
    cb = db.body('crypto::create_signature_data'); vb = db.body('crypto::verify_signature_data')
    if cb is None or vb is None:
        r.lost(rule, 'functions', 'create_signature_data / verify_signature_data not found'); return
    info = {}
    for name, b, certp, noncep, prim in (('create', cb, 'contained_cert', 'nonce', 'asymmetric_sign'), ('verify', vb, 'contained_cert', 'contained_nonce', 'asymmetric_verify_signature')):
        F = ctx.facts(b)
        cc = [c for c in b.calls() if c.callee.endswith('concat_data_and_nonce')]
        pc = [c for c in b.calls() if c.callee == SP + prim]
        if len(cc) != 1 or len(pc) != 1:
            r.lost(rule, name + ':calls', 'expected one concat_data_and_nonce and one %s call in %s_signature_data' % (prim, name)); continue
        a0, a1 = fmt_sym(b, F.sym_operand(cc[0].args[0])), fmt_sym(b, F.sym_operand(cc[0].args[1]))
        order_ok = certp in a0 and noncep in a1 and noncep not in a0
        key = name + ':concat-order'
        if order_ok:
            r.ok(rule, key, 'signed bytes = concat(certificate, nonce)', detail='%s | %s' % (a0[:80], a1[:80]), loc=cc[0].loc)
        else:
            r.fail(rule, key, '%s_signature_data does not build the signed bytes as concat(certificate, nonce)' % name, detail='%s | %s' % (a0[:100], a1[:100]), loc=cc[0].loc)
        d = fmt_sym(b, F.sym_operand(pc[0].args[2]))
        key = name + ':data'
        if 'concat_data_and_nonce' in d:
            r.ok(rule, key, '%s operates on the concatenated buffer' % prim, loc=pc[0].loc)
        else:
            r.fail(rule, key, '%s does not operate on the concat(certificate, nonce) buffer' % prim, detail=d[:120], loc=pc[0].loc)
        info[name] = (b, F, pc[0])
    if 'verify' in info:
        b, F, pc = info['verify']
        k = fmt_sym(b, F.sym_operand(pc.args[1]))
        if 'signing_cert' in k and 'public_key' in k:
            r.ok(rule, 'verify:key', 'verification key is the public key of the signing certificate', loc=pc.loc)
        else:
            r.fail(rule, 'verify:key', 'the verification key does not come from signing_cert.public_key()', detail=k[:120], loc=pc.loc)
        sg = fmt_sym(b, F.sym_operand(pc.args[3]))
        if 'signature' in sg:
            r.ok(rule, 'verify:signature-arg', 'the signature bytes of the SignatureData are what is verified', loc=pc.loc)
        else:
            r.fail(rule, 'verify:signature-arg', 'asymmetric_verify_signature is not given the signature bytes', detail=sg[:100], loc=pc.loc)
        goods = [(bi, si) for bi, blk in enumerate(b.blocks) if not blk['c'] for si, st in enumerate(blk['s'])
                 if st[0] == '=' and st[2][0] == 'use' and st[2][1][0] == 'k' and 'StatusCode' in st[2][1][2] and re.search(r'\bGood\b', st[2][1][1])]
        if not goods:
            r.lost(rule, 'verify:Good', 'no Good value in verify_signature_data')
        for bi, si in goods:
            lits = F.literals_at(bi, si)
            if any(l[0] == 'variant' and l[2] == 'Ok' and l[3] and 'asymmetric_verify_signature' in fmt_sym(b, l[1]) for l, e in lits):
                r.ok(rule, 'verify:Good', 'Good only on the Ok edge of asymmetric_verify_signature', loc=b.loc)
            else:
                r.fail(rule, 'verify:Good', 'verify_signature_data returns Good without the signature verification having succeeded', loc=b.loc)
    # the helper both sides share: the buffer is the whole `data` followed by the whole `nonce`, nothing else
    hb = db.body('crypto::concat_data_and_nonce')
    if hb is None:
        r.lost(rule, 'concat:helper', 'crypto::concat_data_and_nonce not found')
    else:
        Fh = ctx.facts(hb)
        order = {b_: i for i, b_ in enumerate(sorted(hb.reachable_blocks(0)))}
        ext = [c for c in hb.calls() if re.search(r'Vec::(extend_from_slice|extend|append|push|insert|truncate|drain|split_off|resize)$', c.callee)]
        ext.sort(key=lambda c: min(i for i, b_ in enumerate(hb.blocks) if i == c.bb))
        args = [(c.callee.rsplit('::', 1)[-1], fmt_sym(hb, Fh.sym_operand(c.args[1])) if len(c.args) > 1 else '') for c in ext]
        dp = hb.local_by_name('data'); np_ = hb.local_by_name('nonce')
        want = [('extend_from_slice', '&(*data(_%d))' % dp[0] if dp else '?'), ('extend_from_slice', '&(*nonce(_%d))' % np_[0] if np_ else '?')]
        # extend_from_slice(buffer, data): data is already a reference parameter, so the operand is the parameter itself
        norm = [(k, a.replace('&(*', '').replace('))', ')')) for k, a in args]
        wantn = [(k, a.replace('&(*', '').replace('))', ')')) for k, a in want]
        others = [c.callee for c in hb.calls() if not re.search(r'Vec::(with_capacity|extend_from_slice)$|slice.*::len$|::len$', c.callee)]
        if norm == wantn and not others and hb.dominates(ext[0].bb, ext[1].bb):
            r.ok(rule, 'concat:helper', 'concat_data_and_nonce = data ++ nonce, both whole', loc=hb.loc)
        else:
            r.fail(rule, 'concat:helper', 'concat_data_and_nonce does not append exactly the whole data and then the whole nonce (appends %s, other calls %s): part of the '
                   'certificate or nonce is not covered by the signature' % (args, [o.rsplit('::', 1)[-1] for o in others]), loc=hb.loc)
    # the verdict variable of asymmetric_verify_signature is the primitive's boolean on every arm
    avb = db.body(SP + 'asymmetric_verify_signature')
    if avb is not None:
        Fv = ctx.facts(avb)
        oks = result_ctor_sites(avb, 'Ok')
        res = [verdict_guard(avb, Fv, Fv.literals_at(bb, si), r'^Try::branch\(PKey::verify_\w+\(.*\)\)@Continue\.0$') for bb, si, pl in oks]
        if res and all(x[0] for x in res):
            r.ok(rule, 'verify:verdict', 'Ok(()) only on the true edge of ' + res[0][1], loc=avb.loc)
        else:
            r.fail(rule, 'verify:verdict', 'asymmetric_verify_signature can succeed although the primitive reported a mismatch (%s)' % ([x[1] for x in res if not x[0]] or ['no Ok result'])[0][:140], loc=avb.loc)
    # policy -> primitive pair
    rule = 'sign-verify-table'
    sb = db.body(SP + 'asymmetric_sign'); vb2 = db.body(SP + 'asymmetric_verify_signature')
    if sb is None or vb2 is None:
        r.lost(rule, 'tables', 'asymmetric_sign / asymmetric_verify_signature not found')
    else:
        ts, tv = match_table(ctx, sb), match_table(ctx, vb2)
        n = 0
        for pol in ('Basic128Rsa15', 'Basic256', 'Basic256Sha256', 'Aes128Sha256RsaOaep', 'Aes256Sha256RsaPss'):
            ms = re.search(r'(?:PKey|^)::sign_(\w+)\(', ts.get(pol) or ''); mv = re.search(r'(?:PKey|^)::verify_(\w+)\(', tv.get(pol) or '')
            key = 'policy:' + pol
            n += 1
            if ms and mv and ms.group(1) == mv.group(1):
                r.ok(rule, key, 'sign_%s / verify_%s' % (ms.group(1), mv.group(1)))
            else:
                r.fail(rule, key, 'policy %s signs with %s but verifies with %s' % (pol, ms.group(1) if ms else ts.get(pol), mv.group(1) if mv else tv.get(pol)), loc=sb.loc)
        r.floor(rule, 'policies', n, 5)
        # each primitive pair uses the same (digest, padding)
        for suffix in ('sha1', 'sha256', 'sha256_pss'):
            sfn = [b for b in db.find_bodies(r'^crypto::pkey::PKey::<openssl::pkey::Private>::sign_%s$' % suffix)]
            vfn = [b for b in db.find_bodies(r'^crypto::pkey::PKey::<openssl::pkey::Public>::verify_%s$' % suffix)]
            key = 'primitive:' + suffix
            if not sfn or not vfn:
                r.lost(rule, key, 'sign_%s / verify_%s not found' % (suffix, suffix)); continue
            def params(b):
                F = ctx.facts(b)
                for c in b.calls():
                    if re.search(r'PKey::<.*>::(sign|verify)$', c.callee_raw) or c.callee.endswith(('::sign', '::verify')):
                        a = [fmt_sym(b, F.sym_operand(x)) for x in c.args]
                        dig = [x for x in a if 'MessageDigest' in x]; pad = [x for x in a if 'RsaPadding' in x]
                        return (dig[0].rsplit('::', 1)[-1] if dig else None, pad[0].rsplit('::', 1)[-1] if pad else None)
                return None
            ps, pv = params(sfn[0]), params(vfn[0])
            if ps and pv and ps == pv and None not in ps:
                r.ok(rule, key, 'sign and verify both use %s / %s' % ps, loc=sfn[0].loc)
            else:
                r.fail(rule, key, 'sign_%s uses %s but verify_%s uses %s' % (suffix, ps, suffix, pv), loc=sfn[0].loc)
    whole_buffers(ctx)


def whole_buffers(ctx, rule='whole-buffers'):
    """"changing any signature byte makes verification fail", structural part: on the way from asymmetric_sign /
    asymmetric_verify_signature down to the OpenSSL Signer / Verifier the data and the signature are handed on as the whole
    parameter at every hop (no sub-slice, no copy of a prefix), so every byte the caller supplied is what OpenSSL judges."""
    r, db = ctx.r, ctx.db
    PUB = 'crypto::pkey::PKey::<openssl::pkey::Public>::'
    PRI = 'crypto::pkey::PKey::<openssl::pkey::Private>::'
    n = 0

    def whole(b, F, op, pname):
        t = fmt_sym(b, F.sym_operand(op))
        ps = b.local_by_name(pname)
        return bool(ps) and ps[0] <= b.argc and t == '&(*%s(_%d))' % (pname, ps[0]), t

    hops = []
    for suffix in ('sha1', 'sha256', 'sha256_pss'):
        hops.append((PUB + 'verify_' + suffix, r'PKey::verify$', {2: 'data', 3: 'signature'}))
        hops.append((PRI + 'sign_' + suffix, r'PKey::sign$', {2: 'data', 3: 'signature'}))
    hops.append((PUB + 'verify', r'openssl::sign::Verifier::update$', {1: 'data'}))
    hops.append((PUB + 'verify', r'openssl::sign::Verifier::verify$', {1: 'signature'}))
    hops.append((PRI + 'sign', r'openssl::sign::Signer::update$', {1: 'data'}))
    hops.append((SP + 'asymmetric_verify_signature', r'PKey::verify_\w+$', {1: 'data', 2: 'signature'}))
    hops.append((SP + 'asymmetric_sign', r'PKey::sign_\w+$', {1: 'data', 2: 'signature'}))
    for path, pat, argmap in hops:
        bs = db.find_bodies('^' + re.escape(path) + '$')
        key = '%s->%s' % (path.rsplit('::', 1)[-1], pat.rsplit('::', 1)[-1].rstrip('$').replace('\\w+', '*'))
        if not bs:
            r.lost(rule, key, '%s not found' % path); continue
        b = bs[0]; F = ctx.facts(b)
        cs = [c for c in b.calls() if re.search(pat, c.callee) and not (path.endswith('asymmetric_verify_signature') and 'sign_' in c.callee)]
        if not cs:
            r.lost(rule, key, 'no call matching %s in %s' % (pat, path)); continue
        for c in cs:
            for idx, pname in sorted(argmap.items()):
                n += 1
                ok, t = whole(b, F, c.args[idx], pname)
                k2 = '%s:%s' % (key if len(cs) == 1 else key + '@' + c.callee.rsplit('::', 1)[-1], pname)
                if ok:
                    r.ok(rule, k2, 'the whole `%s` parameter is handed on' % pname, loc=c.loc)
                else:
                    r.fail(rule, k2, '%s passes %s instead of its whole `%s` parameter: bytes the caller supplied are not judged (appending to or altering the ignored part '
                           'of a signature still verifies)' % (path.rsplit('::', 1)[-1], t[:100], pname), loc=c.loc)
    # the signature produced fills the caller's buffer exactly (copy_from_slice panics on a length mismatch, which C17's E1 part accounts for)
    r.count('whole_buffer_hops', n)
    r.floor(rule, 'whole_buffer_hops', n, 21)
