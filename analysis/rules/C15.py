"""C15 No service is processed before the handshake or after channel close (E2)."""
import re
from ..rulelib import *
from ..facts import fmt_sym, fmt_lit


def run(ctx):
    r, db, cg = ctx.r, ctx.db, ctx.cg
    r.explanation = ('(a) in the server reading-loop coroutine (stitched CFG) every call of TcpTransport::process_chunk is dominated by '
                     'the success edges of wait_for_hello(..).await? and process_hello(..)?; wait_for_hello constructs Ok only on the '
                     'Message::Hello pattern. (b) every path from TcpTransport::process_chunk to MessageHandler::handle_message passes '
                     'a call whose block is dominated by the "secure channel id != 0" edge. (c) close_secure_channel has no Ok '
                     'construction and its caller propagates the error with `?` (no Ok return on the Err edge).')
    r.rule_text = 'E2 must-pass-through over MIR incl. the coroutine state machine'
    # ---------------- (a)
    rule = 'hello-gate'
    bs = db.find_bodies(r'^server::comms::tcp_transport::TcpTransport::spawn_reading_loop_task::\{closure#0\}$')
    if not bs:
        r.lost(rule, 'reading loop', 'reading loop coroutine not found')
    else:
        b = bs[0]; F = ctx.facts(b)
        pcs = [c for c in b.calls() if c.callee.endswith('TcpTransport::process_chunk')]
        if not pcs:
            r.lost(rule, 'reading loop:process_chunk', 'no process_chunk call in the reading loop')
        hello_calls = [c for c in b.calls() if c.callee.endswith('TcpTransport::process_hello')]
        wait_ctor = [c for c in b.calls() if c.callee.endswith('TcpTransport::wait_for_hello')]
        for c in pcs:
            lits = F.literals_at(c.bb)
            ok_hello = any(l[0] == 'try' and l[2] and l[1][0] == 'call' and l[1][1].endswith('TcpTransport::process_hello') for l, e in lits)
            # the awaited wait_for_hello future: its poll result is matched Ready, then `?`
            ok_wait = any(l[0] == 'try' and l[2] and 'Poll' in fmt_sym(b, l[1]) or (l[0] == 'try' and l[2] and 'wait_for_hello' in fmt_sym(b, l[1])) for l, e in lits)
            # order: the wait_for_hello construction must dominate process_hello
            order = bool(wait_ctor and hello_calls and b.dominates(wait_ctor[0].bb, hello_calls[0].bb))
            key = 'reading-loop:process_chunk'
            if ok_hello and ok_wait and order:
                r.ok(rule, key, 'process_chunk is dominated by wait_for_hello(..).await? and process_hello(..)? success edges', loc=c.loc)
            else:
                r.fail(rule, key, 'process_chunk can run before a HELLO was received and accepted (hello=%s wait=%s order=%s)' % (ok_hello, ok_wait, order), loc=c.loc)
        # wait_for_hello returns Ok only for a Hello frame
        wb = db.find_bodies(r'^server::comms::tcp_transport::TcpTransport::wait_for_hello::\{closure#0\}$')
        if not wb:
            r.lost(rule, 'wait_for_hello', 'wait_for_hello coroutine not found')
        else:
            wbb = wb[0]; Fw = ctx.facts(wbb)
            oks = result_ctor_sites(wbb, 'Ok')
            oks = [o for o in oks if 'HelloMessage' in wbb.locals[o[2][0]]]
            if not oks:
                r.lost(rule, 'wait_for_hello:Ok', 'no Ok(hello) construction in wait_for_hello')
            for bb, si, pl in oks:
                lits = Fw.literals_at(bb, si)
                if any(l[0] == 'variant' and l[2] == 'Hello' and l[3] for l, e in lits):
                    r.ok(rule, 'wait_for_hello:Ok', 'Ok(hello) only on the Message::Hello pattern edge', loc=wbb.loc)
                else:
                    r.fail(rule, 'wait_for_hello:Ok', 'wait_for_hello returns Ok on a frame that is not known to be a Hello', loc=wbb.loc)
    # ---------------- (b)
    rule = 'channel-open-gate'
    hm = cg.instances_matching(r'^server::services::message_handler::MessageHandler::handle_message$')
    pc = cg.instances_matching(r'^server::comms::tcp_transport::TcpTransport::process_chunk$')
    if not hm or not pc:
        r.lost(rule, 'dispatch', 'process_chunk or handle_message instance not found')
    else:
        # gated edges: call edges whose block is dominated by `secure_channel_id() != 0` (or issued / token id)
        def gated(e):
            src = db.instances[e.src]
            if not src.path.startswith('server::comms::tcp_transport::TcpTransport::'):
                return False
            b = db.bodies[src.body_id]
            F = ctx.facts(b)
            for l, ed in F.literals_at(e.bb):
                txt = fmt_lit(b, l)
                # the id tested must be the SERVER's record (SecureChannel::secure_channel_id() / token_id() of the channel object),
                # not a field of the chunk the peer sent
                if l[0] == 'cmp' and l[1] in ('ne', 'gt') and re.search(r'SecureChannel::(secure_channel_id|token_id)\(', txt) and txt.rstrip().endswith(' 0') \
                        and not re.search(r'message_header|chunk_info|security_header', txt):
                    return True
                if l[0] == 'truth' and l[2] is True and re.search(r'issued|channel_open|is_open', txt):
                    return True
            return False
        par = cg.reach(pc, edge_filter=lambda e: not gated(e))
        target = hm[0]
        if target in par:
            path = cg.fmt_path(par, target)
            r.fail(rule, 'process_chunk->handle_message', 'a MSG chunk reaches MessageHandler::handle_message without passing a "secure channel has been opened" test',
                   detail='ungated path: ' + path, loc=db.bodies[db.instances[pc[0]].body_id].loc)
        else:
            # make sure the target is reachable at all (otherwise the rule is vacuous)
            full = cg.reach(pc)
            if target not in full:
                r.lost(rule, 'process_chunk->handle_message', 'handle_message is no longer reachable from process_chunk')
            else:
                r.ok(rule, 'process_chunk->handle_message', 'every call path from process_chunk to handle_message passes an edge dominated by secure_channel_id() != 0',
                     loc=db.bodies[db.instances[pc[0]].body_id].loc)
    # ---------------- (c)
    rule = 'close-terminates'
    bs = db.find_bodies(r'^server::comms::secure_channel_service::SecureChannelService::close_secure_channel$')
    if not bs:
        r.lost(rule, 'close_secure_channel', 'close_secure_channel not found')
    else:
        b = bs[0]
        oks = result_ctor_sites(b, 'Ok')
        if oks:
            r.fail(rule, 'close_secure_channel:Ok', 'close_secure_channel can return Ok: the connection would stay open after CLO', loc=b.loc)
        else:
            r.ok(rule, 'close_secure_channel:Ok', 'close_secure_channel constructs no Ok value: CLO always ends the read loop', loc=b.loc)
    bs = db.find_bodies(r'^server::comms::tcp_transport::TcpTransport::process_close_secure_channel$')
    if not bs:
        r.lost(rule, 'process_close_secure_channel', 'process_close_secure_channel not found')
    else:
        b = bs[0]; F = ctx.facts(b)
        cs = [c for c in b.calls() if c.callee.endswith('close_secure_channel')]
        oks = result_ctor_sites(b, 'Ok')
        bad = False
        for bb, si, pl in oks:
            lits = F.literals_at(bb, si)
            if not any(l[0] == 'try' and l[2] and 'close_secure_channel' in fmt_sym(b, l[1]) for l, e in lits):
                bad = True
        if not cs:
            r.lost(rule, 'process_close_secure_channel:call', 'no call of close_secure_channel')
        elif bad:
            r.fail(rule, 'process_close_secure_channel:propagate', 'process_close_secure_channel returns Ok without the close service having succeeded (error not propagated)', loc=b.loc)
        else:
            r.ok(rule, 'process_close_secure_channel:propagate', 'Ok only on the success edge of close_secure_channel(..)?', loc=b.loc)
    # ---------------- (d) the "channel open" indicator is only committed once nothing can refuse the OPN any more
    rule = 'indicator-after-validation'
    setters = []
    for bd in db.find_bodies(r'^server::'):
        for c in bd.calls():
            if c.callee.endswith('SecureChannel::set_secure_channel_id'):
                setters.append((bd, c))
    if not setters:
        r.lost(rule, 'set_secure_channel_id', 'no server-side call of SecureChannel::set_secure_channel_id found')
    for bd, c in setters:
        key = 'set_secure_channel_id@' + bd.path.rsplit('::', 2)[-2] + '::' + bd.path.rsplit('::', 1)[-1]
        if not bd.path.endswith('SecureChannelService::open_secure_channel'):
            r.fail(rule, key, 'the channel id (the "channel open" indicator tested before dispatching MSG chunks) is set outside open_secure_channel', loc=c.loc)
            continue
        after = bd.reachable_blocks(c.target) if c.target is not None else set()
        rej = []
        for bi in after:
            if bd.is_cleanup(bi):
                continue
            t = bd.term(bi)
            if t[0] == 'call' and t[1][0] == 'fn' and re.search(r'ServiceFault::new$|FromResidual.*from_residual$', t[1][1].split('<')[0] if False else t[1][1]):
                rej.append('%s:%s' % (t[6]['f'], t[6]['l']))
            for st in bd.stmts(bi):
                if st[0] == '=' and st[2][0] == 'agg' and st[2][2] == 'std::result::Result' and st[2][3] == 'Err':
                    rej.append('%s:%s' % (bd.loc.file, st[3] if not isinstance(st[3], dict) else st[3]['l']))
        if rej:
            r.fail(rule, key, 'the channel id is assigned before the request can still be refused (%s): a refused OPN leaves the connection looking open' % ', '.join(sorted(set(rej))[:3]), loc=c.loc)
        else:
            r.ok(rule, key, 'no refusing return (ServiceFault / Err / ?) is reachable after the channel id is assigned', loc=c.loc)
    r.floor('C15', 'gates', len(r.obls), 6)
