"""C13 Channel keys are derived per the specification and agree on both ends (E6 table / wiring agreement)."""
import re
from ..rulelib import *
from ..facts import fmt_sym
from ..tables import match_table

SP = 'crypto::security_policy::SecurityPolicy::'
SC = 'core::comms::secure_channel::SecureChannel::'


def run(ctx):
    r, db = ctx.r, ctx.db
    r.explanation = ('(i) role antisymmetry in SecureChannel::derive_keys: make_secure_channel_keys(local_nonce, remote_nonce) is stored in '
                     'remote_keys and (remote_nonce, local_nonce) in local_keys; signing/encryption read only local_keys, '
                     'verification/decryption only remote_keys - since both peers run the same function, this is what makes one side\'s '
                     'securing keys equal the other side\'s verifying keys. (ii) make_secure_channel_keys slices the PRF stream at '
                     '(len_s, 0), (len_e, len_s), (block, len_s + len_e) with the same secret/seed. (iii) the per-policy constants read '
                     'from the match arms equal the Part 6 table in tables/security_policies.toml. p_sha itself (numeric) is not decided.')
    r.rule_text = 'E6 sibling/table agreement read from MIR match arms and call argument provenance'
    spec = ctx.table('security_policies.toml')
    # ---------------- (i)
    rule = 'role-antisymmetry'
    b = db.body(SC + 'derive_keys')
    if b is None:
        r.lost(rule, 'derive_keys', 'SecureChannel::derive_keys not found')
    else:
        F = ctx.facts(b)
        seen = {}
        for bi, blk in enumerate(b.blocks):
            for st in blk['s']:
                if st[0] == '=' and st[1][1] and st[1][1][-1] in ('.remote_keys', '.local_keys'):
                    v = F.sym_rvalue(st[2], 0)
                    txt = fmt_sym(b, v)
                    m = re.search(r'make_secure_channel_keys\(&\(\*self\(_1\)\)\.security_policy, &\(\*self\(_1\)\)\.(\w+), &\(\*self\(_1\)\)\.(\w+)\)', txt)
                    if m:
                        seen[st[1][1][-1]] = (m.group(1), m.group(2))
        want = {'.remote_keys': ('local_nonce', 'remote_nonce'), '.local_keys': ('remote_nonce', 'local_nonce')}
        for fld, w in want.items():
            key = 'derive_keys:' + fld[1:]
            if seen.get(fld) == w:
                r.ok(rule, key, '%s = make_secure_channel_keys(secret=%s, seed=%s)' % (fld[1:], w[0], w[1]), loc=b.loc)
            else:
                r.fail(rule, key, '%s is derived from %s instead of (secret=%s, seed=%s): the two ends no longer agree' % (fld[1:], seen.get(fld), w[0], w[1]), loc=b.loc)
    readers = {'signing_key': 'local_keys', 'encryption_keys': 'local_keys', 'verification_key': 'remote_keys', 'decryption_keys': 'remote_keys'}
    for fn, src in readers.items():
        fb = db.body(SC + fn)
        key = 'reader:' + fn
        if fb is None:
            r.lost(rule, key, fn + ' not found'); continue
        called = {c.callee.rsplit('::', 1)[-1] for c in fb.calls() if c.callee.startswith(SC)}
        if called == {src}:
            r.ok(rule, key, '%s reads only %s' % (fn, src), loc=fb.loc)
        else:
            r.fail(rule, key, '%s reads %s instead of only %s' % (fn, sorted(called), src), loc=fb.loc)
    users = {'symmetric_sign_and_encrypt': {'signing_key', 'encryption_keys'}, 'symmetric_decrypt_and_verify': {'verification_key', 'decryption_keys'}}
    for fn, allowed in users.items():
        fb = db.body(SC + fn)
        key = 'user:' + fn
        if fb is None:
            r.lost(rule, key, fn + ' not found'); continue
        used = {c.callee.rsplit('::', 1)[-1] for c in fb.calls() if c.callee.rsplit('::', 1)[-1] in readers}
        if used and used <= allowed:
            r.ok(rule, key, '%s uses %s' % (fn, sorted(used)), loc=fb.loc)
        else:
            r.fail(rule, key, '%s uses the key accessors %s, expected a subset of %s' % (fn, sorted(used), sorted(allowed)), loc=fb.loc)
    # ---------------- (ii)
    rule = 'prf-offsets'
    b = db.body(SP + 'make_secure_channel_keys')
    if b is None:
        r.lost(rule, 'make_secure_channel_keys', 'not found')
    else:
        F = ctx.facts(b)
        prfs = [c for c in b.calls() if c.callee == SP + 'prf']
        if len(prfs) != 3:
            r.lost(rule, 'prf-calls', 'expected three prf calls, found %d' % len(prfs))
        else:
            args = [[fmt_sym(b, F.sym_operand(a)) for a in c.args] for c in prfs]
            ls = 'SecurityPolicy::derived_signature_key_size(&(*self(_1)))'
            same_inputs = all(a[1] == args[0][1] and a[2] == args[0][2] for a in args) and 'secret' in args[0][1] and 'seed' in args[0][2]
            ok0 = args[0][3] == ls and args[0][4] == '0'
            le = args[1][3]
            ok1 = args[1][4] == ls and le != ls
            blk = args[2][3]
            ok2 = ls in args[2][4] and le in args[2][4] and 'AddWithOverflow' in args[2][4] and blk not in (ls, le)
            for i, (ok, what) in enumerate(((ok0, 'signing key = prf(len_s, offset 0)'), (ok1, 'encryption key = prf(len_e, offset len_s)'), (ok2, 'iv = prf(block, offset len_s + len_e)'))):
                key = 'prf#%d' % i
                if ok and same_inputs:
                    r.ok(rule, key, what, loc=prfs[i].loc)
                else:
                    r.fail(rule, key, 'PRF slice is not ' + what, detail='args: %s' % args[i][1:], loc=prfs[i].loc)
        pb = db.body(SP + 'prf')
        if pb is not None:
            Fp = ctx.facts(pb)
            ps = [c for c in pb.calls() if c.callee.endswith('hash::p_sha')]
            if len(ps) == 1:
                a = [fmt_sym(pb, Fp.sym_operand(x)) for x in ps[0].args]
                if 'secret' in a[1] and 'seed' in a[2] and 'offset' in a[3] and 'length' in a[3]:
                    r.ok(rule, 'prf:p_sha', 'p_sha(digest, secret, seed, offset + length)', loc=ps[0].loc)
                else:
                    r.fail(rule, 'prf:p_sha', 'p_sha is not called with (secret, seed, offset + length)', detail=str(a), loc=ps[0].loc)
            else:
                r.lost(rule, 'prf:p_sha', 'expected one p_sha call in prf')
    # ---------------- (iii)
    rule = 'policy-constants'
    def table(fn):
        fb = db.body(SP + fn)
        return (match_table(ctx, fb), fb) if fb is not None else (None, None)
    t_sig, b_sig = table('derived_signature_key_size')
    t_nonce, _ = table('secure_channel_nonce_length')
    t_prf, _ = table('prf')
    t_ssz, _ = table('symmetric_signature_size')
    t_len, b_len = table('make_secure_channel_keys')
    # make_secure_channel_keys arm values are the (key, block) tuples: read them from the tuple aggregates per arm
    enc = {}
    # the table may sit in make_secure_channel_keys itself or in a helper of SecurityPolicy it calls for the two lengths
    cand = [b_len] if b_len is not None else []
    if b_len is not None:
        for c in b_len.calls():
            hb = db.body(c.callee) if c.callee.startswith(SP) else None
            if hb is not None and hb.locals[0].replace(' ', '') == '(usize,usize)':
                cand.append(hb)
    for b_len in cand:
        Fm = ctx.facts(b_len)
        for bi, blk in enumerate(b_len.blocks):
            t = blk['t']
            if t[0] != 'switch':
                continue
            e = Fm.sym_operand(t[1])
            if e[0] != 'discr' or 'SecurityPolicy' not in e[2]:
                continue
            names = Fm.variants_of(e[2])
            for dst, lab in b_len.succ_edges(bi):
                if lab[0] != 'val' or int(lab[1]) >= len(names):
                    continue
                for st in b_len.stmts(dst):
                    if st[0] == '=' and st[2][0] == 'agg' and st[2][1] == 'tuple' and len(st[2][4]) == 2 and all(o[0] == 'k' for o in st[2][4]):
                        enc[names[int(lab[1])]] = (int(st[2][4][0][1]), int(st[2][4][1][1]))
    div8 = b_sig is not None and any(st[0] == '=' and st[2][0] == 'bin' and st[2][1] == 'Div' and st[2][3][0] == 'k' and st[2][3][1] == '8' for blk in b_sig.blocks for st in blk['s'])
    n = 0
    for pol, sp in spec.items():
        checks = []
        if t_sig:
            checks.append(('derived_signature_key_bits', t_sig.get(pol), str(sp['derived_signature_key_bits'])))
        if t_nonce:
            checks.append(('nonce_bytes', t_nonce.get(pol), str(sp['nonce_bytes'])))
        if t_prf:
            checks.append(('prf', (t_prf.get(pol) or '').rsplit('::', 1)[-1], sp['prf']))
        if t_ssz:
            checks.append(('symmetric_signature_bytes', t_ssz.get(pol), str(sp['symmetric_signature_bytes'])))
        checks.append(('encryption_key_bytes', str(enc.get(pol, (None, None))[0]), str(sp['encryption_key_bytes'])))
        checks.append(('block_bytes', str(enc.get(pol, (None, None))[1]), str(sp['block_bytes'])))
        for name, got, want in checks:
            n += 1
            key = '%s:%s' % (pol, name)
            if got == want:
                r.ok(rule, key, '%s = %s as in Part 6' % (name, want))
            else:
                r.fail(rule, key, 'policy %s: %s is %s in the code, the specification says %s' % (pol, name, got, want), loc=SP)
    if div8:
        r.ok(rule, 'derived_signature_key_size:bits-to-bytes', 'derived signature key length is converted from bits to bytes (/ 8)')
    else:
        r.fail(rule, 'derived_signature_key_size:bits-to-bytes', 'derived_signature_key_size no longer divides the bit length by 8', loc=SP)
    r.floor(rule, 'policy_constants', n, 30)
    # the nonces the keys are derived from are replaced, never appended to (rule shared with C14): otherwise the second derivation on
    # one side uses old||new while the peer uses new
    from .C14 import nonce_setters_replace
    nonce_setters_replace(ctx)
