"""C07 Any message survives chunking and channel security unchanged - padding symmetry clause (E6)."""
import re
from ..rulelib import *
from ..facts import fmt_sym, fmt_lit

SC = 'core::comms::secure_channel::SecureChannel::'


def run(ctx):
    r, db, cg = ctx.r, ctx.db, ctx.cg
    r.explanation = ('One necessary clause: whatever the sender appends to a chunk body, the receiver must remove. The sender side is read '
                     'from SecureChannel::padding_size (for which header kinds / modes it can return a non-zero padding) and '
                     'add_space_for_padding_and_signature (which writes it). For every header kind that can be padded, the receiving '
                     'function (*_decrypt_and_verify) must reach verify_padding in the call graph and return the start of the padding '
                     'range. Otherwise the padding bytes stay inside the chunk body and are concatenated into the middle of a '
                     'multi-chunk message. Byte-exact reassembly and chunk size arithmetic are not decided.')
    r.rule_text = 'E6 sender/receiver agreement: match arms of padding_size vs call-graph reachability of verify_padding'
    rule = 'padding-symmetry'
    pb = db.body(SC + 'padding_size')
    if pb is None:
        r.lost(rule, 'padding_size', 'not found'); return
    F = ctx.facts(pb)
    # which SecurityHeader variants lead to a non-(0,0) result
    padded = set()
    for bi, blk in enumerate(pb.blocks):
        t = blk['t']
        if t[0] == 'switch':
            e = F.sym_operand(t[1])
            if e[0] == 'discr' and 'SecurityHeader' in e[2]:
                names = F.variants_of(e[2])
                for dst, lab in pb.succ_edges(bi):
                    if lab[0] == 'val' and int(lab[1]) < len(names):
                        padded.add(names[int(lab[1])])
                    elif lab[0] == 'otherwise':
                        for i, n in enumerate(names):
                            if str(i) not in lab[1]:
                                padded.add(n)
    wb = db.body(SC + 'add_space_for_padding_and_signature')
    writes = wb is not None and any(c.callee.endswith('encoding::write_bytes') for c in wb.calls()) and any(c.callee.endswith('SecureChannel::padding_size') for c in wb.calls())
    if not padded or not writes:
        r.lost(rule, 'sender', 'could not read which header kinds are padded by the sender'); return
    r.extra['sender_pads_header_kinds'] = sorted(padded)
    recv = {'Asymmetric': 'asymmetric_decrypt_and_verify', 'Symmetric': 'symmetric_decrypt_and_verify'}
    vp = set(cg.instances_matching(r'^' + re.escape(SC) + r'verify_padding$'))
    for kind in sorted(padded):
        fn = recv.get(kind)
        key = 'receiver:' + kind
        roots = cg.instances_matching(r'^' + re.escape(SC + fn) + r'$') if fn else []
        if not roots:
            r.lost(rule, key, 'receiving function for %s chunks not found' % kind); continue
        reach = cg.reach(roots)
        if vp & set(reach.keys()):
            fb = db.body(SC + fn); Ff = ctx.facts(fb)
            oks = result_ctor_sites(fb, 'Ok')
            strips = any('verify_padding' in fmt_sym(fb, Ff.sym_operand(fb.stmts(bb)[si][2][4][0])) for bb, si, pl in oks)
            if strips:
                r.ok(rule, key, '%s chunks: the receiver verifies the padding and returns the offset where it starts' % kind, loc=fb.loc)
            else:
                r.fail(rule, key, '%s chunks: the receiver checks the padding but does not cut it off' % kind, loc=fb.loc)
        else:
            fb = db.body(SC + fn)
            r.fail(rule, key, 'the sender pads %s chunks (padding_size is non-zero whenever policy and mode are not None) but %s never removes padding: '
                              'the padding bytes stay in the chunk body' % (kind, fn), loc=fb.loc if fb else '')
    r.floor(rule, 'padded_header_kinds', len(padded), 2)
