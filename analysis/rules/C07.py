"""C07 Any message survives chunking and channel security unchanged - padding symmetry clause (E6)."""
import re
from ..rulelib import *
from ..facts import fmt_sym, fmt_lit

SC = 'core::comms::secure_channel::SecureChannel::'


def run(ctx):
    r, db, cg = ctx.r, ctx.db, ctx.cg
    r.explanation = ('One necessary clause: whatever the sender appends to a chunk body, the receiver must remove. The sender side is read '
                     'from SecureChannel::padding_size (for which header kinds / modes it can return a non-zero padding) and '
                     'add_space_for_padding_and_signature (which writes it). For every header kind that can be padded, the receiving '
                     'function (*_decrypt_and_verify) must reach verify_padding in the call graph and return the start of the padding '
                     'range. Otherwise the padding bytes stay inside the chunk body and are concatenated into the middle of a '
                     'multi-chunk message. Byte-exact reassembly and chunk size arithmetic are not decided.')
    r.rule_text = 'E6 sender/receiver agreement: match arms of padding_size vs call-graph reachability of verify_padding'
    rule = 'padding-symmetry'
    pb = db.body(SC + 'padding_size')
    if pb is None:
        r.lost(rule, 'padding_size', 'not found'); return
    F = ctx.facts(pb)
    # which SecurityHeader variants lead to a non-(0,0) result
    padded = set()
    for bi, blk in enumerate(pb.blocks):
        t = blk['t']
        if t[0] == 'switch':
            e = F.sym_operand(t[1])
            if e[0] == 'discr' and 'SecurityHeader' in e[2]:
                names = F.variants_of(e[2])
                for dst, lab in pb.succ_edges(bi):
                    if lab[0] == 'val' and int(lab[1]) < len(names):
                        padded.add(names[int(lab[1])])
                    elif lab[0] == 'otherwise':
                        for i, n in enumerate(names):
                            if str(i) not in lab[1]:
                                padded.add(n)
    wb = db.body(SC + 'add_space_for_padding_and_signature')
    writes = wb is not None and any(c.callee.endswith('encoding::write_bytes') for c in wb.calls()) and any(c.callee.endswith('SecureChannel::padding_size') for c in wb.calls())
    if not padded or not writes:
        r.lost(rule, 'sender', 'could not read which header kinds are padded by the sender'); return
    r.extra['sender_pads_header_kinds'] = sorted(padded)
    recv = {'Asymmetric': 'asymmetric_decrypt_and_verify', 'Symmetric': 'symmetric_decrypt_and_verify'}
    vp = set(cg.instances_matching(r'^' + re.escape(SC) + r'verify_padding$'))
    for kind in sorted(padded):
        fn = recv.get(kind)
        key = 'receiver:' + kind
        roots = cg.instances_matching(r'^' + re.escape(SC + fn) + r'$') if fn else []
        if not roots:
            r.lost(rule, key, 'receiving function for %s chunks not found' % kind); continue
        reach = cg.reach(roots)
        if vp & set(reach.keys()):
            fb = db.body(SC + fn); Ff = ctx.facts(fb)
            oks = result_ctor_sites(fb, 'Ok')
            strips = any('verify_padding' in fmt_sym(fb, Ff.sym_operand(fb.stmts(bb)[si][2][4][0])) for bb, si, pl in oks)
            if strips:
                r.ok(rule, key, '%s chunks: the receiver verifies the padding and returns the offset where it starts' % kind, loc=fb.loc)
            else:
                r.fail(rule, key, '%s chunks: the receiver checks the padding but does not cut it off' % kind, loc=fb.loc)
        else:
            fb = db.body(SC + fn)
            r.fail(rule, key, 'the sender pads %s chunks (padding_size is non-zero whenever policy and mode are not None) but %s never removes padding: '
                              'the padding bytes stay in the chunk body' % (kind, fn), loc=fb.loc if fb else '')
    r.floor(rule, 'padded_header_kinds', len(padded), 2)
    # the sender's condition for padding must not be narrower than the receiver's condition for stripping: the asymmetric
    # receiver strips whenever the policy is not None (no test of the message security mode), so the sender has to pad for
    # every mode but None
    conds = []
    for bi, blk in enumerate(pb.blocks):
        if blk['c']:
            continue
        for si, st in enumerate(blk['s']):
            if st[0] == '=' and st[1] == [0, []] and st[2][0] == 'agg' and st[2][1] == 'tuple':
                v = fmt_sym(pb, F.sym_rvalue(st[2], 0, bi))
                if v.replace(' ', '') in ('tuple{0,0}', 'tuple{0_usize,0_usize}'):
                    continue
                conds.append([fmt_lit(pb, l) for l, e in F.literals_at(bi, si) if 'security_mode' in fmt_lit(pb, l) or 'security_policy' in fmt_lit(pb, l)])
    recv_mode = []
    ab = db.body(SC + 'asymmetric_decrypt_and_verify')
    if ab is not None:
        Fa = ctx.facts(ab)
        for c in ab.calls():
            if c.callee.endswith('verify_padding'):
                recv_mode += [fmt_lit(ab, l) for l, e in Fa.literals_at(c.bb) if 'security_mode' in fmt_lit(ab, l)]
    if not conds:
        r.lost(rule, 'sender:condition', 'padded result of padding_size not found')
    else:
        okc = all(any(re.match(r'^\(\*self\(_1\)\)\.security_mode ne MessageSecurityMode::None$', x) for x in cs) and
                  not any(re.search(r'security_mode (eq|is) ', x) or re.search(r'security_mode ne MessageSecurityMode::(Sign|SignAndEncrypt)', x) for x in cs) for cs in conds)
        if okc and not recv_mode:
            r.ok(rule, 'sender:condition', 'the sender pads for every message security mode but None; the asymmetric receiver strips regardless of the mode', loc=pb.loc)
        elif recv_mode:
            r.fail(rule, 'sender:condition', 'the asymmetric receiver now conditions padding removal on the mode (%s): re-derive the agreement' % recv_mode[:1], loc=pb.loc)
        else:
            r.fail(rule, 'sender:condition', 'padding_size pads only under %s, but the receiver of OpenSecureChannel chunks removes padding for every mode: an OPN chunk '
                   'sent in a mode the sender does not pad for is rejected or loses body bytes' % [x for cs in conds for x in cs if 'security_mode' in x][:2], loc=pb.loc)
    chunk_headers(ctx)
    padding_arithmetic(ctx)


def _find(sym, pred):
    """first sub-term of sym satisfying pred"""
    if isinstance(sym, tuple) and sym:
        try:
            if isinstance(sym[0], str) and pred(sym):
                return sym
        except (IndexError, TypeError):
            pass
        for x in sym:
            y = _find(x, pred)
            if y is not None:
                return y
    return None


def chunk_headers(ctx, rule='chunk-headers'):
    """Chunker::encode: every chunk gets the caller's request id, sequence number = first + position, the body slice
    produced by slice::chunks(body size derived from the negotiated chunk size), and the Final flag exactly at position
    count-1 where count is the length of the very sequence being iterated"""
    r, db = ctx.r, ctx.db
    b = db.body('core::comms::chunker::Chunker::encode')
    if b is None:
        r.lost(rule, 'Chunker::encode', 'not found'); return
    F = ctx.facts(b)
    # constructions in encode itself (for loop) and in closures handed to an iterator adapter (enumerate().map(|(i, chunk)| ..))
    def env_of(cb):
        """operands of the closure aggregate in encode: what each captured field stands for, in encode's terms"""
        for bi, blk in enumerate(b.blocks):
            for st in blk['s']:
                if st[0] == '=' and st[2][0] == 'agg' and st[2][1] == 'closure' and st[2][2] == cb.path:
                    return [F.sym_operand(o) for o in st[2][4]]
        return None
    def lifter(env):
        def lift(sy):
            if not isinstance(sy, tuple):
                return sy
            if sy and sy[0] == 'place' and sy[1] == 1 and len(sy[2]) >= 2 and sy[2][0] == '*' and sy[2][1].startswith('.') and sy[2][1][1:].isdigit():
                k = int(sy[2][1][1:])
                if k < len(env):
                    return F._project(env[k], sy[2][2:])
            return tuple(lift(x) for x in sy)
        return lift
    ctxs = [(b, F, c, (lambda x: x), None) for c in b.calls() if c.callee.endswith('MessageChunk::new')]
    for cb in db.find_bodies(r'^core::comms::chunker::Chunker::encode(::\{closure#\d+\})+$'):
        cs = [c for c in cb.calls() if c.callee.endswith('MessageChunk::new')]
        if cs:
            env = env_of(cb)
            if env is None:
                r.lost(rule, 'closure-env', 'construction of %s not found in encode' % cb.path); return
            for c in cs:
                ctxs.append((cb, ctx.facts(cb), c, lifter(env), ('place', 2, ())))
    if len(ctxs) < 2:
        r.lost(rule, 'MessageChunk::new', 'expected the multi-chunk and the single-chunk construction, found %d' % len(ctxs)); return
    seq_p = b.local_by_name('sequence_number'); rid_p = b.local_by_name('request_id'); mcs_p = b.local_by_name('max_chunk_size')
    if not (seq_p and rid_p and mcs_p):
        r.lost(rule, 'params', 'sequence_number / request_id / max_chunk_size parameters not found'); return
    seq_p, rid_p, mcs_p = ('place', seq_p[0], ()), ('place', rid_p[0], ()), ('place', mcs_p[0], ())
    n = 0
    for xb, xF, c, lift, tup in ctxs:
        a = [lift(xF.sym_operand(x)) for x in c.args]
        if tup is None:
            item = _find(a[0], lambda s: s[0] == 'proj' and s[2] == '@Some' and s[1][0] == 'call' and s[1][1].endswith('Iterator::next'))
            looped = item is not None
            idx = ('proj', ('proj', item, '.0'), '.0') if looped else None
            bodysym = ('proj', ('proj', item, '.0'), '.1') if looped else None
        else:
            looped = True
            idx = ('place', 2, ('.0',)); bodysym = ('place', 2, ('.1', '*'))
        tag = 'multi' if looped else 'single'
        n += 1
        # request id
        if a[1] == rid_p:
            r.ok(rule, tag + ':request-id', 'chunk carries the request_id argument', loc=c.loc)
        else:
            r.fail(rule, tag + ':request-id', 'chunk request id is %s, not the request_id of the message' % fmt_sym(xb, a[1])[:80], loc=c.loc)
        if not looped:
            if a[0] == seq_p:
                r.ok(rule, tag + ':sequence', 'single chunk uses the first sequence number', loc=c.loc)
            else:
                r.fail(rule, tag + ':sequence', 'single chunk sequence number is %s' % fmt_sym(xb, a[0])[:80], loc=c.loc)
            if 'Final' in fmt_sym(xb, a[3]) and 'Intermediate' not in fmt_sym(xb, a[3]):
                r.ok(rule, tag + ':final', 'the only chunk is Final', loc=c.loc)
            else:
                r.fail(rule, tag + ':final', 'the only chunk of a message is not marked Final (%s)' % fmt_sym(xb, a[3])[:60], loc=c.loc)
            continue
        # sequence number = sequence_number + idx as u32
        s0 = a[0]
        if s0[0] == 'proj' and s0[2] == '.0':
            s0 = s0[1]
        okseq = (s0[0] == 'bin' and s0[1] in ('Add', 'AddWithOverflow') and
                 ((s0[2] == seq_p and s0[3][0] == 'cast' and s0[3][1] == idx) or (s0[3] == seq_p and s0[2][0] == 'cast' and s0[2][1] == idx)))
        okseq = okseq or (s0[0] == 'call' and s0[1].endswith('wrapping_add') and s0[2][0] == seq_p and s0[2][1][0] == 'cast' and s0[2][1][1] == idx)
        if okseq:
            r.ok(rule, tag + ':sequence', 'sequence number = sequence_number + position of the chunk', loc=c.loc)
        else:
            r.fail(rule, tag + ':sequence', 'chunk sequence number is %s: not first + position, the numbers are not consecutive' % fmt_sym(xb, a[0])[:100], loc=c.loc)
        # the iterated sequence
        enum = [e for e in b.calls() if e.callee.endswith('Iterator::enumerate')]
        src = F.sym_operand(enum[0].args[0]) if enum else None
        chunks = _find(src, lambda s: s[0] == 'call' and s[1].endswith('slice::chunks')) if src is not None else None
        if chunks is None:
            r.lost(rule, tag + ':source', 'the loop does not iterate enumerate(slice::chunks(..))'); continue
        if tup is not None:
            # the closure must be the argument of an adapter applied to that very enumerate(..)
            maps = [m_ for m_ in b.calls() if re.search(r'Iterator::(map|filter_map|flat_map|try_for_each|for_each|map_while)$', m_.callee) and len(m_.args) == 2
                    and xb.path in fmt_sym(b, F.sym_operand(m_.args[1]))
                    and _find(F.sym_operand(m_.args[0]), lambda s: s[0] == 'call' and s[1].endswith('Iterator::enumerate') and _find(s, lambda q: q == chunks) is not None) is not None]
            if not maps:
                r.lost(rule, tag + ':source', 'the closure building the chunks is not applied to enumerate(slice::chunks(..))'); continue
        # body = the item of the iteration
        body = a[5]
        if _find(body, lambda s: s == bodysym) is not None:
            r.ok(rule, tag + ':body', 'chunk body is the slice yielded by the iteration', loc=c.loc)
        else:
            r.fail(rule, tag + ':body', 'chunk body is %s, not the slice of this iteration' % fmt_sym(xb, body)[:80], loc=c.loc)
        # slice size derives from the negotiated size
        size = chunks[2][1] if len(chunks[2]) > 1 else None
        bs = _find(size, lambda s: s[0] == 'call' and s[1].endswith('MessageChunk::body_size_from_message_size')) if size is not None else None
        if bs is not None and len(bs[2]) == 3 and bs[2][2] == mcs_p:
            r.ok(rule, tag + ':size', 'bodies are cut at body_size_from_message_size(.., max_chunk_size)', loc=c.loc)
        else:
            r.fail(rule, tag + ':size', 'the body size the data is cut at does not derive from max_chunk_size: %s' % (fmt_sym(b, size)[:100] if size is not None else '?'), loc=c.loc)
        # final flag
        fl = xF.sym_operand(c.args[3])
        defs = xb.defs().get(fl[1], []) if fl[0] == 'place' and not fl[2] else []
        finals = [(d[1], d[2]) for d in defs if d[0] == 'stmt' and d[3][0] == 'agg' and d[3][3] == 'Final']
        inter = [(d[1], d[2]) for d in defs if d[0] == 'stmt' and d[3][0] == 'agg' and d[3][3] == 'Intermediate']
        if not finals or not inter or len(finals) + len(inter) != len(defs):
            r.fail(rule, tag + ':final', 'the final flag of a multi-chunk message is not chosen between Final and Intermediate per chunk', loc=c.loc); continue
        def last_test(bb, si, op):
            for lit, e in xF.literals_at(bb, si):
                if lit[0] == 'cmp' and lit[1] == op and lit[2] == idx:
                    rhs = lift(lit[3])
                    if rhs[0] == 'proj' and rhs[2] == '.0':
                        rhs = rhs[1]
                    if rhs[0] == 'bin' and rhs[1] in ('Sub', 'SubWithOverflow') and F.const_int(rhs[3]) == 1:
                        cnt = rhs[2]
                        if cnt == ('len', chunks) or cnt == ('len', ('ref', chunks)):
                            return 'count = len of the iterated chunks'
                        dc = cnt if cnt[0] == 'call' and cnt[1].endswith('div_ceil') else None
                        if dc is not None and len(dc[2]) == 2 and dc[2][1] == size:
                            return 'count = div_ceil(len, body size)'
                        return None
            return None
        w1 = [last_test(bb, si, 'eq') for bb, si in finals]
        w2 = [last_test(bb, si, 'ne') for bb, si in inter]
        if all(w1) and all(w2):
            r.ok(rule, tag + ':final', 'Final exactly when position == count - 1 (%s), Intermediate otherwise' % w1[0], loc=c.loc)
        else:
            r.fail(rule, tag + ':final', 'the Final flag is not tied to `position == count - 1` with count the length of the iterated chunk sequence: '
                   'for some message sizes no chunk (or a middle chunk) is marked final', loc=c.loc)
    r.count('chunk_constructions', n)
    r.floor(rule, 'chunk_constructions', n, 2)


from ..rulelib import NoEval as _NoEval, eval_sym as _eval


def padding_arithmetic(ctx, rule='padding-arithmetic'):
    """The padding trailer the sender writes (add_space_for_padding_and_signature) must be what the receiver removes
    (verify_padding): the byte values and counts are read from MIR as arithmetic expressions over padding_size and are
    evaluated for every padding size of the mode; the receiver's removal length, an expression over the last two trailer
    bytes, must equal the number of bytes written."""
    r, db = ctx.r, ctx.db
    sb = db.body(SC + 'add_space_for_padding_and_signature'); vb = db.body(SC + 'verify_padding')
    if sb is None or vb is None:
        r.lost(rule, 'functions', 'add_space_for_padding_and_signature / verify_padding not found'); return
    Fs, Fv = ctx.facts(sb), ctx.facts(vb)
    order = {b_: i for i, b_ in enumerate(sb.reachable_blocks(0))}
    from .C01 import rpo
    order = {b_: i for i, b_ in enumerate(rpo(sb))}
    modes = {1: [], 2: []}
    for c in sorted([c for c in sb.calls() if c.bb in order], key=lambda c: order[c.bb]):
        if not re.search(r'encoding::(write_bytes|write_u8)$', c.callee):
            continue
        m = None
        for l, e in Fs.literals_at(c.bb):
            t = fmt_lit(sb, l)
            mm = re.search(r'padding_size\(.*\)\.1 eq ([12])$', t)
            if mm:
                m = int(mm.group(1))
        if m is None:
            continue
        if c.callee.endswith('write_bytes'):
            modes[m].append(('bytes', Fs.sym_operand(c.args[1]), Fs.sym_operand(c.args[2])))
        else:
            modes[m].append(('u8', Fs.sym_operand(c.args[1]), None))
    recv = {}
    for c in vb.calls():
        if c.callee.endswith('checked_sub') and len(c.args) == 2 and Fv.const_int(Fv.sym_operand(c.args[1])) is None:
            lits = [fmt_lit(vb, l) for l, e in Fv.literals_at(c.bb)]
            if any(re.search(r'key_size\(_\d+\) gt 256$', x) for x in lits):
                recv[2] = Fv.sym_operand(c.args[1])
            elif any(re.search(r'key_size\(_\d+\) le 256$', x) for x in lits):
                recv[1] = Fv.sym_operand(c.args[1])
    if not modes[1] or not modes[2] or 1 not in recv or 2 not in recv:
        r.lost(rule, 'shape', 'padding writes per mode (%d, %d) / receiver removal lengths (%s) not recognised' % (len(modes[1]), len(modes[2]), sorted(recv))); return
    def is_p(s):
        return s[0] == 'proj' and s[2] == '.0' and s[1][0] == 'call' and s[1][1].endswith('SecureChannel::padding_size')
    def byte_index(s):
        # Try::branch(Fn::call(closure, tuple{checked_sub(padding_end, k)}))@Continue.0  ->  k
        t = s
        if t[0] == 'proj' and t[2] == '.0':
            t = t[1]
        if t[0] == 'proj' and t[2] == '@Continue':
            t = t[1]
        if t[0] == 'call' and t[1].endswith('Try::branch') and t[2] and t[2][0][0] == 'call' and t[2][0][1].endswith('Fn::call'):
            args = t[2][0][2]
            if len(args) == 2 and args[1][0] == 'agg':
                inner = args[1][4][0] if args[1][4] else None
                if inner is not None and inner[0] == 'call' and inner[1].endswith('checked_sub') and Fv.const_int(inner[2][1]) is not None:
                    return Fv.const_int(inner[2][1])
        return None
    total = 0
    for m, rng in ((1, range(1, 257)), (2, range(2, 1027))):
        bad = None
        try:
            for p in rng:
                leaf = lambda s: p if is_p(s) else None
                trailer = []
                for kind, bsym, nsym in modes[m]:
                    if kind == 'bytes':
                        trailer += [_eval(bsym, leaf)] * _eval(nsym, leaf)
                    else:
                        trailer.append(_eval(bsym, leaf))
                if len(trailer) != p:
                    bad = 'padding_size %d: the sender writes %d trailer bytes' % (p, len(trailer)); break
                def rleaf(s):
                    k = byte_index(s)
                    if k is not None:
                        return trailer[-k] if k <= len(trailer) else 0
                    return None
                removed = _eval(recv[m], rleaf)
                total += 1
                if removed != p:
                    bad = ('padding_size %d: the sender writes %d bytes ending in %s, the receiver removes %d' % (p, len(trailer), trailer[-2:], removed)); break
        except _NoEval as ex:
            r.lost(rule, 'mode%d' % m, 'padding expression not evaluable (%s)' % ex); continue
        if bad:
            r.fail(rule, 'mode%d' % m, 'sender and receiver disagree on the padding trailer (%s padding): %s' % ('one-byte' if m == 1 else 'two-byte', bad), loc=sb.loc)
        else:
            r.ok(rule, 'mode%d' % m, '%s padding: for every padding size %d..%d the receiver removes exactly the bytes the sender appended' % ('one-byte' if m == 1 else 'two-byte', rng[0], rng[-1]), loc=sb.loc)
    r.count('padding_sizes_evaluated', total)
    r.floor(rule, 'padding_sizes_evaluated', total, 1000)
