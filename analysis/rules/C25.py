"""C25 A data change filter the server accepts is never one that can never report (one structural clause, E6/E2)."""
import re
from ..rulelib import *
from ..facts import fmt_sym, fmt_lit


def run(ctx):
    r, db = ctx.r, ctx.db
    r.explanation = ('One clause of the property: DataChangeFilter::compare_value answers Err - which sampling interprets as "no change" '
                     'forever - for a percent deadband without EU range, an unknown deadband type and a negative deadband value. Sampling '
                     '(MonitoredItem::check_for_data_change) is checked to pass either a real EU range or the constant None; in the latter '
                     'case the accepting construction Ok(FilterType::DataChangeFilter(..)) in FilterType::from_filter must be dominated by '
                     'the edges deadband_type != Percent, deadband_type <= Percent and deadband_value >= 0 (IEEE: a positive comparison, so '
                     'NaN is refused too). Trigger semantics and deadband arithmetic are not decided.')
    r.rule_text = 'E6 agreement between the error conditions of compare_value and the acceptance guard in from_filter (MIR edge literals)'
    rule = 'accepted-filter-can-report'
    cb = db.body('server::subscriptions::monitored_item::MonitoredItem::check_for_data_change')
    if cb is None:
        r.lost(rule, 'check_for_data_change', 'not found'); return
    F = ctx.facts(cb)
    cmp_calls = [c for c in cb.calls() if c.callee_raw.endswith('DataChangeFilter>::compare')]
    if not cmp_calls:
        r.lost(rule, 'compare-call', 'no call of DataChangeFilter::compare in check_for_data_change'); return
    eu = fmt_sym(cb, F.sym_operand(cmp_calls[0].args[3]))
    eu_none = eu.endswith('None') or 'Option::None' in eu
    r.extra['eu_range_argument'] = eu
    fb = db.body('server::subscriptions::monitored_item::FilterType::from_filter')
    if fb is None:
        r.lost(rule, 'from_filter', 'FilterType::from_filter not found'); return
    Ff = ctx.facts(fb)
    acc = [(bi, si) for bi, blk in enumerate(fb.blocks) if not blk['c'] for si, st in enumerate(blk['s'])
           if st[0] == '=' and st[2][0] == 'agg' and st[2][2].endswith('FilterType') and st[2][3] == 'DataChangeFilter']
    if not acc:
        r.lost(rule, 'from_filter:accept', 'no FilterType::DataChangeFilter construction found'); return
    for bi, si in acc:
        lits = Ff.literals_at(bi, si)
        t = [fmt_lit(fb, l) for l, e in lits]
        pct = any('deadband_type' in x and ' ne ' in x and re.search(r'\b2\b', x) for x in t)
        known = any('deadband_type' in x and (' le ' in x or ' lt ' in x) for x in t)
        nonneg = any(l[0] == 'cmp' and l[1] in ('ge', 'gt') and 'deadband_value' in fmt_sym(fb, l[2]) for l, e in lits)
        probs = []
        if eu_none and not pct:
            probs.append('a percent deadband (needs the EU range that sampling never supplies)')
        if not known:
            probs.append('an unknown deadband type')
        if not nonneg:
            probs.append('a negative or NaN deadband value')
        if probs:
            r.fail(rule, 'from_filter:DataChangeFilter', 'a data change filter is accepted although compare_value can only answer it with an error (never reports): ' + '; '.join(probs), loc=fb.loc)
        else:
            r.ok(rule, 'from_filter:DataChangeFilter', 'accepted only when deadband_type is None/Absolute and deadband_value >= 0' + ('' if eu_none else ' (EU range supplied by sampling)'), loc=fb.loc)
    if eu_none:
        r.ok(rule, 'sampling:eu_range', 'sampling passes eu_range = None, so percent deadbands must be (and are checked to be) refused at acceptance', status='auto', loc=cmp_calls[0].loc)
    # the error of compare_value is what is interpreted as "same": keep that link visible
    vb = db.body('types::service_types::impls::<impl types::service_types::data_change_filter::DataChangeFilter>::compare_value_option')
    if vb is not None:
        uo = [c for c in vb.calls() if c.callee.endswith('Result::unwrap_or')]
        r.count('unwrap_or_sites', len(uo))
