"""C25 A data change filter the server accepts is never one that can never report (one structural clause, E6/E2)."""
import re
from ..rulelib import *
from ..facts import fmt_sym, fmt_lit


def baseline(ctx, rule='baseline-is-last-reported'):
    """the value the filter compares against is MonitoredItem.last_data_value, and that field is only replaced on the
    branch that reports the sample (the same branch that enqueues the notification)"""
    r, db = ctx.r, ctx.db
    cb = db.body('server::subscriptions::monitored_item::MonitoredItem::check_for_data_change')
    if cb is None:
        r.lost(rule, 'check_for_data_change', 'not found'); return
    F = ctx.facts(cb)
    # who writes the field at all
    writers = set()
    for b in db.find_bodies_mentioning(r'^server::', '.last_data_value'):
        if '::tests::' in b.path:
            continue
        for bi, blk in enumerate(b.blocks):
            if blk['c']:
                continue
            for st in blk['s']:
                if st[0] == '=' and st[1][1] and st[1][1][-1] == '.last_data_value':
                    writers.add(b.path)
    extra = sorted(w for w in writers if not w.endswith('MonitoredItem::check_for_data_change'))
    if extra:
        r.fail(rule, 'writers', 'last_data_value is also assigned in %s: the comparison baseline is no longer only the last reported value' % ', '.join(extra), loc=cb.loc)
    else:
        r.ok(rule, 'writers', 'last_data_value is assigned only in check_for_data_change (and initialised to None in new)', loc=cb.loc)
    enq = [c for c in cb.calls() if c.callee.endswith('MonitoredItem::enqueue_notification_message')]
    asg = [(bi, si) for bi, blk in enumerate(cb.blocks) if not blk['c'] for si, st in enumerate(blk['s'])
           if st[0] == '=' and st[1][1] and st[1][1][-1] == '.last_data_value']
    if not enq or not asg:
        r.lost(rule, 'sites', 'assignment of last_data_value / enqueue_notification_message not found'); return
    def report_flags(bb, si=None):
        return {l[1] for l, e in F.literals_at(bb, si) if l[0] == 'truth' and l[2] is True and l[1][0] == 'place' and not l[1][2]}
    rep = set.intersection(*[report_flags(c.bb) for c in enq])
    for n, (bi, si) in enumerate(asg):
        fl = report_flags(bi, si)
        if rep and fl & rep:
            r.ok(rule, 'assign#%d' % n, 'the baseline is replaced only under `%s == true`, the flag that also guards the notification' % fmt_sym(cb, sorted(fl & rep)[0]), loc=cb.loc)
        else:
            r.fail(rule, 'assign#%d' % n, 'last_data_value is replaced on a path that does not report the sample: the deadband / trigger is then evaluated against '
                   'the last sample instead of the last reported value (slow drift is never reported)', loc=cb.loc)
    # the comparisons read the baseline
    cmps = [c for c in cb.calls() if c.callee_raw.endswith('DataChangeFilter>::compare')]
    for c in cmps:
        a2 = fmt_sym(cb, F.sym_operand(c.args[2]))
        if '.last_data_value' in a2:
            r.ok(rule, 'compare:baseline', 'DataChangeFilter::compare(new sample, %s, ..)' % a2[:60], loc=c.loc)
        else:
            r.fail(rule, 'compare:baseline', 'the filter compares the sample with %s instead of the last reported value' % a2[:80], loc=c.loc)
    r.count('baseline_sites', len(asg) + len(cmps))


def run(ctx):
    r, db = ctx.r, ctx.db
    r.explanation = ('One clause of the property: DataChangeFilter::compare_value answers Err - which sampling interprets as "no change" '
                     'forever - for a percent deadband without EU range, an unknown deadband type and a negative deadband value. Sampling '
                     '(MonitoredItem::check_for_data_change) is checked to pass either a real EU range or the constant None; in the latter '
                     'case the accepting construction Ok(FilterType::DataChangeFilter(..)) in FilterType::from_filter must be dominated by '
                     'the edges deadband_type != Percent, deadband_type <= Percent and deadband_value >= 0 (IEEE: a positive comparison, so '
                     'NaN is refused too). Baseline clause: MonitoredItem.last_data_value - the value every comparison reads - is replaced only on the reporting branch. Trigger semantics and deadband arithmetic are not decided.')
    r.rule_text = 'E6 agreement between the error conditions of compare_value and the acceptance guard in from_filter (MIR edge literals)'
    baseline(ctx)
    rule = 'accepted-filter-can-report'
    cb = db.body('server::subscriptions::monitored_item::MonitoredItem::check_for_data_change')
    if cb is None:
        r.lost(rule, 'check_for_data_change', 'not found'); return
    F = ctx.facts(cb)
    cmp_calls = [c for c in cb.calls() if c.callee_raw.endswith('DataChangeFilter>::compare')]
    if not cmp_calls:
        r.lost(rule, 'compare-call', 'no call of DataChangeFilter::compare in check_for_data_change'); return
    eu = fmt_sym(cb, F.sym_operand(cmp_calls[0].args[3]))
    eu_none = eu.endswith('None') or 'Option::None' in eu
    r.extra['eu_range_argument'] = eu
    fb = db.body('server::subscriptions::monitored_item::FilterType::from_filter')
    if fb is None:
        r.lost(rule, 'from_filter', 'FilterType::from_filter not found'); return
    Ff = ctx.facts(fb)
    acc = [(bi, si) for bi, blk in enumerate(fb.blocks) if not blk['c'] for si, st in enumerate(blk['s'])
           if st[0] == '=' and st[2][0] == 'agg' and st[2][2].endswith('FilterType') and st[2][3] == 'DataChangeFilter']
    if not acc:
        r.lost(rule, 'from_filter:accept', 'no FilterType::DataChangeFilter construction found'); return
    for bi, si in acc:
        lits = Ff.literals_at(bi, si)
        t = [fmt_lit(fb, l) for l, e in lits]
        pct = any('deadband_type' in x and ' ne ' in x and re.search(r'\b2\b', x) for x in t)
        known = any('deadband_type' in x and (' le ' in x or ' lt ' in x) for x in t)
        nonneg = any(l[0] == 'cmp' and l[1] in ('ge', 'gt') and 'deadband_value' in fmt_sym(fb, l[2]) for l, e in lits)
        probs = []
        if eu_none and not pct:
            probs.append('a percent deadband (needs the EU range that sampling never supplies)')
        if not known:
            probs.append('an unknown deadband type')
        if not nonneg:
            probs.append('a negative or NaN deadband value')
        if probs:
            r.fail(rule, 'from_filter:DataChangeFilter', 'a data change filter is accepted although compare_value can only answer it with an error (never reports): ' + '; '.join(probs), loc=fb.loc)
        else:
            r.ok(rule, 'from_filter:DataChangeFilter', 'accepted only when deadband_type is None/Absolute and deadband_value >= 0' + ('' if eu_none else ' (EU range supplied by sampling)'), loc=fb.loc)
    if eu_none:
        r.ok(rule, 'sampling:eu_range', 'sampling passes eu_range = None, so percent deadbands must be (and are checked to be) refused at acceptance', status='auto', loc=cmp_calls[0].loc)
    # the error of compare_value is what is interpreted as "same": keep that link visible
    vb = db.body('types::service_types::impls::<impl types::service_types::data_change_filter::DataChangeFilter>::compare_value_option')
    if vb is not None:
        uo = [c for c in vb.calls() if c.callee.endswith('Result::unwrap_or')]
        r.count('unwrap_or_sites', len(uo))
