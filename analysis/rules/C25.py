"""C25 A data change filter the server accepts is never one that can never report (one structural clause, E6/E2)."""
import re
from ..rulelib import *
from ..facts import fmt_sym, fmt_lit


def baseline(ctx, rule='baseline-is-last-reported'):
    """the value the filter compares against is MonitoredItem.last_data_value, and that field is only replaced on the
    branch that reports the sample (the same branch that enqueues the notification)"""
    r, db = ctx.r, ctx.db
    cb = db.body('server::subscriptions::monitored_item::MonitoredItem::check_for_data_change')
    if cb is None:
        r.lost(rule, 'check_for_data_change', 'not found'); return
    F = ctx.facts(cb)
    # who writes the field at all
    writers = set()
    for b in db.find_bodies_mentioning(r'^server::', '.last_data_value'):
        if '::tests::' in b.path:
            continue
        for bi, blk in enumerate(b.blocks):
            if blk['c']:
                continue
            for st in blk['s']:
                if st[0] == '=' and st[1][1] and st[1][1][-1] == '.last_data_value':
                    writers.add(b.path)
    extra = sorted(w for w in writers if not w.endswith('MonitoredItem::check_for_data_change'))
    if extra:
        r.fail(rule, 'writers', 'last_data_value is also assigned in %s: the comparison baseline is no longer only the last reported value' % ', '.join(extra), loc=cb.loc)
    else:
        r.ok(rule, 'writers', 'last_data_value is assigned only in check_for_data_change (and initialised to None in new)', loc=cb.loc)
    enq = [c for c in cb.calls() if c.callee.endswith('MonitoredItem::enqueue_notification_message')]
    asg = [(bi, si) for bi, blk in enumerate(cb.blocks) if not blk['c'] for si, st in enumerate(blk['s'])
           if st[0] == '=' and st[1][1] and st[1][1][-1] == '.last_data_value']
    if not enq or not asg:
        r.lost(rule, 'sites', 'assignment of last_data_value / enqueue_notification_message not found'); return
    def report_flags(bb, si=None):
        return {l[1] for l, e in F.literals_at(bb, si) if l[0] == 'truth' and l[2] is True and l[1][0] == 'place' and not l[1][2]}
    rep = set.intersection(*[report_flags(c.bb) for c in enq])
    for n, (bi, si) in enumerate(asg):
        fl = report_flags(bi, si)
        if rep and fl & rep:
            r.ok(rule, 'assign#%d' % n, 'the baseline is replaced only under `%s == true`, the flag that also guards the notification' % fmt_sym(cb, sorted(fl & rep)[0]), loc=cb.loc)
        else:
            r.fail(rule, 'assign#%d' % n, 'last_data_value is replaced on a path that does not report the sample: the deadband / trigger is then evaluated against '
                   'the last sample instead of the last reported value (slow drift is never reported)', loc=cb.loc)
    # the comparisons read the baseline
    cmps = [c for c in cb.calls() if c.callee_raw.endswith('DataChangeFilter>::compare')]
    for c in cmps:
        a2 = fmt_sym(cb, F.sym_operand(c.args[2]))
        if '.last_data_value' in a2:
            r.ok(rule, 'compare:baseline', 'DataChangeFilter::compare(new sample, %s, ..)' % a2[:60], loc=c.loc)
        else:
            r.fail(rule, 'compare:baseline', 'the filter compares the sample with %s instead of the last reported value' % a2[:80], loc=c.loc)
    r.count('baseline_sites', len(asg) + len(cmps))


def same_answer_table(ctx, rule='same-answer-table'):
    """which (trigger, status, value presence, timestamp) combinations are answered "same" (= not reported):
    compare_value_option says same without consulting the filter only for (None, None), says different for exactly one None and
    defers to compare_value(v1, v2) for two values; compare says same only after status equality (every trigger), value
    sameness (StatusValue, StatusValueTimestamp) and server timestamp equality (StatusValueTimestamp)."""
    from ..rulelib import incoming_literal_sets
    r, db = ctx.r, ctx.db
    P = 'types::service_types::impls::<impl types::service_types::data_change_filter::DataChangeFilter>::'
    n = 0
    b = db.body(P + 'compare_value_option')
    if b is None:
        r.lost(rule, 'compare_value_option', 'not found')
    else:
        F = ctx.facts(b)
        seen_defer = False
        for d in b.defs().get(0, []):
            n += 1
            if d[0] == 'stmt':
                bi, si = d[1], d[2]
                val = fmt_sym(b, F.sym_rvalue(d[3], bi, si))
                sets = [[fmt_lit(b, l) for l, e in F.literals_at(bi, si)]]
                if not sets[0]:
                    sets = incoming_literal_sets(b, F, bi) or [[]]
                for lits in sets:
                    n1 = any(re.match(r'^\(\*v1\(_\d+\)\) is None$', x) for x in lits); s1 = any(re.match(r'^\(\*v1\(_\d+\)\) is Some$', x) for x in lits)
                    n2 = any(re.match(r'^\(\*v2\(_\d+\)\) is None$', x) for x in lits); s2 = any(re.match(r'^\(\*v2\(_\d+\)\) is Some$', x) for x in lits)
                    key = 'compare_value_option:%s@%s' % (val, '+'.join(sorted(x.split(') is ')[-1] + x[3:5] for x in lits)) or 'unguarded')
                    if val in ('1', 'true'):
                        if n1 and n2:
                            r.ok(rule, key, 'answers "same" without the filter only when both values are absent', loc=b.loc)
                        else:
                            r.fail(rule, key, 'compare_value_option answers "same" under [%s]: a value appearing where the last report had none (or the reverse) is never reported'
                                   % ', '.join(lits), loc=b.loc)
                    elif val in ('0', 'false'):
                        if (n1 and s2) or (s1 and n2):
                            r.ok(rule, key, 'answers "different" when exactly one of the values is absent', loc=b.loc)
                        else:
                            r.fail(rule, key, 'compare_value_option answers "different" under [%s]: reported although nothing the trigger selects changed' % ', '.join(lits), loc=b.loc)
                    else:
                        r.fail(rule, key, 'compare_value_option answers %s: not one of the three recognised rows' % val[:80], loc=b.loc)
            else:
                c = d[2]
                lits = [fmt_lit(b, l) for l, e in F.literals_at(d[1])]
                a = [fmt_sym(b, F.sym_operand(x)) for x in c.args]
                both = any(re.match(r'^\(\*v1\(_\d+\)\) is Some$', x) for x in lits) and any(re.match(r'^\(\*v2\(_\d+\)\) is Some$', x) for x in lits)
                m = re.match(r'^impls::compare_value\(&\(\*self\(_1\)\), &\(\*v1\(_\d+\)\)@Some\.0, &\(\*v2\(_\d+\)\)@Some\.0, eu_range\(_\d+\)\)$', a[0]) if a else None
                if c.callee.endswith('Result::unwrap_or') and both and m:
                    seen_defer = True
                    r.ok(rule, 'compare_value_option:defer', 'two present values are decided by compare_value(v1, v2, eu_range)', loc=c.loc)
                else:
                    r.fail(rule, 'compare_value_option:defer', 'the answer %s(%s) under [%s] is not compare_value on the two present values' % (c.callee.rsplit('::', 1)[-1], ', '.join(a)[:100], ', '.join(lits)), loc=c.loc)
        if not seen_defer:
            r.fail(rule, 'compare_value_option:defer-missing', 'compare_value_option never consults compare_value: the filter (deadband) is not applied', loc=b.loc)
    b = db.body(P + 'compare')
    if b is None:
        r.lost(rule, 'compare', 'not found')
    else:
        F = ctx.facts(b)
        ST = r'\(\*v1\(_\d+\)\)\.status eq \(\*v2\(_\d+\)\)\.status'
        VO = r'impls::compare_value_option\(&\(\*self\(_1\)\), &\(\*v1\(_\d+\)\)\.value, &\(\*v2\(_\d+\)\)\.value, eu_range\(_\d+\)\) == True'
        need = {'Status': [], 'StatusValue': [ST], 'StatusValueTimestamp': [ST, VO]}
        final = {'Status': r'^PartialEq::eq\(&\(\*v1\(_\d+\)\)\.status, &\(\*v2\(_\d+\)\)\.status\)$',
                 'StatusValue': r'^impls::compare_value_option\(&\(\*self\(_1\)\), &\(\*v1\(_\d+\)\)\.value, &\(\*v2\(_\d+\)\)\.value, eu_range\(_\d+\)\)$',
                 'StatusValueTimestamp': r'^PartialEq::eq\(&\(\*v1\(_\d+\)\)\.server_timestamp, &\(\*v2\(_\d+\)\)\.server_timestamp\)$'}
        done = set()
        for d in b.defs().get(0, []):
            if d[0] == 'stmt':
                bi, si = d[1], d[2]
                val = fmt_sym(b, F.sym_rvalue(d[3], bi, si))
                lits = [fmt_lit(b, l) for l, e in F.literals_at(bi, si)]
                what = val
            else:
                lits = [fmt_lit(b, l) for l, e in F.literals_at(d[1])]
                val = None
                what = '%s(%s)' % ('impls::' + d[2].callee.rsplit('::', 1)[-1] if 'impls' in d[2].callee else 'PartialEq::' + d[2].callee.rsplit('::', 1)[-1],
                                   ', '.join(fmt_sym(b, F.sym_operand(x)) for x in d[2].args))
            trig = [m.group(1) for x in lits for m in [re.match(r'^\(\*self\(_1\)\)\.trigger is (\w+)$', x)] if m]
            n += 1
            if len(trig) != 1 or trig[0] not in need:
                r.fail(rule, 'compare:%s' % what[:40], 'compare answers %s under [%s]: not tied to one trigger' % (what[:80], ', '.join(lits)), loc=b.loc); continue
            t = trig[0]
            if val in ('0', 'false'):
                r.ok(rule, 'compare:%s:different@%d' % (t, d[1]), 'trigger %s: an early "different"' % t, loc=b.loc); continue
            if val is None and re.match(final[t], what) and all(any(re.search(p_, x) for x in lits) for p_ in need[t]):
                done.add(t)
                r.ok(rule, 'compare:%s:same' % t, 'trigger %s: "same" needs %s' % (t, {'Status': 'equal status', 'StatusValue': 'equal status and same value',
                     'StatusValueTimestamp': 'equal status, same value and equal server timestamp'}[t]), loc=b.loc)
            else:
                r.fail(rule, 'compare:%s:same' % t, 'trigger %s answers %s under [%s]: a change the trigger selects is not reported (or an unselected one is)' % (t, what[:100], ', '.join(lits)[:200]), loc=b.loc)
        for t in need:
            if t not in done:
                r.fail(rule, 'compare:%s:missing' % t, 'no answer of compare recognised for trigger %s' % t, loc=b.loc)
    r.count('same_answer_rows', n)
    r.floor(rule, 'same_answer_rows', n, 8)


def run(ctx):
    r, db = ctx.r, ctx.db
    r.explanation = ('One clause of the property: DataChangeFilter::compare_value answers Err - which sampling interprets as "no change" '
                     'forever - for a percent deadband without EU range, an unknown deadband type and a negative deadband value. Sampling '
                     '(MonitoredItem::check_for_data_change) is checked to pass either a real EU range or the constant None; in the latter '
                     'case the accepting construction Ok(FilterType::DataChangeFilter(..)) in FilterType::from_filter must be dominated by '
                     'the edges deadband_type != Percent, deadband_type <= Percent and deadband_value >= 0 (IEEE: a positive comparison, so '
                     'NaN is refused too). Baseline clause: MonitoredItem.last_data_value - the value every comparison reads - is replaced only on the reporting branch. Answer table: compare / compare_value_option say "same" only on the rows the trigger allows (status; status and value; status, value and server timestamp; absent vs present value is a change). Deadband arithmetic is not decided.')
    r.rule_text = 'E6 agreement between the error conditions of compare_value and the acceptance guard in from_filter (MIR edge literals)'
    baseline(ctx)
    same_answer_table(ctx)
    rule = 'accepted-filter-can-report'
    cb = db.body('server::subscriptions::monitored_item::MonitoredItem::check_for_data_change')
    if cb is None:
        r.lost(rule, 'check_for_data_change', 'not found'); return
    F = ctx.facts(cb)
    cmp_calls = [c for c in cb.calls() if c.callee_raw.endswith('DataChangeFilter>::compare')]
    if not cmp_calls:
        r.lost(rule, 'compare-call', 'no call of DataChangeFilter::compare in check_for_data_change'); return
    eu = fmt_sym(cb, F.sym_operand(cmp_calls[0].args[3]))
    eu_none = eu.endswith('None') or 'Option::None' in eu
    r.extra['eu_range_argument'] = eu
    fb = db.body('server::subscriptions::monitored_item::FilterType::from_filter')
    if fb is None:
        r.lost(rule, 'from_filter', 'FilterType::from_filter not found'); return
    Ff = ctx.facts(fb)
    acc = [(bi, si) for bi, blk in enumerate(fb.blocks) if not blk['c'] for si, st in enumerate(blk['s'])
           if st[0] == '=' and st[2][0] == 'agg' and st[2][2].endswith('FilterType') and st[2][3] == 'DataChangeFilter']
    if not acc:
        r.lost(rule, 'from_filter:accept', 'no FilterType::DataChangeFilter construction found'); return
    for bi, si in acc:
        lits = Ff.literals_at(bi, si)
        t = [fmt_lit(fb, l) for l, e in lits]
        pct = any('deadband_type' in x and ' ne ' in x and re.search(r'\b2\b', x) for x in t)
        known = any('deadband_type' in x and (' le ' in x or ' lt ' in x) for x in t)
        nonneg = any(l[0] == 'cmp' and l[1] in ('ge', 'gt') and 'deadband_value' in fmt_sym(fb, l[2]) for l, e in lits)
        probs = []
        if eu_none and not pct:
            probs.append('a percent deadband (needs the EU range that sampling never supplies)')
        if not known:
            probs.append('an unknown deadband type')
        if not nonneg:
            probs.append('a negative or NaN deadband value')
        if probs:
            r.fail(rule, 'from_filter:DataChangeFilter', 'a data change filter is accepted although compare_value can only answer it with an error (never reports): ' + '; '.join(probs), loc=fb.loc)
        else:
            r.ok(rule, 'from_filter:DataChangeFilter', 'accepted only when deadband_type is None/Absolute and deadband_value >= 0' + ('' if eu_none else ' (EU range supplied by sampling)'), loc=fb.loc)
    if eu_none:
        r.ok(rule, 'sampling:eu_range', 'sampling passes eu_range = None, so percent deadbands must be (and are checked to be) refused at acceptance', status='auto', loc=cmp_calls[0].loc)
    # the error of compare_value is what is interpreted as "same": keep that link visible
    vb = db.body('types::service_types::impls::<impl types::service_types::data_change_filter::DataChangeFilter>::compare_value_option')
    if vb is not None:
        uo = [c for c in vb.calls() if c.callee.endswith('Result::unwrap_or')]
        r.count('unwrap_or_sites', len(uo))
