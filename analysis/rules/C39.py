"""C39 Event filters evaluate safely (E1 + E6 table agreement between validation and evaluation)."""
import re
from ..rulelib import *
from ..facts import fmt_sym, fmt_lit
from ..panics import run_e1

OP = 'server::events::operator::'
EF = 'server::events::event_filter::'
ENTRY = r'^server::events::event_filter::(validate|evaluate|evaluate_where_clause)$|^server::events::operator::'


def variant_arms(ctx, body, enum_suffix):
    """{variant: target block} of the (first) switch on a discriminant of the enum"""
    F = ctx.facts(body)
    for bi, blk in enumerate(body.blocks):
        t = blk['t']
        if t[0] == 'switch':
            e = F.sym_operand(t[1])
            if e[0] == 'discr' and enum_suffix in e[2]:
                names = F.variants_of(e[2])
                out = {}
                for dst, lab in body.succ_edges(bi):
                    if lab[0] == 'val' and int(lab[1]) < len(names):
                        out[names[int(lab[1])]] = dst
                return out
    return {}


def tables(ctx):
    db = ctx.db
    # validation: operator -> minimum operand count
    need = {}
    vb = None
    for b in db.find_bodies(r'^' + re.escape(EF) + r'validate_where_clause(::\{closure#\d+\})*$'):
        arms = variant_arms(ctx, b, 'FilterOperator')
        if arms:
            vb = b
            for v, dst in arms.items():
                cur = dst
                for _ in range(4):
                    for st in b.stmts(cur):
                        if st[0] == '=' and st[2][0] == 'bin' and st[2][1] == 'Lt' and st[2][3][0] == 'k' and v not in need:
                            need[v] = int(st[2][3][1])
                    nxt = b.succ(cur)
                    if v in need or len(nxt) != 1:
                        break
                    cur = nxt[0]
    # dispatch: operator -> evaluation function
    eb = db.body(OP + 'evaluate')
    disp = {}
    if eb is not None:
        for v, dst in variant_arms(ctx, eb, 'FilterOperator').items():
            seen = set(); cur = dst
            for _ in range(12):
                if cur in seen:
                    break
                seen.add(cur)
                t = eb.term(cur)
                if t[0] == 'call' and t[1][0] == 'fn' and t[1][1].startswith(OP):
                    disp[v] = t[1][1]; break
                nxt = eb.succ(cur)
                if len(nxt) != 1:
                    break
                cur = nxt[0]
    # evaluation functions: highest constant operand index used (through helpers they call with the same slice)
    def max_index(fn, seen=None):
        seen = seen or set()
        if fn in seen:
            return -1
        seen.add(fn)
        b = db.body(fn)
        if b is None:
            return -1
        F = ctx.facts(b)
        m = -1
        for bi, blk in enumerate(b.blocks):
            t = blk['t']
            if t[0] == 'assert' and t[3][0] == 'BoundsCheck':
                ix = F.sym_operand(t[3][2]); ln = fmt_sym(b, F.sym_operand(t[3][1]))
                if 'operands' in ln and F.const_int(ix) is not None:
                    m = max(m, F.const_int(ix))
            if t[0] == 'call' and t[1][0] == 'fn':
                if t[1][1].endswith('ops::Index::index') and len(t[2]) == 2 and 'operands' in fmt_sym(b, F.sym_operand(t[2][0])):
                    ix = F.sym_operand(t[2][1])
                    if ix[0] == 'agg' and ix[4] and F.const_int(ix[4][0]) is not None:
                        m = max(m, F.const_int(ix[4][0]) - 1)
                if t[1][1].startswith(OP) and t[1][1] not in (OP + 'evaluate', OP + 'value_of') and any('operands' in fmt_sym(b, F.sym_operand(a)) for a in t[2]):
                    m = max(m, max_index(t[1][1], seen))
        return m
    used = {v: max_index(fn) for v, fn in disp.items()}
    return need, disp, used, vb


def run(ctx):
    r, db = ctx.r, ctx.db
    r.explanation = ('A where clause is evaluated only after it passed validation (event_filter::validate refuses a clause with any failed '
                     'element; MonitoredItem creation and modification install a filter only after validate succeeded). Table agreement: '
                     'for every FilterOperator, the minimum operand count enforced by validate_where_clause is at least 1 + the highest '
                     'constant operand index the evaluation function dispatched for that operator uses; validation also bounds element '
                     'indices and refuses AttributeOperand. With that, the operand indexing sites are discharged automatically; every '
                     'other panic site reachable from validate / evaluate / the operator functions needs a disposition. LIKE semantics '
                     'and operator results are value-level and not decided.')
    r.rule_text = 'E6 table agreement (validation counts vs evaluation indices) read from MIR; E2 validation gate; E1 panic inventory'
    need, disp, used, vb = tables(ctx)
    rule = 'operand-count-agreement'
    r.extra['validated_min_operands'] = need; r.extra['max_operand_index_used'] = used
    if len(need) < 12 or len(disp) < 12:
        r.lost(rule, 'tables', 'could not read the validation (%d) / dispatch (%d) tables' % (len(need), len(disp)))
    agree = {}
    for v, fn in sorted(disp.items()):
        key = 'operator:' + v
        n = need.get(v)
        if n is None:
            r.fail(rule, key, 'operator %s is evaluated by %s but validate_where_clause has no operand count for it' % (v, fn.rsplit('::', 1)[-1]), loc=vb.loc if vb else '')
        elif used[v] + 1 > n:
            r.fail(rule, key, 'operator %s: validation requires only %d operand(s) but %s reads operands[%d]' % (v, n, fn.rsplit('::', 1)[-1], used[v]), loc=db.body(fn).loc)
        else:
            agree[fn] = n
            r.ok(rule, key, '%s: validated >= %d operands, evaluation uses index <= %d' % (v, n, used[v]), loc=db.body(fn).loc)
    r.floor(rule, 'operators', len(disp), 15)
    validation_gate(ctx)
    operand_gate(ctx)
    visited_set_balanced(ctx)
    operator_truth_tables(ctx)

    run_e1(ctx, ENTRY, extra_auto=make_table_auto(ctx, agree))


def validation_gate(ctx):
    r, db = ctx.r, ctx.db
    # ---------------- validation gate
    rule = 'validation-gate'
    vf = db.body(EF + 'validate')
    if vf is None:
        r.lost(rule, 'validate', 'event_filter::validate not found')
    else:
        F = ctx.facts(vf)
        oks = result_ctor_sites(vf, 'Ok')
        good = False
        for bb, si, pl in oks:
            lits = F.literals_at(bb, si)
            if any(l[0] == 'truth' and l[2] is True and ('where_clause_valid' in fmt_sym(vf, l[1]) or 'map_or' in fmt_sym(vf, l[1]) or 'all' in fmt_sym(vf, l[1])) for l, e in lits):
                good = True
        checks_status = any(c.callee_raw.endswith('::is_good') or c.callee_raw.endswith('::is_bad') for cb in db.find_bodies(r'^' + re.escape(EF) + r'validate::\{closure') for c in cb.calls())
        if good and checks_status:
            r.ok(rule, 'validate:refuses-failed-elements', 'validate returns Ok only when every where-clause element result is good', loc=vf.loc)
        else:
            r.fail(rule, 'validate:refuses-failed-elements', 'event_filter::validate can return Ok for a where clause with failed elements (the filter would be installed and evaluated)', loc=vf.loc)
    mb = db.body('server::subscriptions::monitored_item::MonitoredItem::modify')
    if mb is None:
        r.lost(rule, 'modify', 'MonitoredItem::modify not found')
    else:
        F = ctx.facts(mb)
        asg = [(bi, si) for bi, blk in enumerate(mb.blocks) if not blk['c'] for si, st in enumerate(blk['s']) if st[0] == '=' and st[1][1] and st[1][1][-1] == '.filter']
        vcalls = [c for c in mb.calls() if c.callee == EF + 'validate']
        if not asg:
            r.lost(rule, 'modify:filter-assign', 'assignment of self.filter not found in modify')
        for bi, si in asg:
            # on the EventFilter edge the assignment must come after a successful validate
            ev_edges = edges_where(F, lambda l: l[0] == 'variant' and l[2] == 'EventFilter' and l[3])
            ok = False
            if vcalls:
                tr = edges_where(F, lambda l: l[0] == 'try' and l[2] and l[1][0] == 'call' and l[1][1] == EF + 'validate')
                not_ev = edges_where(F, lambda l: l[0] == 'variant' and l[2] == 'EventFilter' and not l[3])
                ok = unreachable_without(mb, bi, tr + not_ev)
            if ok:
                r.ok(rule, 'modify:validate-before-install', 'a new event filter replaces the current one only after event_filter::validate succeeded', loc=mb.loc)
            else:
                r.fail(rule, 'modify:validate-before-install', 'ModifyMonitoredItems installs the new filter before (or without) validating it', loc=mb.loc)
    # who-may-register: every insertion into a subscription's monitored_items map, wherever it is written
    cls = [b_ for b_ in db.find_bodies(r'^server::subscriptions::') if not re.search(r'::tests?::', b_.path)]
    done = False
    for cb in cls:
        if not any(re.search(r'(HashMap|BTreeMap)::insert$', c.callee) for c in cb.calls()):
            continue
        F = ctx.facts(cb)
        ins = [c for c in cb.calls() if re.search(r'(HashMap|BTreeMap)::insert$', c.callee) and re.search(r'[._]monitored_items(\(_[\d.]+\))?$', fmt_sym(cb, F.sym_operand(c.args[0])))]
        for i_, c in enumerate(ins):
            done = True
            lits = F.literals_at(c.bb)
            key = 'create:validate-before-register' + ('' if cb.path.endswith('create_monitored_items::{closure#0}') else '@' + cb.path.rsplit('::', 1)[-1] + ('#%d' % i_ if i_ else ''))
            if any(l[0] == 'variant' and l[2] == 'Ok' and l[3] and 'validate_filter' in fmt_sym(cb, l[1]) for l, e in lits):
                r.ok(rule, key, 'a monitored item is registered only on the Ok edge of validate_filter', loc=c.loc)
            else:
                r.fail(rule, key, 'a monitored item is registered without its filter having passed validation', loc=c.loc)
    if not done:
        r.lost(rule, 'create', 'registration of monitored items not found')


def operand_gate(ctx, rule='operand-gate'):
    """what validate_where_clause accepts (StatusCode::Good) per operand kind must be what value_of can evaluate:
    an ElementOperand only with index < elements.len(), an AttributeOperand never (value_of panics on it)"""
    import json
    r, db = ctx.r, ctx.db
    bs = db.find_bodies_mentioning(r'^' + re.escape(EF) + r'validate_where_clause::\{closure', 'ElementOperand')
    n = 0; elem = 0
    for b in bs:
        F = ctx.facts(b)
        for bi, blk in enumerate(b.blocks):
            for si, st in enumerate(blk['s']):
                if st[0] != '=' or 'StatusCode::Good' not in json.dumps(st[2]):
                    continue
                lits = F.literals_at(bi, si)
                kinds = [l[2] for l, e in lits if l[0] == 'variant' and l[3] and l[2] in ('ElementOperand', 'AttributeOperand', 'LiteralOperand', 'SimpleAttributeOperand')]
                if not kinds:
                    continue
                n += 1
                kind = kinds[-1]
                key = 'accepts:%s#%d' % (kind, n)
                if kind == 'AttributeOperand':
                    r.fail(rule, key, 'validate_where_clause accepts an AttributeOperand, which operator::value_of cannot evaluate (panic!())', loc=b.loc)
                elif kind == 'ElementOperand':
                    elem += 1
                    ok = [l for l, e in lits if l[0] == 'cmp' and l[1] == 'lt' and '.index' in fmt_sym(b, l[2]) and l[3][0] == 'len' and 'elements' in fmt_sym(b, l[3])]
                    if ok:
                        r.ok(rule, key, 'an ElementOperand is accepted only under `%s`' % fmt_lit(b, ok[0])[:140], loc=b.loc)
                    else:
                        r.fail(rule, key, 'an ElementOperand is accepted without `index < elements.len()`: evaluation indexes the element list with it '
                               '(operator::value_of, elements[o.index as usize])', loc=b.loc)
                else:
                    r.ok(rule, key, '%s accepted (evaluated without indexing)' % kind, loc=b.loc)
    if not elem:
        r.lost(rule, 'accepts:ElementOperand', 'the accepting branch for ElementOperand was not found in validate_where_clause')
    r.count('operand_gate_sites', n)


def operand_agreement(ctx):
    """{evaluation fn: validated minimum operand count} for operators whose validation covers their indices"""
    need, disp, used, vb = tables(ctx)
    return {fn: need[v] for v, fn in disp.items() if v in need and used[v] + 1 <= need[v]}


def make_table_auto(ctx, agree=None):
    db = ctx.db
    if agree is None:
        agree = operand_agreement(ctx)

    def table_auto(ctx, site):
        fn = re.sub(r'::\{closure#\d+\}$', '', site.body.path)
        if not fn.startswith(OP):
            return None
        g = site.goal
        F = ctx.facts(site.body)
        ns = [n for f, n in agree.items() if f == fn]
        if not ns:
            # helper functions are called by dispatched functions with the same operand slice
            ns = [n for f, n in agree.items() if fn in {c.callee_raw for c in (db.body(f).calls() if db.body(f) else [])}]
        if g[0] == 'assert' and g[1][0] == 'BoundsCheck':
            ix = F.sym_operand(g[1][2]); ln = fmt_sym(site.body, F.sym_operand(g[1][1]))
            k = F.const_int(ix)
            if 'operands' in ln and k is not None and ns and k < min(ns):
                return 'operands[%d]: validation guarantees >= %d operands for every operator dispatched here (C39 table agreement)' % (k, min(ns))
        if g[0] == 'api' and g[1] == 'index' and len(site.term[2]) == 2:
            recv = fmt_sym(site.body, F.sym_operand(site.term[2][0]))
            ix = F.sym_operand(site.term[2][1])
            if 'operands' in recv and ix[0] == 'agg' and ix[2].endswith('ops::RangeFrom') and F.const_int(ix[4][0]) is not None:
                if ns and F.const_int(ix[4][0]) <= min(ns):
                    return 'operands[%d..]: validation guarantees >= %d operands (C39 table agreement)' % (F.const_int(ix[4][0]), min(ns))
        return None
    return table_auto


def visited_set_balanced(ctx, rule='cycle-set-is-a-path-set'):
    """operator::value_of guards the element recursion with a set of the elements on the CURRENT evaluation path: the index
    inserted before evaluate(..) must be removed again on every path from that call to the return, otherwise an element that is
    legitimately reached twice (Between(e, lo, hi), two operands naming the same element) is reported as a cycle"""
    r, db = ctx.r, ctx.db
    b = db.body('server::events::operator::value_of')
    if b is None:
        r.lost(rule, 'value_of', 'operator::value_of not found'); return
    F = ctx.facts(b)
    ev = [c for c in b.calls() if c.callee.endswith('operator::evaluate')]
    ins = [c for c in b.calls() if re.search(r'HashSet::insert$', c.callee)]
    rem = [c for c in b.calls() if re.search(r'HashSet::remove$', c.callee)]
    if len(ev) != 1 or not ins:
        r.lost(rule, 'shape', 'recursive evaluate call / insertion into the cycle set not found in value_of'); return
    c = ev[0]
    def key_of(call):
        k = F.sym_operand(call.args[1])
        while k[0] in ('ref', 'deref'):
            k = k[1]
        return k
    good = [x for x in rem if F.sym_operand(x.args[0]) == F.sym_operand(ins[0].args[0]) and key_of(x) == key_of(ins[0])]
    if not good:
        r.fail(rule, 'value_of', 'the element index inserted into the cycle set before evaluate(..) is never removed: the set grows into "every element ever visited" '
               'and a clause that reaches one element twice fails with BadFilterOperandInvalid', loc=c.loc); return
    stop = {x.bb for x in good}
    reach = b.reachable_blocks(c.target, stop=stop) if c.target is not None else set()
    leaks = [bb for bb in b.return_blocks() if bb in reach and bb not in stop]
    if leaks:
        r.fail(rule, 'value_of', 'a path from the recursive evaluate(..) to the return does not remove the element index from the cycle set', loc=c.loc)
    else:
        r.ok(rule, 'value_of', 'insert(index) ... evaluate(..) ... remove(index) on every path: the set holds exactly the elements of the current evaluation path', loc=c.loc)


def operator_truth_tables(ctx, rule='comparison-truth-table'):
    """Equals / GreaterThan / LessThan / GreaterThanOrEqual / LessThanOrEqual answer TRUE for exactly the comparison outcomes the
    operator names; in particular never for Error (operands without a common ordered type, a missing attribute) or NotEquals.
    The boolean handed to Variant::from is evaluated for every variant of ComparisonResult from its definitions and their guards."""
    r, db = ctx.r, ctx.db
    adt = db.adts.get('server::events::operator::ComparisonResult')
    if not adt:
        r.lost(rule, 'ComparisonResult', 'enum not found'); return
    ALL = [v['name'] for v in adt['variants']]
    WANT = {'eq': {'Equals'}, 'gt': {'GreaterThan'}, 'lt': {'LessThan'}, 'gte': {'GreaterThan', 'Equals'}, 'lte': {'LessThan', 'Equals'}}
    n = 0
    for fn, want in sorted(WANT.items()):
        b = db.body('server::events::operator::' + fn)
        if b is None:
            r.lost(rule, fn, 'operator::%s not found' % fn); continue
        F = ctx.facts(b)
        intos = [c for c in b.calls() if c.callee.endswith('Into::into') and c.args and c.args[0][0] in ('mv', 'cp') and b.locals[c.args[0][1][0]] == 'bool']
        if len(intos) != 1:
            r.lost(rule, fn + ':value', 'expected one bool converted into the Variant result, found %d' % len(intos)); continue

        def kname(s_):
            while s_[0] in ('ref', 'deref'):
                s_ = s_[1]
            if s_[0] == 'k' and 'ComparisonResult::' in s_[1]:
                return s_[1].rsplit('::', 1)[-1]
            if s_[0] == 'agg' and s_[3] in ALL:
                return s_[3]
            return None

        def is_subject(s_):
            return 'compare_operands' in fmt_sym(b, s_)

        def consistent(lits):
            ok = set(ALL)
            for l in lits:
                if l[0] == 'cmp' and l[1] in ('eq', 'ne') and is_subject(l[2]) and kname(l[3]):
                    ok &= {kname(l[3])} if l[1] == 'eq' else set(ALL) - {kname(l[3])}
            return ok

        unknown = []

        def truth(local, depth=0):
            out = set()
            for d in b.defs().get(local, []):
                if d[0] == 'stmt':
                    base = consistent([l for l, e in F.literals_at(d[1], d[2])])
                    rv = d[3]
                    if rv[0] == 'use' and rv[1][0] == 'k':
                        if rv[1][1] in ('1', 'true'):
                            out |= base
                    elif rv[0] == 'use' and rv[1][0] in ('cp', 'mv') and not rv[1][1][1] and depth < 4:
                        out |= base & truth(rv[1][1][0], depth + 1)
                    elif rv[0] == 'un' and rv[1] == 'Not' and rv[2][0] in ('cp', 'mv') and not rv[2][1][1] and depth < 4:
                        out |= base & (set(ALL) - truth(rv[2][1][0], depth + 1))
                    else:
                        unknown.append(str(rv)[:60])
                elif d[0] == 'call':
                    base = consistent([l for l, e in F.literals_at(d[1])])
                    c = d[2]
                    m = re.search(r'PartialEq::(eq|ne)$', c.callee)
                    a = [F.sym_operand(x) for x in c.args]
                    if m and len(a) == 2 and is_subject(a[0]) and kname(a[1]):
                        out |= base & ({kname(a[1])} if m.group(1) == 'eq' else set(ALL) - {kname(a[1])})
                    else:
                        unknown.append(c.callee)
            return out
        got = truth(intos[0].args[0][1][0])
        n += 1
        if unknown:
            r.lost(rule, fn, 'the boolean result of operator::%s is computed in a way the rule cannot evaluate (%s)' % (fn, unknown[0])); continue
        if got == want:
            r.ok(rule, fn, 'operator::%s is TRUE exactly for %s' % (fn, sorted(want)), loc=b.loc)
        else:
            r.fail(rule, fn, 'operator::%s is TRUE for %s, expected %s: a where clause whose operands cannot be compared (Error) or are merely unequal lets events through'
                   % (fn, sorted(got), sorted(want)), loc=b.loc)
    r.count('comparison_operators', n)
    r.floor(rule, 'comparison_operators', n, 5)
