"""C31 Browse path translation finds exactly the matching nodes - wiring of one path step (E2/E6)."""
import re
from ..rulelib import *
from ..facts import fmt_sym, fmt_lit

FN = 'server::address_space::relative_path::follow_relative_path'


def run(ctx):
    r, db = ctx.r, ctx.db
    r.explanation = ('Wiring of one step of the translation (follow_relative_path), a necessary condition of "exactly the nodes reachable '
                     'by references of the given type, in the requested direction, whose browse name matches": (filter) the reference '
                     'filter is None only when the element\'s reference type is null, otherwise (element.reference_type_id, '
                     'element.include_subtypes); (direction) find_inverse_references is called only under is_inverse, find_references only '
                     'under !is_inverse, both with the current node and that filter; (name) a target is added only if the element has no '
                     'target name or the target node\'s browse name equals it, and what is added is the target of the reference just '
                     'examined; (enumeration) the reference searches underneath use no short-circuiting iterator adaptor, so every candidate reference is looked at. Set equality with a reference graph search over arbitrary address spaces, and the element loop of '
                     'find_nodes_relative_path, are not decided.')
    r.rule_text = 'E2 guard dominance and argument provenance in follow_relative_path'
    b = db.body(FN)
    if b is None:
        r.lost('wiring', 'follow_relative_path', 'not found'); return
    F = ctx.facts(b)
    elem = b.local_by_name('relative_path')
    if not elem:
        r.lost('wiring', 'element-param', 'parameter relative_path not found'); return
    E = r'\(\*relative_path\(_%d\)\)' % elem[0]
    n = 0
    # ---- filter
    rule = 'filter'
    flt = b.local_by_name('reference_filter')
    defs = b.defs().get(flt[0], []) if flt else []
    if not defs:
        r.lost(rule, 'reference_filter', 'definition of reference_filter not found')
    for d in defs:
        n += 1
        if d[0] != 'stmt' or d[3][0] != 'agg':
            r.fail(rule, 'def@bb%d' % d[1], 'reference_filter is not built as an Option literal here', loc=b.loc); continue
        var = d[3][3]
        lits = [fmt_lit(b, l) for l, e in F.literals_at(d[1], d[2])]
        if var == 'None':
            if any(re.match(r'^NodeId::is_null\(&%s\.reference_type_id\) == True$' % E, x) for x in lits):
                r.ok(rule, 'None', 'no filter only when the element\'s reference type is null', loc=b.loc)
            else:
                r.fail(rule, 'None', 'the reference filter is dropped although the element names a reference type: every reference of the node is followed', loc=b.loc)
        else:
            v = fmt_sym(b, F.sym_operand(d[3][4][0]))
            if re.match(r'^tuple\{(Clone::clone\(&%s\.reference_type_id\)|.*%s\.reference_type_id.*), %s\.include_subtypes\}$' % (E, E, E), v):
                r.ok(rule, 'Some', 'filter = (element.reference_type_id, element.include_subtypes)', loc=b.loc)
            else:
                r.fail(rule, 'Some', 'the reference filter is %s, not (element.reference_type_id, element.include_subtypes)' % v[:120], loc=b.loc)
    # ---- direction
    rule = 'direction'
    node = b.local_by_name('node_id')
    for c in b.calls():
        m = re.search(r'AddressSpace::find_(inverse_)?references$', c.callee)
        if not m:
            continue
        n += 1
        inv = bool(m.group(1))
        lits = [fmt_lit(b, l) for l, e in F.literals_at(c.bb)]
        a = [fmt_sym(b, F.sym_operand(x)) for x in c.args]
        key = 'find_inverse_references' if inv else 'find_references'
        ok_dir = any(re.match(r'^%s\.is_inverse == %s$' % (E, 'True' if inv else 'False'), x) for x in lits)
        ok_node = node and a[1] == '&(*node_id(_%d))' % node[0]
        ok_flt = flt and a[2] == 'reference_filter(_%d)' % flt[0]
        if ok_dir and ok_node and ok_flt:
            r.ok(rule, key, '%s(node, filter) only under is_inverse == %s' % (key, inv), loc=c.loc)
        else:
            r.fail(rule, key, '%s is called with (%s, %s) under %s: direction, node or filter is not the element\'s' % (key, a[1][:40], a[2][:40], [x for x in lits if 'is_inverse' in x]), loc=c.loc)
    # ---- name match and what is pushed
    rule = 'name-match'
    pushes = [c for c in b.calls() if c.callee.endswith('Vec::push') and 'result' in fmt_sym(b, F.sym_operand(c.args[0]))]
    # the same selection written as an iterator pipeline: references.iter().filter(pred).for_each(|r| result.push(r.target_node.clone()))
    piped = 0
    for fe in [c for c in b.calls() if c.callee.endswith('Iterator::for_each') and len(c.args) == 2]:
        sink = F.sym_operand(fe.args[1]); srcsym = F.sym_operand(fe.args[0])
        if not (sink[0] == 'agg' and sink[1] == 'closure'):
            continue
        sb_ = db.body(sink[2])
        if sb_ is None:
            continue
        Fs = ctx.facts(sb_)
        ps = [c for c in sb_.calls() if c.callee.endswith('Vec::push')]
        if not ps:
            continue
        piped += 1; n += 1
        key = 'pipeline#%d' % (piped - 1)
        envs = [fmt_sym(b, x) for x in sink[4]]
        val = fmt_sym(sb_, Fs.sym_operand(ps[0].args[1]))
        into_result = len(ps) == 1 and any(re.match(r'^&result\(_\d+\)$', x) for x in envs) and re.match(r'^&result\(_1[\d.]*\)$', fmt_sym(sb_, Fs.sym_operand(ps[0].args[0])))
        if not into_result or not re.match(r'^Clone::clone\(&\(\*+\w+\(_2\)\)+\.target_node\)$', val):
            r.fail(rule, key + ':value', 'the pipeline adds %s to %s, not the target of the reference being examined to the result' % (val[:80], fmt_sym(sb_, Fs.sym_operand(ps[0].args[0]))[:40]), loc=ps[0].loc); continue
        if not (srcsym[0] == 'call' and srcsym[1].endswith('Iterator::filter') and len(srcsym[2]) == 2 and srcsym[2][1][0] == 'agg' and srcsym[2][1][1] == 'closure'
                and re.match(r'^(slice::iter|IntoIterator::into_iter)\(&?.*references\(_\d+\).*\)$', fmt_sym(b, srcsym[2][0]))):
            r.fail(rule, key, 'targets are added by a pipeline that is not references.iter().filter(<name test>): %s' % fmt_sym(b, srcsym)[:120], loc=fe.loc); continue
        pred = srcsym[2][1]
        pb_ = db.body(pred[2])
        outs = bool_fn_outcomes(ctx, pred[2], True) if pb_ is not None else None
        if not outs:
            r.lost(rule, key + ':predicate', 'filter predicate not analysable'); continue
        penv = [fmt_sym(b, x) for x in pred[4]]
        def cap(name):
            # what the captured variable `name` of the predicate stands for in follow_relative_path
            for nm, pl in pb_.vars:
                if nm == name and pl[0] == 1:
                    ks = [t for t in pl[1] if t.startswith('.') and t[1:].isdigit()]
                    if ks and int(ks[0][1:]) < len(penv):
                        return penv[int(ks[0][1:])]
            return None
        ctn = cap('compare_target_name')
        ctn_ok = ctn is not None and re.match(r'^&?Not\(QualifiedName::is_null\(&%s\.target_name\)\)$' % E, ctn)
        elem_ok = any(re.match(r'^&?&?%s$' % E, x) or re.match(r'^&?relative_path\(_%d\)$' % elem[0], x) for x in penv)
        bad = []
        for conj in outs:
            t = [fmt_lit(pb_, l) for l in conj]
            same_ref = any(re.match(r'^AddressSpace::find_node\(&address_space\(_1[\d.]*\), &\(\*+reference\(_2\)\)+\.target_node\) is Some$', x) for x in t)
            no_name = ctn_ok and any(re.match(r'^compare_target_name\(_1[\d.]*\) == False$', x) for x in t)
            no_name = no_name or any(re.match(r'^QualifiedName::is_null\(&\(?\*?relative_path\(_1[\d.]*\)\)?\.target_name\) == True$', x) for x in t)
            name_eq = elem_ok and any(re.search(r'^NodeBase::browse_name\(.*find_node\(.*\(_2\)\)+\.target_node\)@Some\.0\)\) eq \(?\*?relative_path\(_1[\d.]*\)\)?\.target_name$', x) for x in t)
            if not (no_name or name_eq):
                bad.append(t)
        if bad:
            r.fail(rule, key, 'a target can pass the filter without its browse name having been compared with the element\'s target name (under [%s])' % ', '.join(bad[0])[:200], loc=fe.loc)
        else:
            r.ok(rule, key, 'a target passes the filter only when no target name is given or its node\'s browse name equals the element\'s target name', loc=fe.loc)
    if not pushes and not piped:
        r.lost(rule, 'push', 'no result.push in follow_relative_path')
    for i, c in enumerate(pushes):
        n += 1
        val = fmt_sym(b, F.sym_operand(c.args[1]))
        m = re.match(r'^Clone::clone\(&\*Iterator::next\(&iter\(_(\d+)\)\)@Some\.0\.target_node\)$', val)
        if not m:
            r.fail(rule, 'push#%d:value' % i, 'the node added to the result is %s, not the target of the reference being examined' % val[:100], loc=c.loc); continue
        it = m.group(1)
        # must-pass-through: either "no target name given" or "browse name equals the element's target name" for the same reference
        def guard(l):
            t = fmt_lit(b, l)
            if re.match(r'^QualifiedName::is_null\(&%s\.target_name\) == True$' % E, t):
                return True
            if re.match(r'^compare_target_name\(_\d+\) == False$', t):
                return True
            if l[0] == 'cmp' and l[1] == 'eq' and 'browse_name(' in t and ('iter(_%s)' % it) in t and re.search(r'%s\.target_name$' % E, t):
                return True
            if l[0] == 'truth' and l[2] is True and 'PartialEq::eq' in t and 'browse_name(' in t and ('iter(_%s)' % it) in t and re.search(r'%s\.target_name\) == True$' % E, t):
                return True
            return False
        edges = edges_where(F, guard)
        if edges and unreachable_without(b, c.bb, edges):
            r.ok(rule, 'push#%d' % i, 'a target is added only when no target name is given or its node\'s browse name equals the element\'s target name', loc=c.loc)
        else:
            r.fail(rule, 'push#%d' % i, 'a target can be added without its browse name having been compared with the element\'s target name', loc=c.loc)
    r.count('wiring_sites', n)
    r.floor('wiring', 'wiring_sites', n, 5)
    complete_enumeration(ctx)
    every_current_node_followed(ctx)


SHORT = re.compile(r'Iterator::(find|find_map|take|take_while|next|nth|skip|skip_while|last|position|step_by|any|min|max|min_by|max_by|min_by_key|max_by_key)$|slice::(first|last)$|::first$|::last$')
REFS = 'server::address_space::references::References::'


def complete_enumeration(ctx, rule='complete-enumeration'):
    """the reference searches a translation step relies on must look at every candidate reference: none of the iterator
    pipelines inside find_references / find_inverse_references / filter_references_by_type may short-circuit"""
    r, db = ctx.r, ctx.db
    n = 0
    for fn in ('find_references', 'find_inverse_references', 'filter_references_by_type'):
        bodies = db.find_bodies(r'^' + re.escape(REFS + fn) + r'(::\{closure#\d+\})*$')
        if not bodies:
            r.lost(rule, fn, 'References::%s not found' % fn); continue
        bad = []; pipes = 0
        for b in bodies:
            for c in b.calls():
                if SHORT.search(c.callee):
                    # `next` driving a `for` loop that runs to exhaustion is a complete enumeration: every path from the loop
                    # body leads back to this call (no break / return inside)
                    if c.callee.endswith('Iterator::next') and c.target is not None and c.bb in b.reachable_blocks(c.target):
                        body_reach = b.reachable_blocks(c.target, stop={c.bb})
                        F_ = ctx.facts(b)
                        # blocks after the loop: reached through the None edge of the switch on the result
                        exits = set()
                        for x in body_reach:
                            t_ = b.term(x)
                            if t_[0] == 'switch':
                                for dst, lab in b.succ_edges(x):
                                    if any(l[0] == 'variant' and l[2] == 'None' and l[3] and 'Iterator::next' in fmt_sym(b, l[1]) for l in F_.edge_literals(x, lab)):
                                        exits.add(dst)
                        inner = b.reachable_blocks(c.target, stop={c.bb} | exits) - exits
                        if not any(rb in inner for rb in b.return_blocks()) and exits:
                            pipes += 1
                            continue
                    bad.append('%s at %s' % (c.callee.rsplit('::', 1)[-1], c.loc))
                if re.search(r'Iterator::(filter|map|collect|for_each|cloned)$', c.callee) or c.callee.endswith('References::filter_references_by_type'):
                    pipes += 1
        n += pipes
        if bad:
            r.fail(rule, fn, 'References::%s stops at the first match or skips candidates (%s): references of the requested type between nodes that are '
                   'linked more than once are not found' % (fn, ', '.join(bad[:3])), loc=bodies[0].loc)
        elif pipes == 0:
            r.lost(rule, fn + ':pipeline', 'no iterator pipeline recognised in References::%s' % fn)
        else:
            r.ok(rule, fn, 'References::%s filters / maps / collects every candidate reference (no short-circuiting adaptor)' % fn, loc=bodies[0].loc)
    r.count('enumeration_steps', n)
    r.floor(rule, 'enumeration_steps', n, 6)


def every_current_node_followed(ctx, rule='every-node-followed'):
    """find_nodes_relative_path: at each path element the step function is applied to EVERY node of the current set -
    the traversal of matching_nodes.drain(..) is either a for_each, or a loop whose body has no exit other than the
    exhaustion of the iterator; and follow_relative_path is what is applied, with the current element"""
    r, db = ctx.r, ctx.db
    FNP = 'server::address_space::relative_path::find_nodes_relative_path'
    b = db.body(FNP)
    if b is None:
        r.lost(rule, 'find_nodes_relative_path', 'not found'); return
    F = ctx.facts(b)
    drains = [c for c in b.calls() if c.callee.endswith('Vec::drain') and 'matching_nodes' in fmt_sym(b, F.sym_operand(c.args[0])) and 'next_matching' not in fmt_sym(b, F.sym_operand(c.args[0]))]
    if len(drains) != 1:
        r.lost(rule, 'drain', 'traversal of the current node set (matching_nodes.drain(..)) not recognised'); return
    fe = [c for c in b.calls() if c.callee.endswith('Iterator::for_each') and 'Vec::drain' in fmt_sym(b, F.sym_operand(c.args[0]))]
    ok = None
    if fe:
        ok = 'matching_nodes.drain(..).for_each(..): every node of the level is visited'
        bodies = db.find_bodies(r'^' + re.escape(FNP) + r'(::\{closure#\d+\})*$')
    else:
        # a loop: find the next() calls whose iterator derives from the drain
        nexts = [c for c in b.calls() if c.callee.endswith('Iterator::next')]
        bad = None; found = False
        for c in nexts:
            it = F.sym_operand(c.args[0])
            loc_ = it
            while loc_[0] in ('ref', 'deref'):
                loc_ = loc_[1]
            if loc_[0] != 'place':
                continue
            defs = b.defs().get(loc_[1], [])
            if not any(d[0] == 'call' and d[2].callee.endswith('into_iter') and 'Vec::drain' in fmt_sym(b, F.sym_operand(d[2].args[0])) for d in defs):
                continue
            found = True
            # loop body: from the Some edge of the switch that follows next(), stopping at the next() block
            sw = c.target
            some_dst = None
            t = b.term(sw) if sw is not None else None
            if t is not None and t[0] == 'switch':
                for dst, lab in b.succ_edges(sw):
                    lits = F.edge_literals(sw, lab)
                    if any(l[0] == 'variant' and l[2] == 'Some' and l[3] for l in lits):
                        some_dst = dst
            if some_dst is None:
                bad = 'loop shape not recognised'; break
            body = b.reachable_blocks(some_dst, stop={c.bb})
            body.discard(c.bb)
            exits = []
            for x in body:
                if b.is_cleanup(x):
                    continue
                for s_ in b.succ(x):
                    if s_ not in body and s_ != c.bb and not b.is_cleanup(s_):
                        exits.append((x, s_))
            if exits:
                bad = 'the loop over the current node set can be left before the iterator is exhausted (%d exit edge(s), e.g. bb%d -> bb%d)' % (len(exits), exits[0][0], exits[0][1])
        if not found:
            r.lost(rule, 'traversal', 'neither for_each nor a loop over matching_nodes.drain(..) found'); return
        if bad:
            r.fail(rule, 'traversal', 'find_nodes_relative_path does not follow every node of the current level: %s - targets reachable through the remaining nodes are lost' % bad, loc=b.loc)
            return
        ok = 'the loop over matching_nodes.drain(..) only ends when the iterator is exhausted'
        bodies = [b]
    # the step applied is follow_relative_path(address_space, node, element)
    step = [c for bb_ in bodies for c in bb_.calls() if c.callee.endswith('relative_path::follow_relative_path')]
    if len(step) == 1:
        r.ok(rule, 'traversal', ok + '; each node is followed with follow_relative_path', loc=b.loc)
    else:
        r.fail(rule, 'traversal', 'the per-node step is not a single call of follow_relative_path (found %d)' % len(step), loc=b.loc)
