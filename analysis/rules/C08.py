"""C08 Modified or foreign secured chunks are never accepted (E2: verification dominates acceptance)."""
import re
from ..rulelib import *
from ..facts import fmt_sym, fmt_lit

SC = r'^core::comms::secure_channel::SecureChannel::'


def try_ok(lits, name_rx):
    return [l for l, e in lits if l[0] == 'try' and l[2] and l[1][0] == 'call' and re.search(name_rx, l[1][1])]


def run(ctx):
    r, db = ctx.r, ctx.db
    r.explanation = ('(i) in verify_and_remove_security_forensic the only sources of the returned chunk data are: a plain copy of the '
                     'received bytes, allowed only on edges that establish "no security" (OPN with policy None; MSG with channel policy '
                     'None or mode neither Sign nor SignAndEncrypt), and update_message_size_and_truncate of a buffer, allowed only on '
                     'the success edge of asymmetric_/symmetric_decrypt_and_verify. (ii) inside those two functions every Ok is dominated '
                     'by the success edge of the signature verification (and padding / thumbprint checks), except the mode==None arm. '
                     '(iii) the verify_signature functions build Ok only on the true edge of the primitive result. (iv) HMAC comparison '
                     'uses openssl::memcmp::eq after a length check. (v) the chunk lists of both transports only receive results of '
                     'verify_and_remove_security.')
    r.rule_text = 'E2 guard dominance / value provenance over MIR of core::comms::secure_channel, crypto::security_policy, crypto::hash'
    # ---------------- (i)
    rule = 'accept-only-verified'
    bs = db.find_bodies(SC + r'verify_and_remove_security_forensic$')
    if not bs:
        r.lost(rule, 'verify_and_remove_security_forensic', 'function not found'); return
    b = bs[0]; F = ctx.facts(b)
    copies = [c for c in b.calls() if re.search(r'slice::to_vec$|::to_owned$|Vec::from$|::clone$', c.callee) and
              'src' in fmt_sym(b, F.sym_operand(c.args[0])) and b.locals[c.dest[0]].startswith('std::vec::Vec<u8>')]
    trunc = [c for c in b.calls() if c.callee.endswith('SecureChannel::update_message_size_and_truncate')]
    r.count('plain_copy_sites', len(copies)); r.count('verified_data_sites', len(trunc))
    if len(copies) < 1 or len(trunc) < 2:
        r.lost(rule, 'data-sources', 'expected plain-copy and verified data sources, found %d / %d' % (len(copies), len(trunc)))
    def is_enum_lit(lit, field, op, variant):
        return lit[0] == 'cmp' and lit[1] == op and place_ends_with(lit[2], field) and variant in fmt_sym(b, lit[3])
    for i, c in enumerate(copies):
        lits = F.literals_at(c.bb)
        key = 'verify:plain-copy#%d' % i
        opn_none = [l for l, e in lits if l[0] == 'variant' and l[2] == 'None' and l[3] and 'from_uri' in fmt_sym(b, l[1])]
        if opn_none:
            r.ok(rule, key, 'OPN chunk copied unverified only under the SecurityPolicy::None pattern of the header policy', loc=c.loc)
            continue
        eA = edges_where(F, lambda l: is_enum_lit(l, 'security_policy', 'eq', 'SecurityPolicy::None'))
        eB = edges_where(F, lambda l: is_enum_lit(l, 'security_mode', 'ne', 'MessageSecurityMode::SignAndEncrypt'))
        eB2 = []
        for e in eB:
            l2 = F.literals_at(e[0])
            if any(is_enum_lit(l, 'security_mode', 'ne', 'MessageSecurityMode::Sign') and 'SignAndEncrypt' not in fmt_sym(b, l[3]) for l, _ in l2):
                eB2.append(e)
        not_opn = any(l[0] == 'truth' and l[2] is False and 'is_open_secure_channel' in fmt_sym(b, l[1]) for l, e in lits)
        # the same test written as a predicate method of the channel: `!self.pred()` counts when every way pred() can answer
        # false establishes policy == None or mode not in {Sign, SignAndEncrypt}
        def pred_false_means_no_security(l):
            if not (l[0] == 'truth' and l[2] is False and l[1][0] == 'call' and l[1][1].startswith('core::comms::secure_channel::SecureChannel::')):
                return False
            if [fmt_sym(b, a_) for a_ in l[1][2]] != ['&(*self(_1))']:
                return False
            outs = bool_fn_outcomes(ctx, l[1][1], False)
            hb = db.body(l[1][1])
            if not outs or hb is None:
                return False
            def lit_is(x, field, op, variant, excl=None):
                return x[0] == 'cmp' and x[1] == op and place_ends_with(x[2], field) and variant in fmt_sym(hb, x[3]) and (excl is None or excl not in fmt_sym(hb, x[3]))
            for conj in outs:
                a_ = any(lit_is(x, 'security_policy', 'eq', 'SecurityPolicy::None') for x in conj)
                b1 = any(lit_is(x, 'security_mode', 'ne', 'MessageSecurityMode::SignAndEncrypt') for x in conj)
                b2 = any(lit_is(x, 'security_mode', 'ne', 'MessageSecurityMode::Sign', excl='SignAndEncrypt') for x in conj)
                if not (a_ or (b1 and b2)):
                    return False
            return True
        eP = edges_where(F, pred_false_means_no_security)
        if eP and unreachable_without(b, c.bb, eP) and not_opn:
            r.ok(rule, key, 'MSG chunk copied unverified only when the channel\'s own security predicate is false, which it is only for policy None or a mode other than Sign / SignAndEncrypt', loc=c.loc)
        elif (eA or eB2) and unreachable_without(b, c.bb, eA + eB2) and not_opn:
            r.ok(rule, key, 'MSG chunk copied unverified only when the channel policy is None or the mode is neither Sign nor SignAndEncrypt', loc=c.loc)
        else:
            r.fail(rule, key, 'received bytes are copied into the accepted chunk on a path that does not establish "no security" '
                              '(policy == None, or mode not in {Sign, SignAndEncrypt})', loc=c.loc)
    for i, c in enumerate(trunc):
        lits = F.literals_at(c.bb)
        key = 'verify:verified-data#%d' % i
        if try_ok(lits, r'SecureChannel::(asymmetric|symmetric)_decrypt_and_verify$'):
            r.ok(rule, key, 'decrypted buffer accepted only on the success edge of *_decrypt_and_verify', loc=c.loc)
        else:
            r.fail(rule, key, 'a decrypted buffer is accepted without *_decrypt_and_verify having succeeded', loc=c.loc)
    # provenance of MessageChunk.data
    aggs = [(bi, si, st) for bi, blk in enumerate(b.blocks) if not blk['c'] for si, st in enumerate(blk['s'])
            if st[0] == '=' and st[2][0] == 'agg' and st[2][2].endswith('message_chunk::MessageChunk')]
    ok_src = {c.dest[0] for c in copies}
    for bi, si, st in aggs:
        op = st[2][4][0]
        root = op[1][0] if op[0] in ('cp', 'mv') else None
        # follow plain moves back to the (possibly multiply assigned) user variable
        for _ in range(8):
            ds = b.defs().get(root, [])
            if len(ds) == 1 and ds[0][0] == 'stmt' and ds[0][3][0] == 'use' and ds[0][3][1][0] in ('cp', 'mv') and not ds[0][3][1][1][1]:
                root = ds[0][3][1][1][0]
            else:
                break
        srcs = set()
        for d in b.defs().get(root, []):
            if d[0] == 'stmt':
                srcs.add(fmt_sym(b, F.sym_rvalue(d[3], 0)))
            elif d[0] == 'call':
                srcs.add(d[2].callee)
        bad = [s for s in srcs if not re.search(r'to_vec|update_message_size_and_truncate', s)]
        key = 'verify:chunk-data-provenance#%d' % aggs.index((bi, si, st))
        if bad:
            r.fail(rule, key, 'MessageChunk data comes from an unexpected source: ' + bad[0][:120], loc=b.loc)
        else:
            r.ok(rule, key, 'MessageChunk data is a plain copy or a verified buffer (%d source(s))' % len(srcs), loc=b.loc)
    # ---------------- (vi) the channel's security state cannot be downgraded by an unverified chunk
    rule = 'security-state-writes'
    writes = [(bi, si, st) for bi, blk in enumerate(b.blocks) if not blk['c'] for si, st in enumerate(blk['s'])
              if st[0] == '=' and st[1][0] == 1 and any(t in ('.security_policy', '.security_mode') for t in st[1][1])]
    asym_ok = edges_where(F, lambda l: l[0] == 'try' and l[2] and l[1][0] == 'call' and l[1][1].endswith('SecureChannel::asymmetric_decrypt_and_verify'))
    accept_blocks = {c.bb for c in copies} | {bb for bb, si, pl in result_ctor_sites(b, 'Ok')}
    if not writes:
        r.lost(rule, 'verify:policy-write', 'no assignment of self.security_policy found in verify_and_remove_security_forensic')
    for j, (bi, si, st) in enumerate(writes):
        cut = frozenset((s_, d_) for s_, d_, _ in asym_ok)
        reach = b.reachable_blocks(bi, removed_edge=cut)
        leak = sorted(x for x in accept_blocks if x in reach and not (x == bi))
        key = 'verify:write%s#%d' % ([t for t in st[1][1] if t.startswith('.')][-1], j)
        if leak or not asym_ok:
            r.fail(rule, key, 'the channel %s is overwritten from an OPN header on a path that accepts the chunk without asymmetric verification '
                              '(a forged OPN could downgrade a secured channel)' % [t for t in st[1][1] if t.startswith('.')][-1][1:], loc=b.loc)
        else:
            r.ok(rule, key, 'the header policy is stored only on the path whose every accepting exit passes asymmetric_decrypt_and_verify success', loc=b.loc)
    # who may write the security state at all
    allowed_writers = {'core::comms::secure_channel::SecureChannel::set_security_mode', 'core::comms::secure_channel::SecureChannel::set_security_policy',
                       'core::comms::secure_channel::SecureChannel::verify_and_remove_security_forensic'}
    allowed_callers = [r'^server::comms::secure_channel_service::SecureChannelService::open_secure_channel$', r'^client::', r'^core::tests::', r'::tests::']
    nw = 0
    for bid, pth in db.path_of.items():
        if not pth.startswith(('core::', 'server::', 'client::', 'crypto::')):
            continue
        bd = db.bodies[bid]
        for blk in (bd.blocks if any('secure_channel::SecureChannel' in t for t in bd.locals[:8]) else []):
            for st in blk['s']:
                if st[0] == '=' and st[1][1] and any(t in ('.security_policy', '.security_mode') for t in st[1][1]) and                         'secure_channel::SecureChannel' in bd.locals[st[1][0]]:
                    nw += 1
                    if pth not in allowed_writers:
                        r.fail(rule, 'writer:' + pth, 'SecureChannel.security_policy/mode is assigned in an unexpected function', loc=bd.loc)
        for c in bd.calls():
            if re.search(r'SecureChannel::set_security_(policy|mode)$', c.callee):
                nw += 1
                if not any(re.search(rx, pth) for rx in allowed_callers):
                    r.fail(rule, 'setter-caller:' + pth, '%s is called from an unexpected place' % c.callee.rsplit('::', 1)[-1], loc=c.loc)
    if nw >= 3 and not any(o.rule == rule and o.status == 'violation' and o.key.startswith(('writer:', 'setter-caller:')) for o in r.obls):
        r.ok(rule, 'writers', 'security_policy / security_mode are only assigned by their setters and the OPN verification path (%d sites); server-side setter calls only in open_secure_channel' % nw)
    r.floor(rule, 'security_state_write_sites', nw, 5)
    # ---------------- (ii)
    rule = 'ok-after-signature-check'
    for fn, need in (('symmetric_decrypt_and_verify', [r'symmetric_verify_signature$']),
                     ('asymmetric_decrypt_and_verify', [r'asymmetric_verify_signature$', r'SecureChannel::verify_padding$'])):
        bs = db.find_bodies(SC + fn + '$')
        if not bs:
            r.lost(rule, fn, fn + ' not found'); continue
        fb = bs[0]; Ff = ctx.facts(fb)
        oks = result_ctor_sites(fb, 'Ok')
        if not oks:
            r.lost(rule, fn + ':Ok', 'no Ok construction in ' + fn)
        for j, (bb, si, pl) in enumerate(oks):
            lits = Ff.literals_at(bb, si)
            key = '%s:Ok#%d' % (fn, j)
            none_arm = any(l[0] == 'variant' and l[2] == 'None' and l[3] and place_ends_with(l[1], 'security_mode') for l, e in lits)
            missing = [n for n in need if not try_ok(lits, n)]
            if none_arm and fn.startswith('symmetric'):
                r.ok(rule, key, 'Ok without verification only in the security_mode == None arm', loc=fb.loc)
            elif not missing:
                extra = ''
                if fn.startswith('asymmetric'):
                    thumb = any(l[0] == 'cmp' and l[1] == 'eq' and 'thumbprint' in fmt_lit(fb, l).lower() for l, e in lits)
                    if not thumb:
                        r.fail(rule, key + ':thumbprint', 'OPN accepted without the receiver thumbprint equality edge', loc=fb.loc)
                        continue
                    extra = ' and the receiver thumbprint equality'
                r.ok(rule, key, 'Ok only after ' + ', '.join(n.rstrip('$').split('::')[-1] for n in need) + ' succeeded' + extra, loc=fb.loc)
            else:
                r.fail(rule, key, '%s returns Ok on a path where %s has not succeeded' % (fn, missing[0].rstrip('$')), loc=fb.loc)
    # ---------------- (iii)
    rule = 'verify-returns-ok-only-when-true'
    for fn, var in (('symmetric_verify_signature', 'verified'), ('asymmetric_verify_signature', 'result')):
        bs = db.find_bodies(r'^crypto::security_policy::SecurityPolicy::' + fn + '$')
        if not bs:
            r.lost(rule, fn, fn + ' not found'); continue
        fb = bs[0]; Ff = ctx.facts(fb)
        oks = result_ctor_sites(fb, 'Ok')
        if not oks:
            r.lost(rule, fn + ':Ok', 'no Ok construction in ' + fn)
        for j, (bb, si, pl) in enumerate(oks):
            lits = Ff.literals_at(bb, si)
            key = '%s:Ok#%d' % (fn, j)
            want = r'^hash::verify_hmac_sha(1|256)\(' if fn.startswith('symmetric') else r'^Try::branch\(PKey::verify_\w+\(.*\)\)@Continue\.0$'
            ok_, how = verdict_guard(fb, Ff, lits, want)
            if ok_:
                r.ok(rule, key, 'Ok only on the true edge of ' + how, loc=fb.loc)
            else:
                r.fail(rule, key, '%s returns Ok without the verification result being true: %s' % (fn, how), loc=fb.loc)
    # ---------------- (iv)
    rule = 'constant-time-compare'
    for fn in ('verify_hmac_sha1', 'verify_hmac_sha256'):
        bs = db.find_bodies(r'^crypto::hash::' + fn + '$')
        if not bs:
            r.lost(rule, fn, fn + ' not found'); continue
        fb = bs[0]; Ff = ctx.facts(fb)
        eqs = [c for c in fb.calls() if c.callee.endswith('openssl::memcmp::eq')]
        other = [c for c in fb.calls() if re.search(r'PartialEq::(eq|ne)$', c.callee)]
        key = fn
        if len(eqs) == 1 and not [o for o in other if 'signature' in fmt_sym(fb, Ff.sym_operand(o.args[0])) and 'len' not in fmt_sym(fb, Ff.sym_operand(o.args[0]))]:
            lits = Ff.literals_at(eqs[0].bb)
            lenchk = any(l[0] == 'cmp' and l[1] == 'eq' and l[2][0] == 'len' for l, e in lits)
            hm = any(l[0] == 'truth' and l[2] is False and 'is_err' in fmt_sym(fb, l[1]) for l, e in lits) or any(l[0] == 'variant' and l[2] == 'Ok' for l, e in lits) or any(l[0]=='variant' and l[2]=='Err' and not l[3] for l,e in lits)
            # whole signature against the whole computed digest: no sub-slice on either side, the buffer is the digest-size array
            a0 = fmt_sym(fb, Ff.sym_operand(eqs[0].args[0])); a1 = fmt_sym(fb, Ff.sym_operand(eqs[0].args[1]))
            # the second operand is the whole local digest buffer (a [u8; N] array, whatever it is called) that the HMAC was written into
            m1 = re.match(r'^&\*?(?:Index::index\(&(\w+)\(_(\d+)\), RangeFull::RangeFull\)|(\w+)\(_(\d+)\))$', a1)
            buf = int(m1.group(2) or m1.group(4)) if m1 else None
            buf_ok = buf is not None and re.match(r'^\[u8; \d+\]$', fb.locals[buf]) is not None and any(
                re.search(r'hash::hmac_sha(1|256)$', c_.callee) and len(c_.args) == 3 and re.search(r'\(_%d\)' % buf, fmt_sym(fb, Ff.sym_operand(c_.args[2]))) for c_ in fb.calls())
            whole = re.match(r'^&\(\*signature\(_\d+\)\)$', a0) and buf_ok
            size_const = 'SHA1_SIZE' if fn.endswith('sha1') else 'SHA256_SIZE'
            want = {'SHA1_SIZE': 20, 'SHA256_SIZE': 32}[size_const]
            arr = [t for i_, t in enumerate(fb.locals) if re.match(r'^\[u8; %d\]$' % want, t) and (buf is None or i_ == buf)]
            lenlit = any(l[0] == 'cmp' and l[1] == 'eq' and l[2][0] == 'len' and Ff.const_int(l[3]) == want for l, e in lits)
            if not whole or not arr or not lenlit:
                r.fail(rule, key, '%s does not compare the whole %d-byte signature with the whole computed digest (compares %s with %s; digest buffer %s; length test %s): '
                       'altering the uncompared tail of a signature goes unnoticed' % (fn, want, a0[:50], a1[:70], bool(arr), lenlit), loc=fb.loc)
            elif lenchk and eqs[0].dest[0] == 0:
                r.ok(rule, key, 'the boolean result is openssl::memcmp::eq(signature, computed) after the length check' + ('' if hm else ' (hmac result edge not recognised)'), loc=fb.loc)
            else:
                r.fail(rule, key, 'signature comparison is not the function result or not preceded by the length check', loc=fb.loc)
        else:
            r.fail(rule, key, 'signature is not compared with exactly one openssl::memcmp::eq call', loc=fb.loc)
    # ---------------- (v)
    rule = 'only-verified-chunks-delivered'
    for pat, field in ((r'^server::comms::tcp_transport::TcpTransport::process_chunk$', 'pending_chunks'),
                       (r'^client::transport::core::TransportState::process_chunk$', 'chunks')):
        bs = db.find_bodies(pat)
        if not bs:
            r.lost(rule, pat, 'function not found'); continue
        fb = bs[0]; Ff = ctx.facts(fb)
        pushes = [c for c in fb.calls() if c.callee.endswith('Vec::push') and fmt_sym(fb, Ff.sym_operand(c.args[0])).endswith(field)]
        if not pushes:
            r.lost(rule, pat + ':push', 'no push onto %s found' % field)
        for j, c in enumerate(pushes):
            v = fmt_sym(fb, Ff.sym_operand(c.args[1]))
            lits = Ff.literals_at(c.bb)
            key = '%s:%s.push#%d' % (fb.path.rsplit('::', 2)[-2], field, j)
            if 'verify_and_remove_security' in v and try_ok(lits, r'verify_and_remove_security$'):
                r.ok(rule, key, 'the pushed chunk is the successful result of verify_and_remove_security', loc=c.loc)
            else:
                r.fail(rule, key, 'a chunk that is not the successful result of verify_and_remove_security is queued for reassembly', detail='value: ' + v[:160], loc=c.loc)
    r.floor('C08', 'obligations', len(r.obls), 14)
    r.assumptions += ['HMAC / RSA primitives of openssl reject every modified input (trusted)', 'keys are those derived under C13']
