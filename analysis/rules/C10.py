"""C10 Memory held for an incomplete incoming message is bounded (E2)."""
import re
from ..rulelib import *
from ..facts import fmt_sym, fmt_lit


def _limit_edges(F, b, lhs_pred, field):
    """edges on which `lhs < field` / `lhs <= field` is known, and edges on which field == 0 (no limit)"""
    def bound(lit):
        if lit[0] != 'cmp':
            return False
        if lit[1] in ('lt', 'le') and lhs_pred(lit[2]) and place_ends_with(lit[3], field):
            return True
        if lit[1] in ('gt', 'ge') and lhs_pred(lit[3]) and place_ends_with(lit[2], field):
            return True
        return False
    def zero(lit):
        return lit[0] == 'cmp' and ((lit[1] in ('le', 'eq') and place_ends_with(lit[2], field) and F.const_int(lit[3]) == 0) or
                                    (lit[1] in ('ge', 'eq') and place_ends_with(lit[3], field) and F.const_int(lit[2]) == 0))
    return edges_where(F, bound), edges_where(F, zero)


def codec_wait_bounded(ctx, rule='codec-wait-bounded'):
    """the frame decoder decides to wait for more bytes (and lets the framed reader buffer them) only for an announced size that
    passed the max_message_size test; shared with C02 (allocation bound on peer input)"""
    r, db = ctx.r, ctx.db
    bs = db.find_bodies(r'^<core::comms::tcp_codec::TcpCodec as tokio_util::codec::Decoder>::decode$')
    if not bs:
        r.lost(rule, 'TcpCodec::decode', 'TcpCodec::decode not found')
    else:
        b = bs[0]; F = ctx.facts(b)
        def is_msgsize(s):
            return 'message_size' in fmt_sym(b, s)
        waits = edges_where(F, lambda lit: lit[0] == 'cmp' and ((lit[1] == 'lt' and lit[2][0] == 'len' and is_msgsize(lit[3])) or
                                                                (lit[1] == 'gt' and lit[3][0] == 'len' and is_msgsize(lit[2]))))
        if not waits:
            r.lost(rule, 'TcpCodec::decode:wait', 'no `buf.len() < message_size` wait edge found in TcpCodec::decode')
        bound, zero = _limit_edges(F, b, is_msgsize, 'max_message_size')
        for src, dst, lit in waits:
            key = 'TcpCodec::decode:wait'
            if bound and unreachable_without(b, src, bound + zero):
                r.ok(rule, key, 'the decision to wait for %s bytes is dominated by `%s`' % (fmt_sym(b, lit[3] if lit[1] == 'lt' else lit[2]), fmt_lit(b, bound[0][2])), loc=b.loc)
            else:
                r.fail(rule, key, 'the codec waits for (and lets the framed reader buffer) any announced message size: no comparison with max_message_size dominates the wait', loc=b.loc)


def run(ctx):
    r, db = ctx.r, ctx.db
    r.explanation = ('(a) server: every push onto TcpTransport.pending_chunks is dominated by the accepting edge of a comparison of '
                     'pending_chunks.len() with max_chunk_count (or max_chunk_count == 0). (b) client: every push onto '
                     'MessageState.chunks is followed on all paths to the return either by removal of that message state or by the '
                     'accepting edge of a comparison of chunks.len() with max_pending_incoming. (c) codec: the edge on which '
                     'TcpCodec::decode decides to wait for more bytes (buf.len() < message_size) is dominated by the accepting edge '
                     'of message_size > max_message_size (or limit 0). Each chunk itself is bounded by C03 (MessageChunk::decode).')
    r.rule_text = 'E2 guard dominance / post-dominance over MIR'
    # ---------------- (a)
    rule = 'server-pending-chunks-bounded'
    bs = db.find_bodies(r'^server::comms::tcp_transport::TcpTransport::process_chunk$')
    if not bs:
        r.lost(rule, 'process_chunk', 'TcpTransport::process_chunk not found')
    else:
        b = bs[0]; F = ctx.facts(b)
        pushes = [c for c in b.calls() if re.search(r'Vec::(push|insert|extend|append)$|::extend_from_slice$', c.callee)
                  and 'pending_chunks' in fmt_sym(b, F.sym_operand(c.args[0]))]
        if not pushes:
            r.lost(rule, 'process_chunk:push', 'no push onto pending_chunks found in process_chunk')
        is_len = lambda s: s[0] == 'len' and 'pending_chunks' in fmt_sym(b, s)
        bound, zero = _limit_edges(F, b, is_len, 'max_chunk_count')
        for c in pushes:
            alive = [e for e in bound + zero if F.killed_between((e[0], e[1]), c.bb, len(b.stmts(c.bb)), e[2], F.own_arg_setup(c.bb)) is None]
            key = 'TcpTransport::process_chunk:pending_chunks.push'
            if [e for e in alive if e in bound] and unreachable_without(b, c.bb, alive):
                r.ok(rule, key, 'push dominated by `%s`' % fmt_lit(b, [e for e in alive if e in bound][0][2]), loc=c.loc)
            else:
                r.fail(rule, key, 'chunks of an incomplete message are appended to pending_chunks without a dominating comparison of its length with max_chunk_count',
                       loc=c.loc)
    # any other writer of pending_chunks?
    writers = set()
    for bd in db.find_bodies(r'^server::comms::tcp_transport::'):
        Fd = None
        for c in bd.calls():
            if re.search(r'Vec::(push|insert|extend|append)$', c.callee):
                Fd = Fd or ctx.facts(bd)
                if 'pending_chunks' in fmt_sym(bd, Fd.sym_operand(c.args[0])):
                    writers.add(bd.path)
    extra = [w for w in writers if not w.endswith('TcpTransport::process_chunk')]
    if extra:
        r.fail(rule, 'pending_chunks:other-writer', 'pending_chunks is also appended to in ' + ', '.join(sorted(extra)), loc=extra[0])
    # ---------------- (b)
    rule = 'client-chunks-bounded'
    bs = db.find_bodies(r'^client::transport::core::TransportState::process_chunk$')
    if not bs:
        r.lost(rule, 'client process_chunk', 'client TransportState::process_chunk not found')
    else:
        b = bs[0]; F = ctx.facts(b)
        pushes = [c for c in b.calls() if re.search(r'Vec::push$', c.callee) and fmt_sym(b, F.sym_operand(c.args[0])).endswith('.chunks')]
        if len(pushes) < 2:
            r.lost(rule, 'client process_chunk:push', 'expected the Intermediate and Final pushes onto MessageState.chunks, found %d' % len(pushes))
        is_len = lambda s: s[0] == 'len' and fmt_sym(b, s).endswith('.chunks)')
        bound, zero = _limit_edges(F, b, is_len, 'max_pending_incoming')
        removes = {c.bb for c in b.calls() if re.search(r'HashMap::remove$', c.callee) and 'message_states' in fmt_sym(b, F.sym_operand(c.args[0]))}
        rets = set(b.return_blocks())
        for i, c in enumerate(pushes):
            key = 'client process_chunk:chunks.push#%d' % i
            cut = frozenset((s, d) for s, d, _ in bound + zero)
            reach = b.reachable_blocks(c.target, removed_edge=cut, stop=removes) if c.target is not None else set()
            escaped = [x for x in reach if x in rets and x not in removes]
            if not escaped:
                r.ok(rule, key, 'after the push every path to the return either removes the message state or passes the bound test on max_pending_incoming', loc=c.loc)
            else:
                r.fail(rule, key, 'a chunk is pushed onto MessageState.chunks and control can return without a bound test on max_pending_incoming or removal of the state', loc=c.loc)
    # ---------------- (c)
    codec_wait_bounded(ctx)
    r.floor('C10', 'bounded_sites', len([o for o in r.obls]), 4)
