"""C01 Binary encoding round-trips - codec agreement clauses (E6 + E2)."""
import re
from ..rulelib import *
from ..facts import fmt_sym, fmt_lit

TRAIT = 'types::encoding::BinaryEncoder'


def rpo(body):
    seen = set(); order = []
    st = [(0, iter(body.succ(0)))]; seen.add(0)
    while st:
        b, it = st[-1]
        adv = False
        for s in it:
            if s not in seen and not body.is_cleanup(s):
                seen.add(s); st.append((s, iter(body.succ(s)))); adv = True; break
        if not adv:
            order.append(b); st.pop()
    return order[::-1]


def self_field(body, F, op):
    """name of the field of *self an operand refers to (through one borrow), else None"""
    s = F.sym_operand(op)
    while s[0] == 'ref':
        s = s[1]
    if s[0] == 'place' and s[1] == 1 and len(s[2]) == 2 and s[2][0] == '*' and s[2][1].startswith('.'):
        return s[2][1][1:]
    return None


def field_sequence(ctx, body, which):
    """ordered [(field, kind)] of the codec calls of byte_len / encode"""
    F = ctx.facts(body)
    out = []
    order = {b: i for i, b in enumerate(rpo(body))}
    calls = sorted([c for c in body.calls() if c.bb in order], key=lambda c: order[c.bb])
    for c in calls:
        name = c.callee
        if which == 'byte_len':
            if name.endswith('BinaryEncoder::byte_len') and c.args:
                f = self_field(body, F, c.args[0]); kind = 'value'
            elif name.endswith('encoding::byte_len_array') and c.args:
                f = self_field(body, F, c.args[0]); kind = 'array'
            else:
                continue
        else:
            if name.endswith('BinaryEncoder::encode') and c.args:
                f = self_field(body, F, c.args[0]); kind = 'value'
            elif name.endswith('encoding::write_array') and len(c.args) > 1:
                f = self_field(body, F, c.args[1]); kind = 'array'
            else:
                continue
        if f is not None:
            out.append((f, kind))
    return out


def decode_sequence(ctx, body, adt_path):
    """(ordered [(field, kind, decoded type)], complete?) from the struct aggregate of decode"""
    F = ctx.facts(body)
    order = {b: i for i, b in enumerate(rpo(body))}
    agg = None
    for bi, blk in enumerate(body.blocks):
        if blk['c']:
            continue
        for st in blk['s']:
            if st[0] == '=' and st[2][0] == 'agg' and st[2][1] == 'adt' and st[2][2] == adt_path and len(st[2]) > 5:
                agg = st
    if agg is None:
        return None, False
    names = agg[2][5]; ops = agg[2][4]
    seq = []
    complete = True
    for n, op in zip(names, ops):
        s = F.sym_operand(op)
        # Try::branch(call)@Continue.0
        call = None
        t = s
        if t[0] == 'proj' and t[2] == '.0':
            t = t[1]
        if t[0] == 'proj' and t[2] == '@Continue':
            t = t[1]
        if t[0] == 'call' and t[1].endswith('Try::branch') and t[2] and t[2][0][0] == 'call':
            call = t[2][0]
        if call is None:
            complete = False
            seq.append((n, '?', fmt_sym(body, s)[:60], 10 ** 6))
            continue
        kind = 'array' if call[1].endswith('encoding::read_array') else ('value' if call[1].endswith('BinaryEncoder::decode') else '?')
        seq.append((n, kind, call[1], order.get(call[3], 10 ** 6)))
    return seq, complete


def run(ctx):
    r, db = ctx.r, ctx.db
    r.explanation = ('(a) codec agreement: for every type whose decode builds the struct directly from one decode/read_array call per field '
                     '("regular shape": the generated service types and plain hand-written structs), byte_len, encode and decode visit the '
                     'same fields, in struct declaration order, with the matching codec kind (value vs array), decode calls happen in field '
                     'order, and the decoder used for a field is the BinaryEncoder of that field\'s declared type. A mismatch desynchronises '
                     'the stream for every value that populates the field. (c) Variant::decode examines the dimensions bit on the '
                     'empty-array path. Value equality of the round trip, byte_len arithmetic and DateTime clamping are not decided.')
    r.rule_text = 'E6 sibling agreement over the call sequences of byte_len / encode / decode read from MIR'
    rule = 'codec-agreement'
    # impl table: self type -> {method: body path}
    impls = {}
    for im in db.impls:
        if im.get('trait') == TRAIT:
            m = {k.rsplit('::', 1)[-1]: v for k, v in im['methods'].items()}
            impls[im['self_ty']] = m
    n_regular = 0; n_skipped = 0; skipped = []
    for ty, m in sorted(impls.items()):
        adt = db.adts.get(ty)
        if not adt or adt['kind'] != 'struct' or not all(k in m for k in ('byte_len', 'encode', 'decode')):
            n_skipped += 1; continue
        fields = [(f[0], f[1]) for f in adt['variants'][0]['fields']]
        bl, en, de = db.body(m['byte_len']), db.body(m['encode']), db.body(m['decode'])
        if not (bl and en and de):
            n_skipped += 1; continue
        dseq, complete = decode_sequence(ctx, de, ty)
        if dseq is None or not complete or not fields:
            n_skipped += 1; skipped.append(ty); continue
        n_regular += 1
        key = ty
        decl = [f for f, t in fields]
        probs = []
        # decode: aggregate covers all fields (rustc guarantees), calls in field order, kinds and types
        d_fields = [x[0] for x in dseq]
        by_name = {x[0]: x for x in dseq}
        pos = [by_name[f][3] for f in decl if f in by_name]
        if pos != sorted(pos):
            probs.append('decode reads the fields in a different order than they are declared/encoded')
        bseq = field_sequence(ctx, bl, 'byte_len'); eseq = field_sequence(ctx, en, 'encode')
        if [f for f, k in eseq] != decl:
            probs.append('encode visits %s, declaration order is %s' % ([f for f, k in eseq][:8], decl[:8]))
        # fixed-size primitive fields may be folded into a constant in a hand-written byte_len
        PRIM = {'u8', 'u16', 'u32', 'u64', 'i8', 'i16', 'i32', 'i64', 'f32', 'f64', 'bool'}
        need = [f for f, t in fields if t not in PRIM]
        got = [f for f, k in bseq if f in need]
        if got != need or [f for f, k in bseq] != [f for f in decl if f in {x for x, _ in bseq}]:
            probs.append('byte_len visits %s, the variable-size fields in declaration order are %s' % ([f for f, k in bseq][:8], need[:8]))
        ek = dict(eseq); bk = dict(bseq)
        for f, t in fields:
            d = by_name.get(f)
            if not d:
                continue
            kinds = {d[1], ek.get(f), bk.get(f)} - {None}
            if len(kinds) > 1:
                probs.append('field %s is handled as %s by decode, %s by encode, %s by byte_len' % (f, d[1], ek.get(f), bk.get(f)))
            want_array = t.startswith('std::option::Option<std::vec::Vec<')
            if (d[1] == 'array') != want_array and d[1] != '?':
                probs.append('field %s of type %s is decoded as %s' % (f, t[:50], d[1]))
        if probs:
            r.fail(rule, key, 'codec mismatch in %s: %s' % (ty.rsplit('::', 1)[-1], '; '.join(probs[:3])), loc=de.loc)
        else:
            r.ok(rule, key, 'byte_len / encode / decode agree on %d fields' % len(decl), loc=de.loc)
    r.count('regular_codecs', n_regular); r.count('non_regular_or_skipped', n_skipped)
    r.extra['non_regular_sample'] = skipped[:12]
    r.floor(rule, 'regular_codecs', n_regular, 250)
    # (a2) decoder type of each field = declared field type (instance level)
    rule2 = 'field-decoder-type'
    n2 = 0
    for inst in db.instances.values():
        if not (inst.path.endswith('>::decode') and TRAIT in inst.path):
            continue
        m = re.match(r'^<(.+) as types::encoding::BinaryEncoder<', inst.path)
        if not m:
            continue
        ty = m.group(1)
        adt = db.adts.get(ty)
        if not adt or adt['kind'] != 'struct':
            continue
        body = db.bodies[inst.body_id]
        dseq, complete = decode_sequence(ctx, body, ty)
        if dseq is None or not complete:
            continue
        ftypes = dict((f[0], f[1]) for f in adt['variants'][0]['fields'])
        callbb = {}
        F = ctx.facts(body)
        bad = []
        for f, kind, callee, _ in dseq:
            pass
        # map each field operand's call bb to resolved callee
        agg = [st for blk in body.blocks if not blk['c'] for st in blk['s'] if st[0] == '=' and st[2][0] == 'agg' and st[2][1] == 'adt' and st[2][2] == ty and len(st[2]) > 5]
        if not agg:
            continue
        for nme, op in zip(agg[-1][2][5], agg[-1][2][4]):
            s = F.sym_operand(op)
            t = s
            for _ in range(2):
                if t[0] == 'proj':
                    t = t[1]
            if t[0] == 'call' and t[2] and t[2][0][0] == 'call':
                cbb = t[2][0][3]
                res = inst.calls.get(cbb)
                if res:
                    full = res[3]
                    ft = ftypes.get(nme, '')
                    if full.startswith('<'):
                        dec_ty = full[1:].split(' as ')[0]
                        if dec_ty != ft:
                            bad.append('%s: declared %s, decoded as %s' % (nme, ft[:40], dec_ty[:40]))
                    elif 'read_array::<' in full:
                        el = full.split('read_array::<', 1)[1].rsplit('>', 1)[0].split(', ', 1)[-1]
                        if ('Vec<%s>' % el) not in ft:
                            bad.append('%s: declared %s, decoded as array of %s' % (nme, ft[:40], el[:40]))
        n2 += 1
        if bad:
            r.fail(rule2, ty, 'decoder type differs from the field type in %s: %s' % (ty.rsplit('::', 1)[-1], '; '.join(bad[:2])), loc=body.loc)
    if n2:
        r.ok(rule2, 'summary', 'field decoder types equal the declared field types in %d decoder instances' % n2)
    r.floor(rule2, 'decoder_instances_checked', n2, 150)
    # (c) Variant::decode: the empty-array path looks at the dimensions bit
    rule3 = 'variant-dimensions-bit'
    vb = db.find_bodies(r'^<types::variant::Variant as types::encoding::BinaryEncoder<types::variant::Variant>>::decode$')
    if not vb:
        r.lost(rule3, 'Variant::decode', 'not found')
    else:
        b = vb[0]; F = ctx.facts(b)
        # Ok-producing calls (Array::new_multi / Array::new ... map) that are reachable with array_length == 0
        dim_tests = edges_where(F, lambda l: l[0] == 'cmp' and l[1] in ('ne', 'eq') and 'BitAnd' in fmt_lit(b, l) and re.search(r'\b64\b|ARRAY_DIMENSIONS', fmt_lit(b, l)) is not None)
        arr = [c for c in b.calls() if re.search(r'Array::(new_multi|new|new_single)$', c.callee)]
        bad = []
        # the null array (length -1): the edge `array_length != 0` inside the `array_length <= 0` region
        ne0 = edges_where(F, lambda l: l[0] == 'cmp' and l[1] == 'ne' and F.const_int(l[3]) == 0 and b.locals[0] and 'BitAnd' not in fmt_sym(b, l[2]))
        ne0 = [e for e in ne0 if any(l[0] == 'cmp' and l[1] == 'le' and l[2] == e[2][2] and F.const_int(l[3]) == 0 for l, _ in F.literals_at(e[0]))]
        # both outcomes of a dimensions-bit test count as "examined"
        tests_all = []
        for src, dst, lit in dim_tests:
            for d2 in b.succ(src):
                tests_all.append((src, d2, lit))
        for c in arr:
            if not unreachable_without(b, c.bb, tests_all + ne0):
                bad.append(c)
        if not dim_tests:
            r.lost(rule3, 'dimension-tests', 'no test of the ARRAY_DIMENSIONS bit found in Variant::decode')
        elif bad:
            r.fail(rule3, 'Variant::decode:array-paths', 'an array is accepted on a path that never examined ARRAY_DIMENSIONS_BIT although the encoder writes dimensions whenever they are present (stream desync)', loc=bad[0].loc)
        else:
            r.ok(rule3, 'Variant::decode:array-paths', 'every array-producing path examined ARRAY_DIMENSIONS_BIT (the null array, length -1, excepted: the encoder never emits it)', loc=b.loc)
