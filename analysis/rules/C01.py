"""C01 Binary encoding round-trips - codec agreement clauses (E6 + E2)."""
import re
from ..rulelib import *
from ..facts import fmt_sym, fmt_lit

TRAIT = 'types::encoding::BinaryEncoder'


def rpo(body):
    seen = set(); order = []
    st = [(0, iter(body.succ(0)))]; seen.add(0)
    while st:
        b, it = st[-1]
        adv = False
        for s in it:
            if s not in seen and not body.is_cleanup(s):
                seen.add(s); st.append((s, iter(body.succ(s)))); adv = True; break
        if not adv:
            order.append(b); st.pop()
    return order[::-1]


def self_field(body, F, op):
    """name of the field of *self an operand refers to (through one borrow), else None"""
    s = F.sym_operand(op)
    while s[0] == 'ref':
        s = s[1]
    if s[0] == 'place' and s[1] == 1 and len(s[2]) == 2 and s[2][0] == '*' and s[2][1].startswith('.'):
        return s[2][1][1:]
    return None


def field_sequence(ctx, body, which):
    """ordered [(field, kind)] of the codec calls of byte_len / encode"""
    F = ctx.facts(body)
    out = []
    order = {b: i for i, b in enumerate(rpo(body))}
    calls = sorted([c for c in body.calls() if c.bb in order], key=lambda c: order[c.bb])
    for c in calls:
        name = c.callee
        if which == 'byte_len':
            if name.endswith('BinaryEncoder::byte_len') and c.args:
                f = self_field(body, F, c.args[0]); kind = 'value'
            elif name.endswith('encoding::byte_len_array') and c.args:
                f = self_field(body, F, c.args[0]); kind = 'array'
            else:
                continue
        else:
            if name.endswith('BinaryEncoder::encode') and c.args:
                f = self_field(body, F, c.args[0]); kind = 'value'
            elif name.endswith('encoding::write_array') and len(c.args) > 1:
                f = self_field(body, F, c.args[1]); kind = 'array'
            else:
                continue
        if f is not None:
            out.append((f, kind))
    return out


def decode_sequence(ctx, body, adt_path):
    """(ordered [(field, kind, decoded type)], complete?) from the struct aggregate of decode"""
    F = ctx.facts(body)
    order = {b: i for i, b in enumerate(rpo(body))}
    agg = None
    for bi, blk in enumerate(body.blocks):
        if blk['c']:
            continue
        for st in blk['s']:
            if st[0] == '=' and st[2][0] == 'agg' and st[2][1] == 'adt' and st[2][2] == adt_path and len(st[2]) > 5:
                agg = st
    if agg is None:
        return None, False
    names = agg[2][5]; ops = agg[2][4]
    seq = []
    complete = True
    for n, op in zip(names, ops):
        s = F.sym_operand(op)
        # Try::branch(call)@Continue.0
        call = None
        t = s
        if t[0] == 'proj' and t[2] == '.0':
            t = t[1]
        if t[0] == 'proj' and t[2] == '@Continue':
            t = t[1]
        if t[0] == 'call' and t[1].endswith('Try::branch') and t[2] and t[2][0][0] == 'call':
            call = t[2][0]
        if call is None:
            complete = False
            seq.append((n, '?', fmt_sym(body, s)[:60], 10 ** 6))
            continue
        kind = 'array' if call[1].endswith('encoding::read_array') else ('value' if call[1].endswith('BinaryEncoder::decode') else '?')
        seq.append((n, kind, call[1], order.get(call[3], 10 ** 6)))
    return seq, complete


def run(ctx):
    r, db = ctx.r, ctx.db
    r.explanation = ('(a) codec agreement: for every type whose decode builds the struct directly from one decode/read_array call per field '
                     '("regular shape": the generated service types and plain hand-written structs), byte_len, encode and decode visit the '
                     'same fields, in struct declaration order, with the matching codec kind (value vs array), decode calls happen in field '
                     'order, and the decoder used for a field is the BinaryEncoder of that field\'s declared type. A mismatch desynchronises '
                     'the stream for every value that populates the field. (c) Variant::decode examines the dimensions bit on the '
                     'empty-array path. Value equality of the round trip, byte_len arithmetic and DateTime clamping are not decided.')
    r.rule_text = 'E6 sibling agreement over the call sequences of byte_len / encode / decode read from MIR'
    rule = 'codec-agreement'
    # impl table: self type -> {method: body path}
    impls = {}
    for im in db.impls:
        if im.get('trait') == TRAIT:
            m = {k.rsplit('::', 1)[-1]: v for k, v in im['methods'].items()}
            impls[im['self_ty']] = m
    n_regular = 0; n_skipped = 0; skipped = []
    for ty, m in sorted(impls.items()):
        adt = db.adts.get(ty)
        if not adt or adt['kind'] != 'struct' or not all(k in m for k in ('byte_len', 'encode', 'decode')):
            n_skipped += 1; continue
        fields = [(f[0], f[1]) for f in adt['variants'][0]['fields']]
        bl, en, de = db.body(m['byte_len']), db.body(m['encode']), db.body(m['decode'])
        if not (bl and en and de):
            n_skipped += 1; continue
        dseq, complete = decode_sequence(ctx, de, ty)
        if dseq is None or not complete or not fields:
            n_skipped += 1; skipped.append(ty); continue
        n_regular += 1
        key = ty
        decl = [f for f, t in fields]
        probs = []
        # decode: aggregate covers all fields (rustc guarantees), calls in field order, kinds and types
        d_fields = [x[0] for x in dseq]
        by_name = {x[0]: x for x in dseq}
        pos = [by_name[f][3] for f in decl if f in by_name]
        if pos != sorted(pos):
            probs.append('decode reads the fields in a different order than they are declared/encoded')
        bseq = field_sequence(ctx, bl, 'byte_len'); eseq = field_sequence(ctx, en, 'encode')
        if [f for f, k in eseq] != decl:
            probs.append('encode visits %s, declaration order is %s' % ([f for f, k in eseq][:8], decl[:8]))
        # fixed-size primitive fields may be folded into a constant in a hand-written byte_len
        PRIM = {'u8', 'u16', 'u32', 'u64', 'i8', 'i16', 'i32', 'i64', 'f32', 'f64', 'bool'}
        need = [f for f, t in fields if t not in PRIM]
        got = [f for f, k in bseq if f in need]
        if got != need or [f for f, k in bseq] != [f for f in decl if f in {x for x, _ in bseq}]:
            probs.append('byte_len visits %s, the variable-size fields in declaration order are %s' % ([f for f, k in bseq][:8], need[:8]))
        ek = dict(eseq); bk = dict(bseq)
        for f, t in fields:
            d = by_name.get(f)
            if not d:
                continue
            kinds = {d[1], ek.get(f), bk.get(f)} - {None}
            if len(kinds) > 1:
                probs.append('field %s is handled as %s by decode, %s by encode, %s by byte_len' % (f, d[1], ek.get(f), bk.get(f)))
            want_array = t.startswith('std::option::Option<std::vec::Vec<')
            if (d[1] == 'array') != want_array and d[1] != '?':
                probs.append('field %s of type %s is decoded as %s' % (f, t[:50], d[1]))
        if probs:
            r.fail(rule, key, 'codec mismatch in %s: %s' % (ty.rsplit('::', 1)[-1], '; '.join(probs[:3])), loc=de.loc)
        else:
            r.ok(rule, key, 'byte_len / encode / decode agree on %d fields' % len(decl), loc=de.loc)
    r.count('regular_codecs', n_regular); r.count('non_regular_or_skipped', n_skipped)
    r.extra['non_regular_sample'] = skipped[:12]
    r.floor(rule, 'regular_codecs', n_regular, 250)
    # (a2) decoder type of each field = declared field type (instance level)
    rule2 = 'field-decoder-type'
    n2 = 0
    for inst in db.instances.values():
        if not (inst.path.endswith('>::decode') and TRAIT in inst.path):
            continue
        m = re.match(r'^<(.+) as types::encoding::BinaryEncoder<', inst.path)
        if not m:
            continue
        ty = m.group(1)
        adt = db.adts.get(ty)
        if not adt or adt['kind'] != 'struct':
            continue
        body = db.bodies[inst.body_id]
        dseq, complete = decode_sequence(ctx, body, ty)
        if dseq is None or not complete:
            continue
        ftypes = dict((f[0], f[1]) for f in adt['variants'][0]['fields'])
        callbb = {}
        F = ctx.facts(body)
        bad = []
        for f, kind, callee, _ in dseq:
            pass
        # map each field operand's call bb to resolved callee
        agg = [st for blk in body.blocks if not blk['c'] for st in blk['s'] if st[0] == '=' and st[2][0] == 'agg' and st[2][1] == 'adt' and st[2][2] == ty and len(st[2]) > 5]
        if not agg:
            continue
        for nme, op in zip(agg[-1][2][5], agg[-1][2][4]):
            s = F.sym_operand(op)
            t = s
            for _ in range(2):
                if t[0] == 'proj':
                    t = t[1]
            if t[0] == 'call' and t[2] and t[2][0][0] == 'call':
                cbb = t[2][0][3]
                res = inst.calls.get(cbb)
                if res:
                    full = res[3]
                    ft = ftypes.get(nme, '')
                    if full.startswith('<'):
                        dec_ty = full[1:].split(' as ')[0]
                        if dec_ty != ft:
                            bad.append('%s: declared %s, decoded as %s' % (nme, ft[:40], dec_ty[:40]))
                    elif 'read_array::<' in full:
                        el = full.split('read_array::<', 1)[1].rsplit('>', 1)[0].split(', ', 1)[-1]
                        if ('Vec<%s>' % el) not in ft:
                            bad.append('%s: declared %s, decoded as array of %s' % (nme, ft[:40], el[:40]))
        n2 += 1
        if bad:
            r.fail(rule2, ty, 'decoder type differs from the field type in %s: %s' % (ty.rsplit('::', 1)[-1], '; '.join(bad[:2])), loc=body.loc)
    if n2:
        r.ok(rule2, 'summary', 'field decoder types equal the declared field types in %d decoder instances' % n2)
    r.floor(rule2, 'decoder_instances_checked', n2, 150)
    mask_agreement(ctx)
    tag_agreement(ctx)
    variant_type_ids(ctx)
    r.floor('tag-agreement', 'tag_layouts', r.counts.get('tag_layouts', 0), 12)
    r.floor('mask-agreement', 'mask_combinations', r.counts.get('mask_combinations', 0), 192)
    # (c) Variant::decode: the empty-array path looks at the dimensions bit
    rule3 = 'variant-dimensions-bit'
    vb = db.find_bodies(r'^<types::variant::Variant as types::encoding::BinaryEncoder<types::variant::Variant>>::decode$')
    if not vb:
        r.lost(rule3, 'Variant::decode', 'not found')
    else:
        b = vb[0]; F = ctx.facts(b)
        # Ok-producing calls (Array::new_multi / Array::new ... map) that are reachable with array_length == 0
        dim_tests = edges_where(F, lambda l: l[0] == 'cmp' and l[1] in ('ne', 'eq') and 'BitAnd' in fmt_lit(b, l) and re.search(r'\b64\b|ARRAY_DIMENSIONS', fmt_lit(b, l)) is not None)
        arr = [c for c in b.calls() if re.search(r'Array::(new_multi|new|new_single)$', c.callee)]
        bad = []
        # the null array (length -1): the edge `array_length != 0` inside the `array_length <= 0` region
        ne0 = edges_where(F, lambda l: l[0] == 'cmp' and l[1] == 'ne' and F.const_int(l[3]) == 0 and b.locals[0] and 'BitAnd' not in fmt_sym(b, l[2]))
        ne0 = [e for e in ne0 if any(l[0] == 'cmp' and l[1] == 'le' and l[2] == e[2][2] and F.const_int(l[3]) == 0 for l, _ in F.literals_at(e[0]))]
        # both outcomes of a dimensions-bit test count as "examined"
        tests_all = []
        for src, dst, lit in dim_tests:
            for d2 in b.succ(src):
                tests_all.append((src, d2, lit))
        for c in arr:
            if not unreachable_without(b, c.bb, tests_all + ne0):
                bad.append(c)
        if not dim_tests:
            r.lost(rule3, 'dimension-tests', 'no test of the ARRAY_DIMENSIONS bit found in Variant::decode')
        elif bad:
            r.fail(rule3, 'Variant::decode:array-paths', 'an array is accepted on a path that never examined ARRAY_DIMENSIONS_BIT although the encoder writes dimensions whenever they are present (stream desync)', loc=bad[0].loc)
        else:
            r.ok(rule3, 'Variant::decode:array-paths', 'every array-producing path examined ARRAY_DIMENSIONS_BIT (the null array, length -1, excepted: the encoder never emits it)', loc=b.loc)


# ------------------------------------------------------------------ (d) mask-driven codecs
MASKED = [
    # (type path, mask function)
    ('types::data_value::DataValue', 'types::data_value::DataValue::encoding_mask'),
    ('types::diagnostic_info::DiagnosticInfo', 'types::diagnostic_info::DiagnosticInfo::encoding_mask'),
]
WIRE_FN = re.compile(r'^types::encoding::(write|read)_(u8|i8|u16|i16|u32|i32|u64|i64|f32|f64)$')


def _self_field_in(sym):
    """name of the field of *self (local 1) a sym mentions, else None"""
    if isinstance(sym, tuple):
        if sym and sym[0] == 'place' and sym[1] == 1 and len(sym[2]) >= 2 and sym[2][0] == '*' and isinstance(sym[2][1], str) and sym[2][1].startswith('.'):
            return sym[2][1][1:]
        for x in sym:
            f = _self_field_in(x)
            if f:
                return f
    return None


def _conds(body, F, bb):
    """(flags required set, presence atoms {(field, True/False)}) that dominate block bb"""
    flags = set(); pres = set(); other = []
    for lit, e in F.literals_at(bb):
        if lit[0] == 'truth' and lit[1][0] == 'call' and lit[1][1].endswith('::contains') and len(lit[1][2]) == 2 and lit[1][2][1][0] == 'k':
            flags.add((lit[1][2][1][1].rsplit('::', 1)[-1], lit[2]))
        elif lit[0] == 'variant' and lit[2] in ('Some', 'None'):
            f = _self_field_in(lit[1])
            if f and lit[1][0] == 'place':
                pres.add((f, (lit[2] == 'Some') == lit[3]))
    return flags, pres


def _wire_type(c):
    m = WIRE_FN.match(c.callee)
    if m:
        return m.group(2)
    m = re.match(r'^<(.+) as types::encoding::BinaryEncoder<', c.callee_full)
    if m:
        t = m.group(1)
        t = re.sub(r'^std::boxed::Box<(.+)>$', r'\1', t)
        return t
    return None


def mask_agreement(ctx, rule='mask-agreement'):
    """For the codecs whose optional fields are announced by an encoding mask: enumerate every combination of present /
    absent optional fields, compute the mask encoding_mask() would produce from the conditions that dominate its
    `|= FLAG` sites, and require that the sequence of wire types encode writes under that mask and field presence equals
    the sequence decode reads under that mask, and that byte_len sizes the same fields."""
    import itertools
    r, db = ctx.r, ctx.db
    for ty, maskfn in MASKED:
        short = ty.rsplit('::', 1)[-1]
        mb = db.body(maskfn)
        enc = db.find_bodies(r'^<%s as types::encoding::BinaryEncoder<%s>>::encode$' % (re.escape(ty), re.escape(ty)))
        dec = db.find_bodies(r'^<%s as types::encoding::BinaryEncoder<%s>>::decode$' % (re.escape(ty), re.escape(ty)))
        bl = db.find_bodies(r'^<%s as types::encoding::BinaryEncoder<%s>>::byte_len$' % (re.escape(ty), re.escape(ty)))
        if not (mb and enc and dec and bl):
            r.lost(rule, short, 'encoding_mask / encode / decode / byte_len of %s not found' % short); continue
        enc, dec, bl = enc[0], dec[0], bl[0]
        # mask: flag -> list of presence conjunctions
        Fm = ctx.facts(mb)
        mask_sites = {}
        for c in mb.calls():
            if c.callee.endswith('bitor_assign') and len(c.args) == 2 and c.args[1][0] == 'k':
                flag = c.args[1][1].rsplit('::', 1)[-1]
                fl, pres = _conds(mb, Fm, c.bb)
                mask_sites.setdefault(flag, []).append(pres)
        if len(mask_sites) < 3:
            r.lost(rule, short + ':mask', 'flag sites of %s not recognised' % maskfn); continue
        fields = sorted({f for sites in mask_sites.values() for pres in sites for f, _ in pres})
        def seq_of(body, pick):
            F = ctx.facts(body)
            order = {b_: i for i, b_ in enumerate(rpo(body))}
            out = []
            for c in sorted([c for c in body.calls() if c.bb in order], key=lambda c: order[c.bb]):
                it = pick(body, F, c)
                if it is not None:
                    fl, pres = _conds(body, F, c.bb)
                    out.append((it, fl, pres))
            return out
        def pick_enc(body, F, c):
            if (c.callee.endswith('BinaryEncoder::encode') or WIRE_FN.match(c.callee) and '::write_' in c.callee):
                return _wire_type(c)
            return None
        def pick_dec(body, F, c):
            if (c.callee.endswith('BinaryEncoder::decode') or WIRE_FN.match(c.callee) and '::read_' in c.callee):
                return _wire_type(c)
            return None
        def pick_len(body, F, c):
            if c.callee.endswith('BinaryEncoder::byte_len') and c.args:
                return _self_field_in(F.sym_operand(c.args[0])) or '?'
            return None
        eseq = seq_of(enc, pick_enc); dseq = seq_of(dec, pick_dec); lseq = seq_of(bl, pick_len)
        # field written by each encode call (for the byte_len comparison)
        Fe = ctx.facts(enc)
        order = {b_: i for i, b_ in enumerate(rpo(enc))}
        efields = []
        for c in sorted([c for c in enc.calls() if c.bb in order], key=lambda c: order[c.bb]):
            if pick_enc(enc, Fe, c) is not None:
                f = None
                for a in c.args:
                    f = f or _self_field_in(Fe.sym_operand(a))
                fl, pres = _conds(enc, Fe, c.bb)
                efields.append((f, fl, pres))
        if len(eseq) < 3 or len(dseq) < 3:
            r.lost(rule, short + ':codec', 'codec calls of %s not recognised (encode %d, decode %d)' % (short, len(eseq), len(dseq))); continue
        bad = None; combos = 0
        for bits in itertools.product((False, True), repeat=len(fields)):
            P = dict(zip(fields, bits)); combos += 1
            mask = {flag for flag, sites in mask_sites.items() if any(all(P.get(f) == v for f, v in pres) for pres in sites)}
            def active(fl, pres):
                return all((f in mask) == want for f, want in fl) and all(P.get(f, None) in (v, None) for f, v in pres)
            w = [t for t, fl, pres in eseq if active(fl, pres)]
            rd = [t for t, fl, pres in dseq if active(fl, set())]
            ws = [f for f, fl, pres in efields if active(fl, pres) and f]
            ls = [f for f, fl, pres in lseq if active(fl, pres)]
            if w != rd:
                bad = ('with %s present the mask is {%s}; encode writes [%s] but decode reads [%s]' %
                       (sorted(f for f, v in P.items() if v), ', '.join(sorted(mask)), ', '.join(x.rsplit('::', 1)[-1] for x in w), ', '.join(x.rsplit('::', 1)[-1] for x in rd)))
                break
            if ws != ls:
                bad = ('with %s present encode writes fields %s but byte_len sizes %s' % (sorted(f for f, v in P.items() if v), ws, ls))
                break
        r.count('mask_combinations', r.counts.get('mask_combinations', 0) + combos)
        if bad:
            r.fail(rule, short, 'mask-driven codec of %s disagrees: %s (the stream desynchronises for such a value)' % (short, bad), loc=enc.loc)
        else:
            r.ok(rule, short, '%s: for all %d presence combinations of %d optional fields, encode/decode agree on the wire type sequence and byte_len on the fields' % (short, combos, len(fields)), loc=enc.loc)


# ------------------------------------------------------------------ (e) tag-driven codecs (NodeId, ExpandedNodeId)
TAGGED = ['types::node_id::NodeId', 'types::expanded_node_id::ExpandedNodeId']


def _has_place(sym, local):
    if isinstance(sym, tuple) and sym:
        if sym[0] == 'place' and sym[1] == local and not sym[2]:
            return True
        return any(_has_place(x, local) for x in sym if isinstance(x, tuple))
    return False


def tag_agreement(ctx, rule='tag-agreement'):
    """NodeId / ExpandedNodeId: the first byte selects one of several layouts. For every layout the encoder writes (tag
    constant K, then a sequence of wire types) the decoder's arm for K must read the same sequence. ExpandedNodeId also
    carries two flag bits in the same byte: every tag write must include the flags variable, the flag constants set by
    the encoder must be the ones the decoder tests, and the optional parts are written / read under the same flag."""
    r, db = ctx.r, ctx.db
    narms = 0
    for ty in TAGGED:
        short = ty.rsplit('::', 1)[-1]
        enc = db.find_bodies(r'^<%s as types::encoding::BinaryEncoder<%s>>::encode$' % (re.escape(ty), re.escape(ty)))
        dec = db.find_bodies(r'^<%s as types::encoding::BinaryEncoder<%s>>::decode$' % (re.escape(ty), re.escape(ty)))
        if not enc or not dec:
            r.lost(rule, short, 'encode / decode of %s not found' % short); continue
        enc, dec = enc[0], dec[0]
        Fe, Fd = ctx.facts(enc), ctx.facts(dec)
        eorder = {b_: i for i, b_ in enumerate(rpo(enc))}
        dorder = {b_: i for i, b_ in enumerate(rpo(dec))}
        def is_write(c):
            return (WIRE_FN.match(c.callee) and '::write_' in c.callee) or c.callee.endswith('BinaryEncoder::encode')
        def is_read(c):
            return (WIRE_FN.match(c.callee) and '::read_' in c.callee) or c.callee.endswith('BinaryEncoder::decode')
        writes = sorted([c for c in enc.calls() if is_write(c) and c.bb in eorder], key=lambda c: eorder[c.bb])
        reads = sorted([c for c in dec.calls() if is_read(c) and c.bb in dorder], key=lambda c: dorder[c.bb])
        # tag writes: write_u8 not dominated by another write
        tags = []
        for c in writes:
            if c.callee.endswith('write_u8') and not any(o is not c and enc.dominates(o.bb, c.bb) for o in writes):
                v = Fe.sym_operand(c.args[1])
                k = None; flags_local = None
                if Fe.const_int(v) is not None:
                    k = Fe.const_int(v)
                elif v[0] == 'place' and not v[2]:
                    k = 0; flags_local = v[1]
                elif v[0] == 'bin' and v[1] == 'BitOr':
                    for a, b_ in ((v[2], v[3]), (v[3], v[2])):
                        if Fe.const_int(b_) is not None and a[0] == 'place' and not a[2]:
                            k = Fe.const_int(b_); flags_local = a[1]
                tags.append((c, k, flags_local, v))
        # decoder arms
        sw = None
        for bi, blk in enumerate(dec.blocks):
            t = blk['t']
            if t[0] == 'switch' and t[2] == 'u8' and len(t[3]) >= 3:
                sw = bi; break
        if sw is None or len(tags) < 3:
            r.lost(rule, short + ':shape', 'tag writes (%d) / decoder tag switch not recognised' % len(tags)); continue
        arms = {int(v): d for v, d in dec.term(sw)[3]}
        probs = []
        for c, k, fl, v in tags:
            narms += 1
            if k is None:
                probs.append('tag byte %s is not a layout constant' % fmt_sym(enc, v)[:40]); continue
            eseq = [_wire_type(o) for o in writes if o is not c and enc.dominates(c.bb, o.bb)]
            if k not in arms:
                probs.append('layout %d is written but the decoder has no arm for it' % k); continue
            dseq = [_wire_type(o) for o in reads if dec.dominates(arms[k], o.bb)]
            if eseq != dseq:
                probs.append('layout %d: encode writes [%s] after the tag, decode reads [%s]' % (k, ', '.join(x.rsplit('::', 1)[-1] for x in eseq), ', '.join(x.rsplit('::', 1)[-1] for x in dseq)))
        # flags
        dflags = {}
        for bi, blk in enumerate(dec.blocks):
            t = blk['t']
            if t[0] == 'switch':
                e = Fd.sym_operand(t[1])
                if e[0] == 'bin' and e[1] == 'Ne' and e[2][0] == 'bin' and e[2][1] == 'BitAnd' and Fd.const_int(e[2][3]) is not None:
                    cst = Fd.const_int(e[2][3])
                    tgt = [d for v, d in t[3]]
                    taken = [s_ for s_ in dec.succ(bi) if s_ not in tgt]   # the `!= 0` edge is the otherwise edge of `switch [0 -> ..]`
                    if taken:
                        dflags[cst] = [_wire_type(o) for o in reads if dec.dominates(taken[0], o.bb)][:1]
        if dflags:
            locals_ = {fl for c, k, fl, v in tags}
            if None in locals_ or len(locals_) != 1:
                bad = [k for c, k, fl, v in tags if fl is None]
                probs.append('the tag byte of layout(s) %s does not carry the flags variable: the decoder will not look for the optional parts' % bad)
            else:
                L = locals_.pop()
                eflags = {}
                for d in enc.defs().get(L, []):
                    if d[0] == 'stmt' and d[3][0] == 'bin' and d[3][1] == 'BitOr':
                        cst = Fe.const_int(Fe.sym_operand(d[3][3]))
                        conds = sorted(stable(enc, l) for l, e in Fe.literals_at(d[1], d[2]) if l[0] != 'try' and 'Try::branch' not in fmt_lit(enc, l))
                        eflags[cst] = conds
                if set(eflags) != set(dflags):
                    probs.append('the encoder sets flag bits %s, the decoder tests %s' % (sorted(eflags), sorted(dflags)))
                for cst, conds in eflags.items():
                    # the optional part written under the same condition
                    wr = [o for o in writes if sorted(stable(enc, l) for l, e in Fe.literals_at(o.bb) if l[0] != 'try' and 'Try::branch' not in fmt_lit(enc, l) and 'succeeded' not in fmt_lit(enc, l)) == conds
                          and not any(enc.dominates(c.bb, o.bb) for c, _, _, _ in tags)]
                    wt = [_wire_type(o) for o in wr]
                    if wt[:1] != dflags.get(cst, [None])[:1]:
                        probs.append('flag 0x%x: encode writes %s under the flag condition, decode reads %s' % (cst, wt[:1], dflags.get(cst)))
        if probs:
            r.fail(rule, short, 'tag-driven codec of %s disagrees: %s' % (short, '; '.join(probs[:3])), loc=enc.loc)
        else:
            r.ok(rule, short, '%s: %d layouts, each read back with the sequence it was written with%s' % (short, len(tags), '; flag bits and optional parts agree' if dflags else ''), loc=enc.loc)
    r.count('tag_layouts', narms)


def stable(body, lit):
    s = fmt_lit(body, lit)
    return re.sub(r'\(_\d+\)', '', s)


def variant_type_ids(ctx, rule='variant-type-id-agreement'):
    """the built-in type id a Variant is encoded with (VariantTypeId::encoding_mask) and the Variant variant
    decode_variant_value builds under that id must be the same variant - read from the match arms of encoding_mask, the
    flag tests that dominate each construction in decode_variant_value, and the variant each `From<T> for Variant` builds"""
    from ..tables import match_table
    r, db = ctx.r, ctx.db
    eb = db.body('types::variant_type_id::VariantTypeId::encoding_mask')
    dbs = db.find_bodies(r'^types::variant::Variant::decode_variant_value$')
    if eb is None or not dbs:
        r.lost(rule, 'functions', 'VariantTypeId::encoding_mask / Variant::decode_variant_value not found'); return
    enc = {}
    for v, val in (match_table(ctx, eb, enum_suffix='VariantTypeId') or {}).items():
        try:
            enc[int(val)] = v
        except (TypeError, ValueError):
            pass
    b = dbs[0]; F = ctx.facts(b)
    def flag_at(bb, si=None):
        ks = []
        for l, e in (F.literals_at(bb, si) if si is not None else F.literals_at(bb)):
            if l[0] == 'truth' and l[2] is True and l[1][0] == 'call' and l[1][1].endswith('test_encoding_flag') and len(l[1][2]) == 2:
                k = F.const_int(l[1][2][1])
                if k is not None:
                    ks.append(k)
        return ks[-1] if ks else None
    built = {}
    def from_variant(c):
        fb = db.find_bodies('^' + re.escape(c.callee_full) + '$')
        for x in fb:
            for blk in x.blocks:
                for st in blk['s']:
                    if st[0] == '=' and st[2][0] == 'agg' and st[2][1] == 'adt' and str(st[2][2]).endswith('variant::Variant'):
                        return st[2][3]
        return None
    for c in b.calls():
        if re.match(r'^<types::variant::Variant as std::convert::From<.*>>::from$', c.callee_full):
            k = flag_at(c.bb)
            if k is not None:
                built.setdefault(k, set()).add(from_variant(c) or '?')
    for bi, blk in enumerate(b.blocks):
        if blk['c']:
            continue
        for si, st in enumerate(blk['s']):
            if st[0] == '=' and st[2][0] == 'agg' and st[2][1] == 'adt' and str(st[2][2]).endswith('variant::Variant') and st[2][3] != 'Empty':
                k = flag_at(bi, si)
                if k is not None:
                    built.setdefault(k, set()).add(st[2][3])
    if len(enc) < 20 or len(built) < 20:
        r.lost(rule, 'tables', 'type id tables not recognised (encode %d rows, decode %d rows)' % (len(enc), len(built))); return
    bad = []
    for k, vs in sorted(built.items()):
        if vs != {enc.get(k)}:
            bad.append('type id %d is written for Variant::%s but decoded as %s' % (k, enc.get(k), '/'.join(sorted(vs))))
    for k, v in enc.items():
        if k != 0 and k not in built:
            bad.append('type id %d (Variant::%s) has no decoding arm' % (k, v))
    r.count('variant_type_ids', len(built))
    if bad:
        r.fail(rule, 'Variant', 'Variant encode / decode disagree on a built-in type id: ' + '; '.join(bad[:3]), loc=b.loc)
    else:
        r.ok(rule, 'Variant', 'all %d built-in type ids decode to the variant they are written for' % len(built), loc=b.loc)
    r.floor(rule, 'variant_type_ids', len(built), 24)
