"""C33 No well-formed request from an authenticated client crashes the server (E1 + E4)."""
from ..panics import run_e1

ENTRY = (r'^server::services::message_handler::MessageHandler::handle_message$'
         r'|^server::session::Session::(expire_stale_publish_requests|tick_subscriptions)$'
         r'|^server::comms::tcp_transport::TcpTransport::(process_message|process_open_secure_channel|process_close_secure_channel)$'
         r'|^server::comms::secure_channel_service::SecureChannelService::open_secure_channel$')


def run(ctx):
    r = ctx.r
    r.explanation = ('E1 over everything reachable from the service dispatcher (all services, the built-in method callbacks by class '
                     'hierarchy, event filters, address space operations, response encoding is excluded at the sender), the OPN handler '
                     'and the periodic subscription processing: every panic site is discharged by a dominating guard, a reviewed '
                     'disposition with re-checked premises or caller scope, or a reason-only entry. E4: every recursion cycle in that '
                     'set needs a termination witness.')
    r.rule_text = 'E1 panic-site inventory x guard dominance x dispositions; E4 SCC witnesses'
    run_e1(ctx, ENTRY)
    r.floor('E1-panic', 'panic_sites', r.counts.get('panic_sites', 0), 150)
