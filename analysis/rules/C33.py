"""C33 No well-formed request from an authenticated client crashes the server (E1 + E4)."""
import re
from ..panics import run_e1, stable_lit
from ..rulelib import edges_where, unreachable_without, result_ctor_sites
from ..facts import fmt_lit
from .C39 import make_table_auto, validation_gate, operand_gate
from ..recursion import check_termination

ENTRY = (r'^server::services::message_handler::MessageHandler::handle_message$'
         r'|^server::session::Session::(expire_stale_publish_requests|tick_subscriptions)$'
         r'|^server::comms::tcp_transport::TcpTransport::(process_message|process_open_secure_channel|process_close_secure_channel)$'
         r'|^server::comms::secure_channel_service::SecureChannelService::open_secure_channel$')


def check_action_tables(ctx, rule='E6-history-actions'):
    """the allow-list of encoding ids that node_id_to_historical_*_action accepts must be covered by the arms of the
    match that decodes the details (its fallback arm is panic!())"""
    db, r = ctx.db, ctx.r
    for kind in ('read', 'update'):
        lb = db.find_bodies(r'^server::services::attribute::AttributeService::node_id_to_historical_%s_action$' % kind)
        dbs = db.find_bodies(r'^server::services::attribute::AttributeService::decode_history_%s_details$' % kind)
        key = 'history_%s_actions' % kind
        if not lb or not dbs:
            r.lost(rule, key, 'node_id_to_historical_%s_action / decode_history_%s_details not found' % (kind, kind)); continue
        allow = set()
        for prom in lb[0].d.get('promoted_all') or []:
            for loc, rv in prom:
                if rv[0] == 'agg' and rv[1] == 'adt' and rv[2].endswith('ObjectId'):
                    allow.add(rv[3])
        b = dbs[0]; F = ctx.facts(b)
        arms = set(); found = False
        for bi, blk in enumerate(b.blocks):
            t = blk['t']
            if t[0] != 'switch':
                continue
            e = F.sym_operand(t[1])
            if e[0] == 'discr' and e[2].endswith('ObjectId'):
                found = True
                names = F.variants_of(e[2])
                for dst, lab in b.succ_edges(bi):
                    if lab[0] == 'val' and names.get(lab[1]):
                        arms.add(names.get(lab[1]))
        if not allow or not found:
            r.lost(rule, key, 'allow-list constant or match on ObjectId not recognised (allow=%d, match=%s)' % (len(allow), found)); continue
        r.count('history_action_ids', r.counts.get('history_action_ids', 0) + len(allow))
        missing = sorted(allow - arms)
        if missing:
            r.fail(rule, key, 'encoding id(s) accepted by node_id_to_historical_%s_action have no arm in decode_history_%s_details and fall '
                   'into its panic!() arm: %s' % (kind, kind, ', '.join(missing)), loc=b.loc)
        else:
            r.ok(rule, key, 'all %d accepted encoding ids have a decoding arm' % len(allow), loc=b.loc)


# callee -> {caller regex: (description, literal predicate over formatted literals)}: every call of the callee from inside the
# reachable set must come from a listed caller, and must be cut off from the entry of that caller by the guard edges
GUARDED_REVIEWED = {
    'set_node_type': 'set_node_type(node, type) is called by add_node after the type definition was validated as an existing type node, '
                     'which cannot be the node created in the same call',
    'Builder::insert': 'builders are used by the server\'s own start-up / callback code with node ids in registered namespaces',
}

GUARDED = [
    (r'^server::address_space::relative_path::find_nodes_relative_path$',
     'find_nodes_relative_path unwraps relative_path.elements', {
        r'^server::services::view::ViewService::translate_browse_paths_to_node_ids::\{closure#\d+\}$':
            ('the request path has elements', [r'relative_path\.elements is not None$', r'relative_path\.elements\) == False$']),
        r'^server::services::node_management::NodeManagementService::add_node$':
            ('the path was just parsed by RelativePath::from_str (always Some elements)', [r'^relative_path::from_str\(.*\) is Ok$']),
        r'^server::address_space::relative_path::find_nodes_relative_path_simple$':
            'the path comes from RelativePath::from_str, which always builds Some(elements)',
        r'^server::address_space::relative_path::find_node_from_browse_path(::\{closure#\d+\})*$':
            'the path is built from a non-empty browse path slice inside the same function',
     }),
    (r'^server::subscriptions::monitored_item::MonitoredItem::check_for_events$',
     'check_for_events panics unless the item filter is an EventFilter', {
        r'^server::subscriptions::monitored_item::MonitoredItem::check_value$':
            ('the filter of the item is an EventFilter', [r'^\(\*self\)\.filter is EventFilter$']),
     }),
    (r'^server::subscriptions::monitored_item::MonitoredItem::check_value$',
     'check_value panics when the monitoring mode is Disabled', {
        r'^server::subscriptions::monitored_item::MonitoredItem::tick$':
            ('monitoring mode is not Disabled', [r'^\(\*self\)\.monitoring_mode ne MonitoringMode::Disabled$']),
        r'^server::subscriptions::subscription::Subscription::tick_monitored_items::\{closure#\d+\}$':
            ('the triggered item is Sampling', [r'monitoring_mode\(.*\) is Sampling$']),
     }),
    (r'NotificationMessage>::data_change$',
     'NotificationMessage::data_change panics without notifications', {
        r'^server::subscriptions::subscription::Subscription::tick_monitored_items$':
            ('at least one notification was collected', [r'^len\(monitored_item_notifications\) ne 0$', r'is_empty\(&monitored_item_notifications\) == False$']),
     }),
    (r'^server::address_space::address_space::AddressSpace::insert_reference$',
     'References::insert_reference panics on a self reference', {
        r'^server::services::node_management::NodeManagementService::add_reference$':
            ('source node differs from target node', [r'source_node_id ne .*target_node_id\.node_id$']),
        r'^server::address_space::address_space::AddressSpace::set_node_type$': GUARDED_REVIEWED['set_node_type'],
     }),
    (r'^server::address_space::address_space::AddressSpace::insert$',
     'AddressSpace::assert_namespace panics on an unregistered namespace index', {
        r'^server::services::node_management::NodeManagementService::add_node$':
            ('requested id is null (server assigns one in its own namespace) or its namespace is registered',
             [r'is_namespace_index_valid\(.*requested_new_node_id.*\) == True$', r'is_null\(.*requested_new_node_id.*\) == True$']),
        r'^server::address_space::(object::ObjectBuilder|variable::VariableBuilder|method::MethodBuilder|[a-z_]+::[A-Za-z]+Builder)::insert$': GUARDED_REVIEWED['Builder::insert'],
     }),
]


def check_guarded_calls(ctx, par, rule='E2-guarded-call'):
    db, cg, r = ctx.db, ctx.cg, ctx.r
    n = 0
    for callee_rx, what, allowed in GUARDED:
        crx = re.compile(callee_rx)
        targets = [i for i in par if crx.search(db.instances[i].path)]
        if not targets:
            r.lost(rule, 'callee:' + callee_rx, 'guarded callee not in the reachable set'); continue
        tset = set(targets)
        seen = set()
        for i in par:
            for e in cg.out.get(i, ()):
                if e.dst not in tset or e.kind not in ('call', 'cha', 'generic', 'forward'):
                    continue
                src = db.instances[i].path
                if crx.search(src):
                    continue
                b = db.bodies[db.instances[i].body_id]
                key = 'guarded:%s<-%s' % (db.instances[e.dst].path.rsplit('::', 1)[-1], src)
                if (key, e.bb) in seen:
                    continue
                seen.add((key, e.bb))
                n += 1
                spec = None; matched = False
                # whether the call sits in the function itself or in a closure / loop body inside it is immaterial (a for_each turned
                # into a for loop, or the reverse): guards are re-checked at the call site either way
                CL = r'(::\{closure#\d+\})+$'
                src0 = re.sub(CL, '', src)
                for crx2, sp in allowed.items():
                    crx0 = re.sub(r'\(?::\\\{closure#\\d\+\\\}\)?[*+]?\$$', '$', crx2)
                    if re.search(crx2, src) or re.search(crx0, src0):
                        matched = True; spec = sp; break
                t = b.term(e.bb)
                loc = '%s:%s' % (t[6]['f'], t[6]['l']) if t[0] == 'call' else b.loc
                if not matched:
                    r.fail(rule, key, 'new caller of a function that panics on request data (%s) without a reviewed guard' % what, loc=loc)
                    continue
                if isinstance(spec, str):
                    r.ok(rule, key, 'caller reviewed: ' + spec, status='safe', loc=loc)
                    continue
                desc, pats = spec
                F = ctx.facts(b)
                prx = [re.compile(p) for p in pats]
                edges = edges_where(F, lambda lit: any(p.search(stable_lit(b, lit)) for p in prx))
                if edges and unreachable_without(b, e.bb, edges):
                    r.ok(rule, key, 'the call is only reachable through %d guard edge(s): %s' % (len(edges), desc), loc=loc)
                else:
                    r.fail(rule, key, 'the call is reachable without passing the guard (%s): %s' % (desc, what), loc=loc)
    r.count('guarded_calls', n)


def check_nonempty_results(ctx, rule='E2-nonempty-result'):
    """callers index `[0]` into the vector find_references hands out (ViewService::browse_node: type_defs[0]): the function
    must answer None, never Some(empty)"""
    db, r = ctx.db, ctx.r
    b = db.body('server::address_space::references::References::find_references')
    if b is None:
        r.lost(rule, 'find_references', 'References::find_references not found'); return
    F = ctx.facts(b)
    sites = result_ctor_sites(b, 'Some', adt='std::option::Option')
    sites = [(bb, si, pl) for bb, si, pl in sites if pl[0] == 0 and not pl[1]]
    if not sites:
        r.lost(rule, 'find_references:Some', 'no Some(..) result in find_references'); return
    for n, (bb, si, pl) in enumerate(sites):
        lits = F.literals_at(bb, si)
        ok = [l for l, e in lits if (l[0] == 'truth' and l[2] is False and l[1][0] == 'call' and l[1][1].endswith('::is_empty')) or
              (l[0] == 'cmp' and l[1] in ('ne', 'gt') and l[2][0] == 'len' and F.const_int(l[3]) == 0)]
        if ok:
            r.ok(rule, 'find_references:Some#%d' % n, 'Some(result) only under `%s`' % fmt_lit(b, ok[0])[:120], loc=b.loc)
        else:
            r.fail(rule, 'find_references:Some#%d' % n, 'find_references can answer Some(empty vector): ViewService::browse_node indexes the answer with [0] '
                   '(a node with references but no HasTypeDefinition panics a Browse)', loc=b.loc)
    r.count('nonempty_result_sites', len(sites))


def run(ctx):
    r = ctx.r
    r.explanation = ('E1 over everything reachable from the service dispatcher (all services, the built-in method callbacks by class '
                     'hierarchy, event filters, address space operations, response encoding is excluded at the sender), the OPN handler '
                     'and the periodic subscription processing: every panic site is discharged by a dominating guard, a reviewed '
                     'disposition with re-checked premises or caller scope, or a reason-only entry. E4: every recursion cycle in that '
                     'set needs a termination witness.')
    r.rule_text = 'E1 panic-site inventory x guard dominance x dispositions; E4 SCC witnesses'
    run_e1(ctx, ENTRY, extra_auto=make_table_auto(ctx))
    r.floor('E1-panic', 'panic_sites', r.counts.get('panic_sites', 0), 150)
    check_action_tables(ctx)
    check_nonempty_results(ctx)
    # Subscription::tick panics on a publishing interval <= 0: the value installed must be the revised one (rule shared with C23)
    from .C23 import installed_values
    installed_values(ctx)
    r.floor('E2-nonempty-result', 'nonempty_result_sites', r.counts.get('nonempty_result_sites', 0), 1)
    # the dispositions of the event-filter evaluation sites rest on these two gates (shared with C39)
    validation_gate(ctx)
    operand_gate(ctx)
    r.floor('E6-history-actions', 'history_action_ids', r.counts.get('history_action_ids', 0), 10)
    # E4: recursion reachable from the same entry points
    cg = ctx.cg
    par = cg.reach(cg.instances_matching(ENTRY))
    n = check_termination(ctx, par)
    check_guarded_calls(ctx, par)
    r.floor('E2-guarded-call', 'guarded_calls', r.counts.get('guarded_calls', 0), 10)
    r.floor('E4-recursion', 'recursive_components', n, 8)
