"""Decision table of Subscription::update_state, shared by C21 and C22.

update_state is loop-free; its inputs are the subscription state, the tick reason, four flags of SubscriptionStateParams,
publishing_enabled, first_message_sent and two counter tests.  Every consistent abstract path from the entry to a return is
enumerated over the MIR CFG (paths.enumerate_paths_with_trace).  For each path we record the input atoms it fixes, the row it
ends in (HandledState / UpdateStateAction constants of the UpdateStateResult it builds) and the effects on the way: calls of
start_publishing_timer / reset_lifetime_counter / reset_keep_alive_counter, the decrement of keep_alive_counter and the
assignments of self.state.  Rules are then stated over these rows."""
import re
from ..paths import enumerate_paths_with_trace
from ..facts import fmt_sym

FN = 'server::subscriptions::subscription::Subscription::update_state'
EFFECTS = ('start_publishing_timer', 'reset_lifetime_counter', 'reset_keep_alive_counter')


def _name(b, k):
    if k[0] == 'discr':
        return 'discr(%s)' % fmt_sym(b, k[1])
    if k[0] == 'eqv':
        return '%s == %s' % (fmt_sym(b, k[1]), fmt_sym(b, k[2]))
    return fmt_sym(b, k)


def rows_of(ctx):
    """list of dict(inputs=..., row=, action=, effects=set, state_set=, path_len=) or None when the function is not found"""
    if hasattr(ctx, '_substate_rows'):
        return ctx._substate_rows
    db = ctx.db
    b = db.body(FN)
    if b is None:
        ctx._substate_rows = None
        return None
    F = ctx.facts(b)
    rets = b.return_blocks()
    # per block: effects / constants
    eff = {}
    for c in b.calls():
        short = c.callee.rsplit('::', 1)[-1]
        if short in EFFECTS and 'Subscription::' in c.callee:
            eff.setdefault(c.bb, set()).add(short)
    rowc = {}; actc = {}; statew = {}; dec = set()
    for bi, blk in enumerate(b.blocks):
        if blk['c']:
            continue
        for st in blk['s']:
            if st[0] != '=':
                continue
            if st[2][0] == 'agg' and st[2][1] == 'adt' and str(st[2][2]).endswith('HandledState'):
                rowc[bi] = st[2][3]
            if st[2][0] == 'agg' and st[2][1] == 'adt' and str(st[2][2]).endswith('UpdateStateAction'):
                actc[bi] = st[2][3]
            if st[1][1] and st[1][1][-1] == '.state' and st[2][0] == 'agg' and str(st[2][2]).endswith('SubscriptionState'):
                statew[bi] = st[2][3]
            if st[1][1] and st[1][1][-1] == '.keep_alive_counter':
                dec.add(bi)
    out = []
    for env, path in enumerate_paths_with_trace(F, rets):
        d = {}
        for k, v in env.items():
            nm = _name(b, k)
            if 'log::' in nm or 'Level::' in nm or re.fullmatch(r'_\d+', nm):
                continue
            d[nm] = v
        inp = {}
        for nm, v in d.items():
            if nm.startswith('discr(') and nm.endswith('.state)'):
                inp['state'] = v
            elif 'tick_reason' in nm and 'ReceivePublishRequest' in nm:
                inp['receive_publish_request'] = v
            elif nm.endswith('.publishing_timer_expired'):
                inp['timer_expired'] = v
            elif nm.endswith('.publishing_req_queued'):
                inp['req_queued'] = v
            elif nm.endswith('.notifications_available'):
                inp['notifications_available'] = v
            elif nm.endswith('.more_notifications'):
                inp['more_notifications'] = v
            elif nm.endswith('.publishing_enabled'):
                inp['publishing_enabled'] = v
            elif nm.endswith('.first_message_sent'):
                inp['message_sent'] = v
            elif 'keep_alive_counter' in nm and re.search(r'\bEq 1\b|== 1', nm):
                inp['keep_alive_is_1'] = v
            elif 'keep_alive_counter' in nm and re.search(r'\bGt 1\b', nm):
                inp['keep_alive_gt_1'] = v
            elif 'lifetime_counter' in nm and re.search(r'\bEq 1\b|== 1', nm):
                inp['lifetime_is_1'] = v
        # infeasible counter combinations
        if inp.get('keep_alive_is_1') is True and inp.get('keep_alive_gt_1') is True:
            continue
        if inp.get('keep_alive_is_1') is False and inp.get('keep_alive_gt_1') is False:
            continue
        # the panic path (both reasons at once) ends in no return; receive and timer are exclusive by the entry check
        if inp.get('receive_publish_request') is True and inp.get('timer_expired') is True:
            continue
        row = None; act = None; effects = set(); st_set = None; kdec = False
        for bb in path:
            if bb in rowc:
                row = rowc[bb]
            if bb in actc:
                act = actc[bb]
            effects |= eff.get(bb, set())
            if bb in statew:
                st_set = statew[bb]
            if bb in dec:
                kdec = True
        out.append({'inputs': inp, 'row': row, 'action': act, 'effects': effects, 'state_set': st_set, 'keep_alive_decremented': kdec})
    ctx._substate_rows = out
    return out


def state_is(row, *names):
    s = row['inputs'].get('state')
    if s is None:
        return True
    if s[0] == 'is':
        return s[1] in names
    return any(n not in s[1] for n in names)


def compatible(row, **want):
    """can some concrete input take this path and satisfy `want`? (an atom the path does not fix is free)"""
    for k, v in want.items():
        cur = row['inputs'].get(k)
        if cur is not None and cur != v:
            return False
    return True


def describe(row):
    i = row['inputs']
    s = i.get('state')
    parts = ['state %s' % (s[1] if s and s[0] == 'is' else 'any')]
    for k in ('receive_publish_request', 'timer_expired', 'req_queued', 'publishing_enabled', 'notifications_available', 'more_notifications', 'message_sent',
              'keep_alive_is_1', 'keep_alive_gt_1', 'lifetime_is_1'):
        if k in i:
            parts.append('%s=%s' % (k, i[k]))
    return ', '.join(parts) + ' -> row %s / %s, effects %s' % (row['row'], row['action'], sorted(row['effects']) or '-')
