"""Decision table of Subscription::update_state, shared by C21 and C22.

update_state is loop-free; its inputs are the subscription state, the tick reason, four flags of SubscriptionStateParams,
publishing_enabled, first_message_sent and two counter tests.  Every consistent abstract path from the entry to a return is
enumerated over the MIR CFG (paths.enumerate_paths_with_trace).  For each path we record the input atoms it fixes, the row it
ends in (HandledState / UpdateStateAction constants of the UpdateStateResult it builds) and the effects on the way: calls of
start_publishing_timer / reset_lifetime_counter / reset_keep_alive_counter, the decrement of keep_alive_counter and the
assignments of self.state.  Rules are then stated over these rows."""
import re
from ..paths import enumerate_paths_with_trace
from ..facts import fmt_sym

FN = 'server::subscriptions::subscription::Subscription::update_state'
EFFECTS = ('start_publishing_timer', 'reset_lifetime_counter', 'reset_keep_alive_counter')


def _name(b, k):
    if k[0] == 'discr':
        return 'discr(%s)' % fmt_sym(b, k[1])
    if k[0] == 'eqv':
        return '%s == %s' % (fmt_sym(b, k[1]), fmt_sym(b, k[2]))
    return fmt_sym(b, k)


def rows_of(ctx):
    """list of dict(inputs=..., row=, action=, effects=set, state_set=, path_len=) or None when the function is not found"""
    if hasattr(ctx, '_substate_rows'):
        return ctx._substate_rows
    db = ctx.db
    b = db.body(FN)
    if b is None:
        ctx._substate_rows = None
        return None
    F = ctx.facts(b)
    rets = b.return_blocks()
    # per block: effects / constants
    eff = {}
    for c in b.calls():
        short = c.callee.rsplit('::', 1)[-1]
        if short in EFFECTS and 'Subscription::' in c.callee:
            eff.setdefault(c.bb, set()).add(short)
    rowc = {}; actc = {}; statew = {}; dec = set()
    for bi, blk in enumerate(b.blocks):
        if blk['c']:
            continue
        for st in blk['s']:
            if st[0] != '=':
                continue
            if st[2][0] == 'agg' and st[2][1] == 'adt' and str(st[2][2]).endswith('HandledState'):
                rowc[bi] = st[2][3]
            if st[2][0] == 'agg' and st[2][1] == 'adt' and str(st[2][2]).endswith('UpdateStateAction'):
                actc[bi] = st[2][3]
            if st[1][1] and st[1][1][-1] == '.state' and st[2][0] == 'agg' and str(st[2][2]).endswith('SubscriptionState'):
                statew[bi] = st[2][3]
            if st[1][1] and st[1][1][-1] == '.keep_alive_counter':
                dec.add(bi)
    out = []
    for env, path in enumerate_paths_with_trace(F, rets):
        d = {}
        for k, v in env.items():
            nm = _name(b, k)
            if 'log::' in nm or 'Level::' in nm or re.fullmatch(r'_\d+', nm):
                continue
            d[nm] = v
        inp = {}
        for nm, v in d.items():
            if nm.startswith('discr(') and nm.endswith('.state)'):
                inp['state'] = v
            elif 'tick_reason' in nm and 'ReceivePublishRequest' in nm:
                inp['receive_publish_request'] = v
            elif nm.endswith('.publishing_timer_expired'):
                inp['timer_expired'] = v
            elif nm.endswith('.publishing_req_queued'):
                inp['req_queued'] = v
            elif nm.endswith('.notifications_available'):
                inp['notifications_available'] = v
            elif nm.endswith('.more_notifications'):
                inp['more_notifications'] = v
            elif nm.endswith('.publishing_enabled'):
                inp['publishing_enabled'] = v
            elif nm.endswith('.first_message_sent'):
                inp['message_sent'] = v
            elif 'keep_alive_counter' in nm and re.search(r'\bEq 1\b|== 1', nm):
                inp['keep_alive_is_1'] = v
            elif 'keep_alive_counter' in nm and re.search(r'\bGt 1\b', nm):
                inp['keep_alive_gt_1'] = v
            elif 'lifetime_counter' in nm and re.search(r'\bEq 1\b|== 1', nm):
                inp['lifetime_is_1'] = v
        # infeasible counter combinations
        if inp.get('keep_alive_is_1') is True and inp.get('keep_alive_gt_1') is True:
            continue
        if inp.get('keep_alive_is_1') is False and inp.get('keep_alive_gt_1') is False:
            continue
        # the panic path (both reasons at once) ends in no return; receive and timer are exclusive by the entry check
        if inp.get('receive_publish_request') is True and inp.get('timer_expired') is True:
            continue
        row = None; act = None; effects = set(); st_set = None; kdec = False
        for bb in path:
            if bb in rowc:
                row = rowc[bb]
            if bb in actc:
                act = actc[bb]
            effects |= eff.get(bb, set())
            if bb in statew:
                st_set = statew[bb]
            if bb in dec:
                kdec = True
        out.append({'inputs': inp, 'row': row, 'action': act, 'effects': effects, 'state_set': st_set, 'keep_alive_decremented': kdec})
    ctx._substate_rows = out
    return out


def state_is(row, *names):
    s = row['inputs'].get('state')
    if s is None:
        return True
    if s[0] == 'is':
        return s[1] in names
    return any(n not in s[1] for n in names)


def compatible(row, **want):
    """can some concrete input take this path and satisfy `want`? (an atom the path does not fix is free)"""
    for k, v in want.items():
        cur = row['inputs'].get(k)
        if cur is not None and cur != v:
            return False
    return True


def describe(row):
    i = row['inputs']
    s = i.get('state')
    parts = ['state %s' % (s[1] if s and s[0] == 'is' else 'any')]
    for k in ('receive_publish_request', 'timer_expired', 'req_queued', 'publishing_enabled', 'notifications_available', 'more_notifications', 'message_sent',
              'keep_alive_is_1', 'keep_alive_gt_1', 'lifetime_is_1'):
        if k in i:
            parts.append('%s=%s' % (k, i[k]))
    return ', '.join(parts) + ' -> row %s / %s, effects %s' % (row['row'], row['action'], sorted(row['effects']) or '-')


def tick_wiring(ctx, rule='tick-wiring'):
    """Subscription::tick feeds update_state.  Structural conditions both C21 and C22 need:
    (timer) the publishing timer is tested-and-rearmed (test_and_set_publishing_interval_elapsed) only on a TickTimerFired tick -
            a publish request arriving must not re-arm it;
    (reach) update_state is reached whenever a publish request is queued, whenever the interval elapsed and whenever
            notifications are available (it is the only way out of the Late state and the only place the counters move);
    (params) the parameters handed over are the tick's own: publishing_req_queued, notifications_available, more_notifications
            and publishing_timer_expired = the elapsed flag; handle_state_result follows with the drained notification."""
    import re
    from ..rulelib import reachable_under
    from ..facts import fmt_lit, fmt_sym
    r, db = ctx.r, ctx.db
    b = db.body('server::subscriptions::subscription::Subscription::tick')
    if b is None:
        r.lost(rule, 'tick', 'Subscription::tick not found'); return
    F = ctx.facts(b)
    us = [c for c in b.calls() if c.callee.endswith('Subscription::update_state')]
    ts = [c for c in b.calls() if c.callee.endswith('Subscription::test_and_set_publishing_interval_elapsed')]
    hs = [c for c in b.calls() if c.callee.endswith('Subscription::handle_state_result')]
    if len(us) != 1 or not ts or len(hs) != 1:
        r.lost(rule, 'calls', 'update_state / test_and_set_publishing_interval_elapsed / handle_state_result calls not recognised in tick'); return
    n = 0
    # (timer)
    for c in ts:
        n += 1
        lits = [fmt_lit(b, l) for l, e in F.literals_at(c.bb)]
        if any(re.match(r'^tick_reason\(_\d+\) is TickTimerFired$', x) or re.match(r'^tick_reason\(_\d+\) is not ReceivePublishRequest$', x) for x in lits):
            r.ok(rule, 'timer', 'the publishing timer is tested and re-armed only on a TickTimerFired tick', loc=c.loc)
        else:
            r.fail(rule, 'timer', 'test_and_set_publishing_interval_elapsed is also called on a tick caused by a publish request: the request re-arms the publishing timer, '
                   'the next timer tick sees no elapsed interval and the keep-alive / lifetime counters stop moving', loc=c.loc)
    # (reach)
    u = us[0]
    for pname, label in (('publishing_req_queued', 'a publish request is queued'),):
        ps = b.local_by_name(pname)
        n += 1
        if not ps:
            r.lost(rule, 'reach:' + pname, 'parameter %s not found' % pname); continue
        reach = reachable_under(b, F, lambda e: e == ('place', ps[0], ()), 1)
        # blocks reachable when the flag is true, not passing the update_state call
        seen = {0}; work = [0]
        while work:
            x = work.pop()
            if x == u.bb:
                continue
            for s_ in b.succ(x):
                if s_ in reach and s_ not in seen and not b.is_cleanup(s_):
                    seen.add(s_); work.append(s_)
        if any(rb in seen for rb in b.return_blocks()):
            r.fail(rule, 'reach:' + pname, 'tick can return without calling update_state although %s: a Late subscription is never released and queued requests are '
                   'neither answered nor counted' % label, loc=u.loc)
        else:
            r.ok(rule, 'reach:' + pname, 'update_state is reached on every path when %s' % label, loc=u.loc)
    # elapsed / notifications flags are locals: the call must be reachable directly through their true edges
    for lname, label in (('publishing_interval_elapsed', 'the publishing interval elapsed'), ('notifications_available', 'notifications are available')):
        ls = b.local_by_name(lname)
        n += 1
        if not ls:
            r.lost(rule, 'reach:' + lname, 'local %s not found' % lname); continue
        reach = reachable_under(b, F, lambda e: e == ('place', ls[0], ()), 1)
        seen = {0}; work = [0]
        while work:
            x = work.pop()
            if x == u.bb:
                continue
            for s_ in b.succ(x):
                if s_ in reach and s_ not in seen and not b.is_cleanup(s_):
                    seen.add(s_); work.append(s_)
        # only paths on which the flag was actually tested count: require that the guard switch on the flag exists
        tested = any(blk['t'][0] == 'switch' and F.sym_operand(blk['t'][1]) == ('place', ls[0], ()) for blk in b.blocks)
        if tested and not any(rb in seen for rb in b.return_blocks()):
            r.ok(rule, 'reach:' + lname, 'update_state is reached on every path when %s' % label, loc=u.loc)
        else:
            r.fail(rule, 'reach:' + lname, 'tick can return without calling update_state although %s' % label, loc=u.loc)
    # (params)
    n += 1
    p = fmt_sym(b, F.sym_operand(u.args[2]))
    adt = db.adts.get('server::subscriptions::subscription::SubscriptionStateParams')
    order = [f[0] for f in adt['variants'][0]['fields']] if adt else []
    def split_top(t):
        out, d, cur = [], 0, ''
        for ch in t:
            if ch in '([{':
                d += 1
            elif ch in ')]}':
                d -= 1
            if ch == ',' and d == 0:
                out.append(cur.strip()); cur = ''
            else:
                cur += ch
        if cur.strip():
            out.append(cur.strip())
        return out
    inner = p.split('{', 1)[1].rsplit('}', 1)[0] if '{' in p else ''
    vals = split_top(inner)
    got = dict(zip(order, vals))
    def same(field, val):
        if field == 'more_notifications':    # a function of the queued notifications
            return 'notifications' in val and 'len(' in val
        want_ = 'publishing_interval_elapsed' if field == 'publishing_timer_expired' else field
        return re.match(r'^%s\(_\d+\)$' % want_, val) is not None
    expect = got if (order and len(vals) == len(order) and all(same(f, v) for f, v in got.items())) else None
    if order and got == expect and fmt_sym(b, F.sym_operand(u.args[1])).startswith('tick_reason'):
        r.ok(rule, 'params', 'update_state receives the tick reason and the four flags of this tick, field by field', loc=u.loc)
    else:
        r.fail(rule, 'params', 'update_state is called with %s (fields %s): the flags are not the ones computed for this tick' % (p[:120], order), loc=u.loc)
    n += 1
    h = hs[0]
    if b.dominates(u.bb, h.bb) and 'notification' in fmt_sym(b, F.sym_operand(h.args[3])) and 'update_state' in fmt_sym(b, F.sym_operand(h.args[2])):
        r.ok(rule, 'handle', 'handle_state_result(now, result of update_state, drained notification) follows update_state', loc=h.loc)
    else:
        r.fail(rule, 'handle', 'handle_state_result is not called with the result of update_state and the drained notification', loc=h.loc)
    r.count('tick_wiring_sites', n)
    r.floor(rule, 'tick_wiring_sites', n, 6)
