"""C42 JSON encoding of built-in types round-trips - type-code table agreement (E6)."""
import re
from ..rulelib import *
from ..facts import fmt_sym, fmt_lit
from ..tables import match_table

KIND_OF_NEW = {'u32': 'Numeric', 'std::string::String': 'String', 'types::string::UAString': 'String', '&str': 'String',
               'types::guid::Guid': 'Guid', 'types::byte_string::ByteString': 'ByteString'}
IDTYPE = {'Numeric': 0, 'String': 1, 'Guid': 2, 'ByteString': 3}     # OPC UA Part 6, 5.4.2.10


def id_type_tables(ctx, ty, rule):
    r, db = ctx.r, ctx.db
    short = ty.rsplit('::', 1)[-1]
    sb = db.find_bodies(r'^<%s as .*_serde::Serialize>::serialize$' % re.escape(ty))
    dbs = db.find_bodies(r"^<%s as .*_serde::Deserialize<'de>>::deserialize$" % re.escape(ty))
    if not sb or not dbs:
        r.lost(rule, short, 'Serialize / Deserialize of %s not found' % short); return 0
    sb, dd = sb[0], dbs[0]
    Fs, Fd = ctx.facts(sb), ctx.facts(dd)
    ser = {}
    for bi, blk in enumerate(sb.blocks):
        if blk['c']:
            continue
        for si, st in enumerate(blk['s']):
            if st[0] == '=' and st[2][0] == 'agg' and st[2][1] == 'tuple' and len(st[2][4]) == 2:
                first = fmt_sym(sb, Fs.sym_operand(st[2][4][0]))
                m = re.match(r'^Option::(None|Some\{(\d+)\})$', first)
                if not m:
                    continue
                kind = [l[2] for l, e in Fs.literals_at(bi, si) if l[0] == 'variant' and l[3] and fmt_sym(sb, l[1]).endswith('.identifier')]
                if kind:
                    ser[kind[-1]] = 0 if m.group(1) == 'None' else int(m.group(2))
    de = {}
    sw = None
    for bi, blk in enumerate(dd.blocks):
        t = blk['t']
        if t[0] == 'switch' and t[2] == 'u32' and len(t[3]) >= 3:
            sw = bi
    if sw is not None:
        arms = {int(v): d for v, d in dd.term(sw)[3]}
        for c in dd.calls():
            if c.callee.endswith('NodeId::new'):
                m = re.search(r'NodeId::new::<(.+)>$', c.callee_full)
                kind = KIND_OF_NEW.get(m.group(1)) if m else None
                for k, dst in arms.items():
                    if dd.dominates(dst, c.bb) and kind:
                        de.setdefault(k, set()).add(kind)
    if len(ser) < 4 or len(de) < 4:
        r.lost(rule, short + ':tables', 'IdType tables of %s not recognised (serialize %s, deserialize %s)' % (short, ser, de)); return 0
    probs = []
    for kind, code in sorted(ser.items()):
        if IDTYPE.get(kind) != code:
            probs.append('%s identifiers are written with IdType %d (Part 6 says %s)' % (kind, code, IDTYPE.get(kind)))
        if de.get(code) != {kind}:
            probs.append('IdType %d is written for %s identifiers but read back as %s' % (code, kind, sorted(de.get(code, []))))
    if probs:
        r.fail(rule, short, 'JSON IdType tables of %s disagree: %s' % (short, '; '.join(probs[:3])), loc=dd.loc)
    else:
        r.ok(rule, short, '%s: IdType 0..3 are written for and read back as Numeric, String, Guid, ByteString' % short, loc=dd.loc)
    return len(ser) + len(de)


PASS_THROUGH = re.compile(r'(Try::branch|Option::(ok_or_else|ok_or|map|and_then)|Result::(map_err|ok)|Value::as_(str|u64|i64)|From::from|Into::into|FromStr::from_str|'
                          r'ByteString::from_base64|Guid::from_str|Deserialize::deserialize|String::from|ToString::to_string|ToOwned::to_owned|UAString::from|'
                          r'Borrow::borrow|AsRef::as_ref|Deref::deref|Clone::clone|str::parse)$')


def identifier_unchanged(ctx, rule='identifier-unchanged'):
    """the identifier a NodeId / ExpandedNodeId is rebuilt from is the JSON "Id" value itself: between Value::as_str / as_u64 and
    NodeId::new only conversions appear (parse a number / Guid / base64, String::from, error mapping) - no call that edits the
    text (trim, case folding, replace ..), which would make " x" and "x" the same node"""
    r, db = ctx.r, ctx.db
    n = 0
    for ty in ('types::node_id::NodeId', 'types::expanded_node_id::ExpandedNodeId'):
        bs = db.find_bodies(r'^<' + re.escape(ty) + r' as .*Deserialize<.de>>::deserialize$')
        if not bs:
            r.lost(rule, ty.rsplit('::', 1)[-1], 'deserializer of %s not found' % ty); continue
        b = bs[0]; F = ctx.facts(b)
        news = [c for c in b.calls() if re.search(r'NodeId::new$', c.callee)]
        for i, c in enumerate(news):
            if len(c.args) < 2:
                continue
            n += 1
            sym = F.sym_operand(c.args[1])
            bad = []
            def walk(s_):
                if isinstance(s_, tuple) and s_:
                    if s_[0] == 'call':
                        if not PASS_THROUGH.search(s_[1]):
                            bad.append(s_[1].rsplit('::', 2)[-2] + '::' + s_[1].rsplit('::', 1)[-1] if '::' in s_[1] else s_[1])
                        for a_ in s_[2]:
                            walk(a_)
                    else:
                        for x_ in s_[1:]:
                            walk(x_)
            walk(sym)
            key = '%s:new#%d' % (ty.rsplit('::', 1)[-1], i)
            if 'Deserialize::deserialize' not in fmt_sym(b, sym):
                r.lost(rule, key, 'the identifier value is not traced back to the deserialized JSON (%s)' % fmt_sym(b, sym)[:100])
            elif bad:
                r.fail(rule, key, 'the identifier read from JSON passes through %s before NodeId::new: the value is edited, so a NodeId does not come back equal to the one '
                       'that was written' % ', '.join(sorted(set(bad))), loc=c.loc)
            else:
                r.ok(rule, key, 'identifier = JSON value through conversions only', loc=c.loc)
    r.count('identifier_sites', n)
    r.floor(rule, 'identifier_sites', n, 4)


def run(ctx):
    r, db = ctx.r, ctx.db
    r.explanation = ('Type-code tables only, a necessary condition of the JSON round trip for the types whose JSON form carries a type '
                     'discriminator: (a) NodeId / ExpandedNodeId: the IdType written for each identifier kind is the Part 6 code and the '
                     'deserializer builds the same kind for that code; (b) Variant::json_id maps every scalar Variant variant to the '
                     'VariantJsonId of the same name; (c) in VariantVisitor::visit_some every arm guarded by `t == VariantJsonId::X as u32` '
                     'that builds a Variant directly builds Variant::X. (d) UAString / ByteString write JSON null exactly for the null value and build null() only from JSON null. Equality of the '
                     'values themselves goes through serde_json and is not decided.')
    r.rule_text = 'E6 table agreement between serializer and deserializer constants read from MIR'
    n = 0
    for ty in ('types::node_id::NodeId', 'types::expanded_node_id::ExpandedNodeId'):
        n += id_type_tables(ctx, ty, 'id-type-table')
    r.count('id_type_entries', n)
    r.floor('id-type-table', 'id_type_entries', n, 16)
    null_vs_empty(ctx)
    range_limits(ctx)
    identifier_unchanged(ctx)
    # (b) json_id
    rule = 'variant-json-id'
    jb = db.find_bodies(r'^types::variant_json::<impl types::variant::Variant>::json_id$')
    if not jb:
        r.lost(rule, 'json_id', 'Variant::json_id not found')
    else:
        t = match_table(ctx, jb[0], enum_suffix='Variant') or {}
        bad = []; okn = 0
        for v, val in sorted(t.items()):
            if val == 'panic' or v == 'Array':
                continue
            okn += 1
            if not isinstance(val, str) or val.rsplit('::', 1)[-1] != v:
                bad.append('%s -> %s' % (v, val))
        r.count('json_id_rows', okn)
        if bad:
            r.fail(rule, 'json_id', 'Variant::json_id announces a different type than the value holds: ' + ', '.join(bad[:4]), loc=jb[0].loc)
        else:
            r.ok(rule, 'json_id', 'all %d scalar variants announce the VariantJsonId of their own name' % okn, loc=jb[0].loc)
        r.floor(rule, 'json_id_rows', okn, 24)
    # (c) visit_some
    rule = 'variant-visit-arms'
    vb = db.find_bodies(r"VariantVisitor as .*Visitor<'de>>::visit_some$")
    ids = db.adts.get('types::variant_json::VariantJsonId')
    if not vb or not ids:
        r.lost(rule, 'visit_some', 'VariantVisitor::visit_some / VariantJsonId not found')
    else:
        b = vb[0]; F = ctx.facts(b)
        by_discr = {int(v['discr']): v['name'] for v in ids['variants']}
        narm = 0; bad = []
        for bi, blk in enumerate(b.blocks):
            if blk['c']:
                continue
            for si, st in enumerate(blk['s']):
                if st[0] == '=' and st[2][0] == 'agg' and st[2][1] == 'adt' and st[2][2].endswith('variant::Variant'):
                    code = None
                    for l, e in F.literals_at(bi, si):
                        if l[0] == 'cmp' and l[1] == 'eq' and fmt_sym(b, l[2]).endswith('.variant_type'):
                            try:
                                code = eval_sym(l[3], lambda s: None)
                            except NoEval:
                                code = None
                    if code is None:
                        continue
                    narm += 1
                    want = by_discr.get(code)
                    if want != st[2][3]:
                        bad.append('Type %s (%s) builds Variant::%s' % (code, want, st[2][3]))
        r.count('visit_arms', narm)
        if bad:
            r.fail(rule, 'visit_some', 'the JSON Type code is read back as a different Variant: ' + '; '.join(bad[:3]), loc=b.loc)
        else:
            r.ok(rule, 'visit_some', '%d arms build the Variant their Type code names' % narm, loc=b.loc)
        r.floor(rule, 'visit_arms', narm, 12)


def null_vs_empty(ctx, rule='null-vs-empty'):
    """UAString / ByteString: JSON null is written exactly for the null value (value == None), never for an empty one,
    and the visitors build null() only for JSON null"""
    r, db = ctx.r, ctx.db
    n = 0
    for ty in ('types::string::UAString', 'types::byte_string::ByteString'):
        short = ty.rsplit('::', 1)[-1]
        sb = db.find_bodies(r'^<%s as .*_serde::Serialize>::serialize$' % re.escape(ty))
        if not sb:
            r.lost(rule, short + ':serialize', 'Serialize of %s not found' % short); continue
        b = sb[0]; F = ctx.facts(b)
        nones = [c for c in b.calls() if c.callee.endswith('Serializer::serialize_none') or c.callee.endswith('::serialize_unit')]
        somes = [c for c in b.calls() if re.search(r'Serializer::serialize_(str|some|bytes)$', c.callee)]
        if not nones or not somes:
            r.lost(rule, short + ':calls', 'serialize_none / serialize_str not found in Serialize of %s' % short); continue
        def presence(c):
            out = set()
            for l, e in F.literals_at(c.bb):
                if l[0] == 'variant' and l[2] in ('Some', 'None') and fmt_sym(b, l[1]).replace('Option::as_ref(&', '').rstrip(')').endswith('.value'):
                    out.add((l[2] == 'Some') == l[3])
            return out
        probs = []
        for c in nones:
            n += 1
            if presence(c) != {False}:
                probs.append('JSON null is written on a path not limited to value == None (conditions on .value: %s)' % sorted(presence(c)))
            extra = [fmt_lit(b, l) for l, e in F.literals_at(c.bb) if re.search(r'is_empty|is_null_or_empty|len\(', fmt_lit(b, l))]
            if extra:
                probs.append('the choice of JSON null depends on emptiness: %s' % extra[0][:80])
        for c in somes:
            n += 1
            if presence(c) != {True}:
                probs.append('the string form is written on a path not limited to value == Some (conditions on .value: %s)' % sorted(presence(c)))
        if probs:
            r.fail(rule, short + ':serialize', '%s: null and empty are not kept apart when writing JSON: %s' % (short, '; '.join(probs[:2])), loc=b.loc)
        else:
            r.ok(rule, short + ':serialize', '%s: JSON null exactly when value is None, the string form exactly when it is Some' % short, loc=b.loc)
        # visitor
        vn = db.find_bodies(r'^<%sVisitor as .*Visitor<.de>>::visit_none$' % re.escape(ty))
        vs = db.find_bodies(r'^<%sVisitor as .*Visitor<.de>>::visit_str$' % re.escape(ty))
        if not vn or not vs:
            r.lost(rule, short + ':visitor', 'visit_none / visit_str of %sVisitor not found' % short); continue
        n += 2
        none_calls = [c.callee.rsplit('::', 1)[-1] for c in vn[0].calls()]
        str_calls = [c.callee.rsplit('::', 1)[-1] for c in vs[0].calls()]
        if 'null' in none_calls and 'null' not in str_calls:
            r.ok(rule, short + ':visitor', '%sVisitor builds null() for JSON null only' % short, loc=vn[0].loc)
        else:
            r.fail(rule, short + ':visitor', '%sVisitor: visit_none calls %s, visit_str calls %s - null() must come from JSON null only' % (short, none_calls, str_calls), loc=vn[0].loc)
    r.count('null_empty_sites', n)
    r.floor(rule, 'null_empty_sites', n, 8)


def range_limits(ctx, rule='range-limit-matches-type'):
    """NodeId / ExpandedNodeId deserializers narrow JSON numbers (u64) to the field type after a range test: the bound of
    that test must be exactly the maximum of the type the value is then cast to (a smaller bound refuses values the
    serializer writes, a larger one lets the cast wrap)"""
    r, db = ctx.r, ctx.db
    MAXV = {'u8': 2 ** 8 - 1, 'u16': 2 ** 16 - 1, 'u32': 2 ** 32 - 1}
    n = 0
    for ty in ('types::node_id::NodeId', 'types::expanded_node_id::ExpandedNodeId'):
        short = ty.rsplit('::', 1)[-1]
        bs = db.find_bodies(r"^<%s as .*_serde::Deserialize<'de>>::deserialize$" % re.escape(ty))
        if not bs:
            r.lost(rule, short, 'Deserialize of %s not found' % short); continue
        b = bs[0]; F = ctx.facts(b)
        for bi, blk in enumerate(b.blocks):
            if blk['c']:
                continue
            for si, st in enumerate(blk['s']):
                if not (st[0] == '=' and st[2][0] == 'cast' and st[2][1] == 'IntToInt' and st[2][3] == 'u64' and st[2][4] in MAXV):
                    continue
                op = F.sym_operand(st[2][2])
                bounds = []
                for l, e in F.literals_at(bi, si):
                    if l[0] == 'cmp' and l[2] == op and l[1] in ('le', 'lt'):
                        try:
                            bounds.append((l[1], eval_sym(l[3], lambda x: None)))
                        except NoEval:
                            pass
                if not bounds:
                    continue     # unguarded narrowing: not a range decision (nothing the serializer writes can exceed it)
                n += 1
                to = st[2][4]
                key = '%s:%s#%d' % (short, to, n)
                good = any((o == 'le' and k == MAXV[to]) or (o == 'lt' and k == MAXV[to] + 1) for o, k in bounds)
                if good:
                    r.ok(rule, key, 'value narrowed to %s only under `<= %d`' % (to, MAXV[to]), loc=b.loc)
                else:
                    r.fail(rule, key, '%s deserializer narrows a JSON number to %s under the bound %s: not the maximum of %s, so values the serializer writes are refused '
                           '(or the cast wraps)' % (short, to, bounds, to), loc=b.loc)
    r.count('range_limits', n)
    r.floor(rule, 'range_limits', n, 3)
