"""C40 Republish and acknowledgement see the same retained notifications (E2)."""
import re
from ..rulelib import *
from ..facts import fmt_sym, fmt_lit

SUBS = r'^server::subscriptions::subscriptions::Subscriptions::'


def run(ctx):
    r, db = ctx.r, ctx.db
    r.explanation = ('(i) a PublishResponseEntry is queued only after the same notification message was inserted into retransmission_queue '
                     'under the key (subscription_id, message.sequence_number). (ii) an acknowledgement yields Good only on the Some edge of '
                     'retransmission_queue.remove(&(ack.subscription_id, ack.sequence_number)), BadSequenceNumberUnknown on its None edge and '
                     'BadSubscriptionIdInvalid when the subscription is unknown; nothing else is removed there. (iii) Republish looks the '
                     'message up in the same map with the same key shape and returns a clone. Eviction policy and message identity over '
                     'histories are not decided.')
    r.rule_text = 'E2 guard dominance and key provenance over MIR of Subscriptions'
    rule = 'retain-before-send'
    tb = db.find_bodies(SUBS + r'tick$')
    if not tb:
        r.lost(rule, 'tick', 'Subscriptions::tick not found')
    else:
        b = tb[0]; F = ctx.facts(b)
        ins = [c for c in b.calls() if c.callee.endswith('BTreeMap::insert') and fmt_sym(b, F.sym_operand(c.args[0])).endswith('.retransmission_queue')]
        pushes = [c for c in b.calls() if c.callee.endswith('VecDeque::push_back') and fmt_sym(b, F.sym_operand(c.args[0])).endswith('.publish_response_queue')]
        if len(ins) != 1 or not pushes:
            r.lost(rule, 'tick:calls', 'expected one retransmission_queue.insert and a publish_response_queue.push_back in tick')
        else:
            k = fmt_sym(b, F.sym_operand(ins[0].args[1])); v = fmt_sym(b, F.sym_operand(ins[0].args[2]))
            m = re.match(r'^tuple\{(?P<t>.+)\.0, (?P=t)\.2\.sequence_number\}$', k)
            key_ok = bool(m) and 'transmission_queue' in k
            val_ok = bool(m) and v == 'Clone::clone(&%s.2)' % m.group('t')
            for c in pushes:
                dom = b.dominates(ins[0].bb, c.bb)
                resp = fmt_sym(b, F.sym_operand(c.args[1]))
                same_msg = bool(m) and (m.group('t') + '.2') in resp and (m.group('t') + '.0') in resp
                if dom and key_ok and val_ok and same_msg:
                    r.ok(rule, 'tick:insert-dominates-send', 'the response is queued only after retransmission_queue.insert((subscription_id, message.sequence_number), message.clone())', loc=c.loc)
                else:
                    r.fail(rule, 'tick:insert-dominates-send', 'a publish response can be queued without its notification being retained under (subscription id, sequence number) (dominates=%s key=%s value=%s)' % (dom, bool(key_ok), val_ok), detail='key %s' % k[:160], loc=c.loc)
    # ---------------- (ii)
    rule = 'acknowledge'
    cl = db.find_bodies(SUBS + r'process_subscription_acknowledgements(::\{closure#\d+\})*$')   # the loop body, however it is nested
    done = False
    for cb in cl:
        F = ctx.facts(cb)
        rem = [c for c in cb.calls() if re.search(r'BTreeMap::remove$', c.callee) and 'retransmission_queue' in fmt_sym(cb, F.sym_operand(c.args[0]))]
        if not rem:
            continue
        done = True
        others = [c for c in cb.calls() if re.search(r'(BTreeMap|VecDeque|Vec|HashMap)::(remove|clear|retain|drain|pop_front|pop_back)$', c.callee) and c not in rem]
        k = fmt_sym(cb, F.sym_operand(rem[0].args[1]))
        # both parts of the key are fields of the acknowledgement being processed (the closure's / loop's own item, whatever its name)
        key_ok = re.match(r'^&tuple\{\(\*(\w+\(_\d+\))\)\.subscription_id, \(\*\1\)\.sequence_number\}$', k) is not None
        if key_ok and len(rem) == 1 and not others:
            r.ok(rule, 'ack:key', 'exactly one removal, keyed by the acknowledgement\'s (subscription_id, sequence_number)', loc=rem[0].loc)
        else:
            r.fail(rule, 'ack:key', 'the acknowledgement removes %d entries / other containers %d, key = %s' % (len(rem), len(others), k[:120]), loc=rem[0].loc)
        codes = {}
        for bi, blk in enumerate(cb.blocks):
            for si, st in enumerate(blk['s']):
                if st[0] == '=' and st[2][0] == 'use' and st[2][1][0] == 'k' and 'StatusCode' in st[2][1][2]:
                    m = re.search(r'StatusCode::(\w+)', st[2][1][1])
                    if m:
                        codes[m.group(1)] = (bi, si)
        rs = F.sym_call(rem[0])
        for name, want in (('Good', lambda l: l[0] == 'variant' and l[1] == rs and l[2] == 'Some' and l[3] or (l[0] == 'truth' and l[2] is True and 'is_some' in fmt_sym(cb, l[1]) and 'remove' in fmt_sym(cb, l[1]))),
                           ('BadSequenceNumberUnknown', lambda l: (l[0] == 'variant' and l[1] == rs and ((l[2] == 'None' and l[3]) or (l[2] == 'Some' and not l[3]))) or (l[0] == 'truth' and l[2] is False and 'is_some' in fmt_sym(cb, l[1]) and 'remove' in fmt_sym(cb, l[1]))),
                           ('BadSubscriptionIdInvalid', lambda l: l[0] == 'truth' and l[2] is False and 'contains_key' in fmt_sym(cb, l[1]))):
            if name not in codes:
                r.fail(rule, 'ack:' + name, 'the acknowledgement results never yield ' + name, loc=cb.loc); continue
            lits = F.literals_at(*codes[name])
            if any(want(l) for l, e in lits):
                r.ok(rule, 'ack:' + name, '%s exactly on its edge of the removal / subscription lookup' % name, loc=cb.loc)
            else:
                r.fail(rule, 'ack:' + name, '%s is not tied to the outcome of retransmission_queue.remove / the subscription lookup' % name, loc=cb.loc)
    if not done:
        r.lost(rule, 'ack', 'acknowledgement closure with retransmission_queue.remove not found')
    # ---------------- (ii-b) acknowledgements of a publish request that is refused are not applied
    eb = db.find_bodies(SUBS + r'enqueue_publish_request$')
    if not eb:
        r.lost(rule, 'enqueue_publish_request', 'not found')
    else:
        b2 = eb[0]; F2 = ctx.facts(b2)
        acks = [c for c in b2.calls() if c.callee.endswith('process_subscription_acknowledgements')]
        pushes = [c for c in b2.calls() if c.callee.endswith('VecDeque::push_front') and fmt_sym(b2, F2.sym_operand(c.args[0])).endswith('.publish_request_queue')]
        rej = [(bb, si) for bb, si, pl in result_ctor_sites(b2, 'Err') if 'BadTooManyPublishRequests' in str(b2.stmts(bb)[si][2][4][0])]
        if len(acks) != 1 or not pushes or not rej:
            r.lost(rule, 'enqueue:calls', 'expected one acknowledgement call, the queue push and the BadTooManyPublishRequests refusal')
        else:
            after = b2.reachable_blocks(acks[0].target) if acks[0].target is not None else set()
            post = all(any(p.bb in after for p in pushes) for _ in [0]) and not any(bb in after for bb, si in rej)
            before = any(acks[0].bb in b2.reachable_blocks(bb) for bb, si in rej)
            if post and not before:
                r.ok(rule, 'enqueue:ack-only-when-accepted', 'acknowledgements are applied only on the path that queues the request; the refusal path does not touch the retransmission queue', loc=acks[0].loc)
            else:
                r.fail(rule, 'enqueue:ack-only-when-accepted', 'acknowledgements of a PublishRequest can be applied although the request is refused with BadTooManyPublishRequests (the client is told nothing, Republish then fails)', loc=acks[0].loc)
    # ---------------- (iii)
    rule = 'republish-same-store'
    fb = db.find_bodies(SUBS + r'find_notification_message$')
    if not fb:
        r.lost(rule, 'find_notification_message', 'not found')
    else:
        b = fb[0]; F = ctx.facts(b)
        g = [c for c in b.calls() if c.callee.endswith('BTreeMap::get') and 'retransmission_queue' in fmt_sym(b, F.sym_operand(c.args[0]))]
        if len(g) != 1:
            r.fail(rule, 'republish:lookup', 'Republish does not look the message up in retransmission_queue', loc=b.loc)
        else:
            k = fmt_sym(b, F.sym_operand(g[0].args[1]))
            oks = result_ctor_sites(b, 'Ok')
            okv = [fmt_sym(b, F.sym_operand(b.stmts(bb)[si][2][4][0])) for bb, si, pl in oks]
            # `.get(key).cloned().ok_or(code)` as the tail expression: the value comes out of the call chain
            okv += [fmt_sym(b, F.sym_call(d[2])) for d in b.defs().get(0, []) if d[0] == 'call' and not d[2].callee.endswith('from_residual') and
                    re.search(r'Option::ok_or(_else)?$', d[2].callee)]
            if 'subscription_id' in k and 'sequence_number' in k and okv and all('clone' in v.lower() and 'get' in v for v in okv):
                r.ok(rule, 'republish:lookup', 'Ok(clone of retransmission_queue[(subscription_id, sequence_number)])', loc=g[0].loc)
            else:
                r.fail(rule, 'republish:lookup', 'Republish does not return a clone of the entry stored under (subscription_id, sequence_number)', detail='%s -> %s' % (k[:80], okv), loc=g[0].loc)
    r.floor('C40', 'obligations', len(r.obls), 7)
    retained_until_acknowledged(ctx)


def retained_until_acknowledged(ctx, rule='retained-until-acknowledged'):
    """Republish and acknowledgement can only agree on what is retained if nothing else takes entries out of
    retransmission_queue.  Who-may-remove: an entry leaves the queue only (a) through the acknowledgement of its own key
    (rule acknowledge) or (b) through the clean-up remove_old_unacknowledged_notifications (entries of subscriptions that no
    longer exist; the oldest entries beyond the size limit).  Every function that removes from the queue is one of these two or
    is reached only from them; the &mut accessor retransmission_queue() has no caller outside tests."""
    r, db, cg = ctx.r, ctx.db, ctx.cg
    SUBSP = 'server::subscriptions::subscriptions::Subscriptions::'
    ROOTS = (SUBSP + 'process_subscription_acknowledgements', SUBSP + 'remove_old_unacknowledged_notifications')
    REM = re.compile(r'BTreeMap::(remove|remove_entry|retain|clear|pop_first|pop_last|split_off|append|extract_if|drain|first_entry|last_entry|entry)$')
    base = lambda p: re.sub(r'(::\{closure#\d+\})+$', '', p)
    removers = {}
    for b in db.find_bodies_mentioning(r'.', 'retransmission_queue'):
        if re.search(r'::tests?::', b.path):
            continue
        F = None
        for c in b.calls():
            if REM.search(c.callee) and c.args:
                F = F or ctx.facts(b)
                if re.search(r'[._]retransmission_queue(\(_[\d.]+\))?$', fmt_sym(b, F.sym_operand(c.args[0]))) and not c.callee.endswith('::entry'):
                    removers.setdefault(base(b.path), []).append(c)
    if not removers:
        r.lost(rule, 'removers', 'no removal from retransmission_queue found'); return
    # reverse call edges between function bodies (closures folded into their function)
    callers = {}
    for i, outs in cg.out.items():
        src = base(db.instances[i].path)
        for e in outs:
            if e.kind in ('call', 'cha', 'generic', 'forward'):
                dst = base(db.instances[e.dst].path)
                if dst != src:
                    callers.setdefault(dst, set()).add(src)
    n = 0
    seen = set(); work = list(removers)
    while work:
        f = work.pop()
        if f in seen:
            continue
        seen.add(f); n += 1
        if f in ROOTS:
            r.ok(rule, 'remover:' + f.rsplit('::', 1)[-1], 'a reviewed remover: %s' % ('the acknowledgement of the entry\'s own key' if f.endswith('acknowledgements') else 'clean-up of dead subscriptions / overflow'), loc=(removers.get(f) or [None])[0].loc if removers.get(f) else None)
            continue
        cs = sorted(c for c in callers.get(f, ()) if not re.search(r'::tests?::', c))
        bad = [c for c in cs if c not in ROOTS and c not in removers and not c.startswith(SUBSP)]
        outside = [c for c in cs if c not in ROOTS]
        if not cs:
            r.fail(rule, 'remover:' + f.rsplit('::', 1)[-1], '%s takes entries out of retransmission_queue and is called from nowhere the rule knows' % f, loc=removers[f][0].loc if f in removers else None)
        elif outside:
            r.fail(rule, 'remover:' + f.rsplit('::', 1)[-1], '%s takes entries out of retransmission_queue and is reached from %s, which is neither the acknowledgement of the entry\'s own key nor the '
                   'reviewed clean-up: retained notifications of live subscriptions can vanish, Republish then answers BadMessageNotAvailable and the acknowledgement BadSequenceNumberUnknown'
                   % (f.rsplit('::', 1)[-1], ', '.join(o.rsplit('::', 1)[-1] for o in outside)), loc=removers[f][0].loc if f in removers else None)
        else:
            r.ok(rule, 'remover:' + f.rsplit('::', 1)[-1], 'removes entries only on behalf of %s' % ', '.join(c.rsplit('::', 1)[-1] for c in cs), loc=removers[f][0].loc if f in removers else None)
    acc = callers.get(SUBSP + 'retransmission_queue', set())
    acc = [c for c in acc if not re.search(r'::tests?::', c)]
    n += 1
    if acc:
        r.fail(rule, 'accessor', 'the &mut accessor retransmission_queue() is called from %s: the queue can be changed outside the reviewed removers' % ', '.join(sorted(acc)), loc=None)
    else:
        r.ok(rule, 'accessor', 'retransmission_queue() (&mut access) has no caller outside tests')
    # what the clean-up may select: dead subscriptions, or the oldest `len - max` entries
    cb = db.body(SUBSP + 'remove_old_unacknowledged_notifications')
    if cb is None:
        r.lost(rule, 'cleanup', 'remove_old_unacknowledged_notifications not found')
    else:
        preds = [x for x in db.find_bodies('^' + re.escape(cb.path) + r'(::\{closure#\d+\})+$') if x.locals[0] == 'bool']
        okp = False
        for p_ in preds:
            outs = bool_fn_outcomes(ctx, p_.path, True) or []
            if outs and all(any(re.search(r'contains_key\(&self__subscriptions\(_1[\d.]*\), &.*\.0\) == False$', fmt_lit(p_, l)) for l in conj) for conj in outs):
                okp = True
        F = ctx.facts(cb)
        takes = [c for c in cb.calls() if c.callee.endswith('Iterator::take')]
        okt = len(takes) == 1 and re.search(r'SubWithOverflow|Sub ', fmt_sym(cb, F.sym_operand(takes[0].args[1]))) and 'len(' in fmt_sym(cb, F.sym_operand(takes[0].args[1])).lower() or \
            (len(takes) == 1 and 'BTreeMap::len' in fmt_sym(cb, F.sym_operand(takes[0].args[1])))
        n += 1
        if okp and okt:
            r.ok(rule, 'cleanup:selection', 'the clean-up selects entries of subscriptions that no longer exist and the oldest entries beyond the limit', loc=cb.loc)
        else:
            r.fail(rule, 'cleanup:selection', 'the clean-up does not select exactly (entries whose subscription is gone) and (the oldest len - max entries): dead-subscription filter %s, overflow take %s'
                   % (okp, bool(okt)), loc=cb.loc)
    r.count('queue_removers', n)
    r.floor(rule, 'queue_removers', n, 4)
