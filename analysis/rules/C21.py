"""C21 Publish responses pair with requests and deliver every data change once (E6 + typestate clauses)."""
import re
from ..rulelib import *
from ..facts import fmt_sym, fmt_lit

SUBS = r'^server::subscriptions::subscriptions::Subscriptions::'
INS = {'push_front': 'front', 'push_back': 'back'}
REM = {'pop_front': 'front', 'pop_back': 'back'}


def queue_ops(ctx, field):
    """[(fn, op, call)] of VecDeque operations whose receiver is self.<field>"""
    out = []
    for b in ctx.db.find_bodies(r'^server::(subscriptions|session|services)::'):
        F = None
        for c in b.calls():
            m = re.search(r'VecDeque::(push_front|push_back|pop_front|pop_back|insert|remove|drain|append|swap_remove_back|swap_remove_front)$', c.callee)
            if m and c.args:
                F = F or ctx.facts(b)
                recv = fmt_sym(b, F.sym_operand(c.args[0]))
                arg1 = fmt_sym(b, F.sym_operand(c.args[1])) if len(c.args) > 1 else ''
                if recv.endswith('.' + field) or (m.group(1) == 'append' and arg1.endswith('.' + field)):
                    out.append((b, m.group(1), c))
    return out


def fifo_ends(ctx, queues, rule='fifo-ends'):
    """every insertion into the queue uses one end and every removal the opposite end (oldest first); shared with C27, whose
    priority order is established when the pairs are queued and must survive the queues"""
    r, db = ctx.r, ctx.db
    for q in queues:
        ops = queue_ops(ctx, q)
        ins = {INS[o] for b, o, c in ops if o in INS}
        rem = {REM[o] for b, o, c in ops if o in REM}
        other = sorted({o for b, o, c in ops if o not in INS and o not in REM and o != 'append'})
        drained_whole = any(o == 'append' for b, o, c in ops)
        key = q
        if not ins:
            r.lost(rule, key, 'no insertion into %s found' % q); continue
        if len(ins) == 1 and (rem == {'front' if ins == {'back'} else 'back'} or (not rem and drained_whole and ins == {'back'})) and not other:
            r.ok(rule, key, 'inserted at the %s, removed %s: oldest first' % (list(ins)[0], 'from the ' + list(rem)[0] if rem else 'by draining the whole queue front-to-back'), loc=ops[0][2].loc)
        else:
            r.fail(rule, key, '%s is not used as a FIFO (insert ends %s, remove ends %s, other ops %s)' % (q, sorted(ins), sorted(rem), other), loc=ops[0][2].loc)


def run(ctx):
    r, db = ctx.r, ctx.db
    r.explanation = ('(i) FIFO ends: every insertion into publish_request_queue / transmission_queue / publish_response_queue uses one end and '
                     'every removal the opposite end (oldest first). (ii) linear pairing: each queued PublishResponseEntry is built by '
                     'make_publish_response from a PublishRequestEntry that was popped from the transmission queue, into which it was '
                     'moved from publish_request_queue.pop_back(). (iii) must-consume: in Subscription::handle_state_result every arm in '
                     'which a drained notification can be present hands it to enqueue_notification (or provably panics); an arm that '
                     'just lets it drop loses sampled data changes. Exactly-once delivery over histories is not decided.')
    r.rule_text = 'E6 queue-end agreement, argument provenance, and per-arm must-consume over MIR'
    # ---------------- (i)
    fifo_ends(ctx, ('publish_request_queue', 'transmission_queue', 'publish_response_queue'))
    # ---------------- (ii)
    rule = 'linear-pairing'
    tb = db.find_bodies(SUBS + r'tick$')
    if not tb:
        r.lost(rule, 'tick', 'Subscriptions::tick not found')
    else:
        b = tb[0]; F = ctx.facts(b)
        pushes = [c for c in b.calls() if c.callee.endswith('VecDeque::push_back') and fmt_sym(b, F.sym_operand(c.args[0])).endswith('.publish_response_queue')]
        if not pushes:
            r.lost(rule, 'tick:response-push', 'no publish_response_queue.push_back in tick')
        for c in pushes:
            v = fmt_sym(b, F.sym_operand(c.args[1]))
            if 'make_publish_response' in v and 'pop_back' in v and 'transmission_queue' in v:
                r.ok(rule, 'tick:response-from-popped-request', 'the response is make_publish_response(request popped from the transmission queue, ..)', loc=c.loc)
            else:
                r.fail(rule, 'tick:response-from-popped-request', 'a publish response is queued that is not built from a popped publish request', detail=v[:200], loc=c.loc)
        tp = [c for c in b.calls() if c.callee.endswith('VecDeque::push_front') and fmt_sym(b, F.sym_operand(c.args[0])).endswith('.transmission_queue')]
        for c in tp:
            v = fmt_sym(b, F.sym_operand(c.args[1]))
            if 'pop_back' in v and 'publish_request_queue' in v:
                r.ok(rule, 'tick:transmission-from-request', 'each transmission entry carries a request popped from publish_request_queue', loc=c.loc)
            else:
                r.fail(rule, 'tick:transmission-from-request', 'a transmission entry is created without consuming a queued publish request', detail=v[:200], loc=c.loc)
        if not tp:
            r.lost(rule, 'tick:transmission-push', 'no transmission_queue.push_front in tick')
    # ---------------- (iii)
    rule = 'must-consume-notification'
    hb = db.body('server::subscriptions::subscription::Subscription::handle_state_result')
    if hb is None:
        r.lost(rule, 'handle_state_result', 'not found')
    else:
        F = ctx.facts(hb)
        npar = [l for l in hb.local_by_name('notification') if l <= hb.argc]
        sw = None
        for bi, blk in enumerate(hb.blocks):
            t = blk['t']
            if t[0] == 'switch':
                e = F.sym_operand(t[1])
                if e[0] == 'discr' and 'UpdateStateAction' in e[2]:
                    sw = bi; names = F.variants_of(e[2]); break
        if sw is None or not npar:
            r.lost(rule, 'handle_state_result:match', 'match on update_state_action / notification parameter not found')
        else:
            p = npar[0]
            enq = [c for c in hb.calls() if c.callee.endswith('Subscription::enqueue_notification')]
            arms = {}
            for dst, lab in hb.succ_edges(sw):
                if lab[0] == 'val' and int(lab[1]) < len(names):
                    arms[names[int(lab[1])]] = dst
                elif lab[0] == 'otherwise':
                    for i, nme in enumerate(names):
                        if str(i) not in lab[1]:
                            arms.setdefault(nme, dst)
            other_arm_entries = set(arms.values())
            n = 0
            for name, entry in sorted(arms.items()):
                region = hb.reachable_blocks(entry, stop=other_arm_entries - {entry})
                consumed = False
                for c in enq:
                    if c.bb in region:
                        a = fmt_sym(hb, F.sym_operand(c.args[1]))
                        if re.search(r'notification\(_%d\)@Some' % p, a):
                            consumed = True
                panics_if_some = any(hb.term(bi)[0] == 'call' and hb.term(bi)[1][0] == 'fn' and 'panic' in hb.term(bi)[1][1] for bi in region)
                n += 1
                key = 'handle_state_result:arm:' + name
                if consumed:
                    r.ok(rule, key, 'arm %s passes the drained notification to enqueue_notification' % name, loc=hb.loc)
                elif panics_if_some:
                    r.ok(rule, key, 'arm %s asserts that no notification is present' % name, status='safe-by-review', loc=hb.loc)
                else:
                    r.fail(rule, key, 'arm %s drops a drained data-change notification (only its sequence number is recycled): sampled changes are lost when the interval elapses with this action' % name, loc=hb.loc)
            r.floor(rule, 'action_arms', n, 5)
    data_wins(ctx)
    from .substate import tick_wiring
    tick_wiring(ctx)


def data_wins(ctx, rule='data-wins-over-keep-alive'):
    """over the enumerated decision table of update_state: whenever publishing is enabled, data is available and a publish
    request can be answered, the row taken answers with the notifications - never with a keep-alive and never with nothing
    (tick_monitored_items has already drained the changes; any other action drops them, see the consumption rule above)"""
    from .substate import rows_of, compatible, describe
    r = ctx.r
    rows = rows_of(ctx)
    if not rows:
        r.lost(rule, 'update_state', 'decision table of update_state could not be enumerated'); return
    loc = ctx.db.body('server::subscriptions::subscription::Subscription::update_state').loc
    def fixed(x, k, v):
        return x['inputs'].get(k) is v
    def st(x, *names):
        s = x['inputs'].get('state')
        return s is not None and s[0] == 'is' and s[1] in names
    alive = [x for x in rows if x['inputs'].get('lifetime_is_1') is not True]
    # timer expiry with a queued request
    # a path is taken by every input consistent with the atoms it tests: an atom it does not test is free
    def may(x, k, v):
        cur = x['inputs'].get(k)
        return cur is None or cur is v
    t = [x for x in alive if st(x, 'Normal', 'KeepAlive') and fixed(x, 'timer_expired', True) and may(x, 'req_queued', True) and
         may(x, 'publishing_enabled', True) and may(x, 'notifications_available', True) and x['row'] not in (None, 'None0')]
    # a publish request arriving while Late with data waiting, or in Normal with more notifications
    q = [x for x in alive if st(x, 'Late') and fixed(x, 'receive_publish_request', True) and may(x, 'publishing_enabled', True) and
         (may(x, 'notifications_available', True) or may(x, 'more_notifications', True))]
    q += [x for x in alive if st(x, 'Normal') and fixed(x, 'receive_publish_request', True) and may(x, 'publishing_enabled', True) and may(x, 'more_notifications', True)]
    r.count('data_available_paths', len(t) + len(q))
    r.floor(rule, 'data_available_paths', len(t) + len(q), 12)
    bad = [x for x in t + q if x['action'] != 'ReturnNotifications']
    if bad:
        seen = set()
        for x in bad:
            k = 'row:%s' % x['row']
            if k in seen:
                continue
            seen.add(k)
            r.fail(rule, k, 'data is available and a publish request can be answered, but update_state takes row %s with action %s: the drained changes are not delivered'
                   % (x['row'], x['action']), detail=describe(x), loc=loc, witness={'abstract_input': {a: str(v) for a, v in x['inputs'].items()}})
    else:
        r.ok(rule, 'rows', 'all %d decision paths with data available and an answerable publish request end in ReturnNotifications' % (len(t) + len(q)), loc=loc)
