"""C26 Client timestamps and wall-clock jumps cannot crash subscription processing (E1)."""
from ..panics import run_e1

ENTRY = (r'^server::session::Session::(expire_stale_publish_requests|tick_subscriptions)$'
         r'|^server::subscriptions::subscriptions::Subscriptions::(tick|expire_stale_publish_requests)$'
         r'|^server::subscriptions::subscription::Subscription::tick$|^server::subscriptions::monitored_item::MonitoredItem::tick$')
STOP = r'AddressSpace::|::get_attribute|Variable::value|callbacks::'


def run(ctx):
    r = ctx.r
    r.explanation = ('No-panic half: every panic site reachable from the periodic subscription processing entry points '
                     '(Session::expire_stale_publish_requests, Session::tick_subscriptions, Subscriptions::tick, Subscription::tick, '
                     'MonitoredItem::tick; address-space reads excluded, they belong to C32/C33) is discharged by a guard or '
                     'dispositioned. Time arithmetic on client-supplied timestamps and on `now` is in the panicking-API table '
                     '(chrono/Duration operators, to_std().unwrap()). "BadTimeout only after the timeout" is timing: not decided.')
    r.rule_text = 'E1 panic-site inventory over the subscription tick path'
    run_e1(ctx, ENTRY, stop_pattern=STOP)
    r.floor('E1-panic', 'reachable_bodies', r.counts.get('reachable_bodies', 0), 20)
