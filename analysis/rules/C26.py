"""C26 Client timestamps and wall-clock jumps cannot crash subscription processing (E1)."""
import re, json
from ..panics import run_e1, stable_lit
from ..facts import fmt_lit, fmt_sym
from .C39 import make_table_auto

ENTRY = (r'^server::session::Session::(expire_stale_publish_requests|tick_subscriptions)$'
         r'|^server::subscriptions::subscriptions::Subscriptions::(tick|expire_stale_publish_requests)$'
         r'|^server::subscriptions::subscription::Subscription::tick$|^server::subscriptions::monitored_item::MonitoredItem::tick$')
STOP = r'AddressSpace::|::get_attribute|Variable::value|callbacks::'


GATE = re.compile(r'^PartialOrd::gt\(&.*signed_duration_since\(\(\*now.*request_header\.timestamp.*\), &Duration::from_millis\((.*)\)\) == True$')


def check_timeout_gate(ctx, rule='E2-timeout-gate'):
    """BadTimeout is produced, and the request dropped from the queue, only under `now - request timestamp > timeout`"""
    db, r = ctx.db, ctx.r
    bs = db.find_bodies(r'Subscriptions::expire_stale_publish_requests::\{closure#0\}$')
    if not bs:
        r.lost(rule, 'expire:closure', 'retain closure of expire_stale_publish_requests not found'); return
    b = bs[0]; F = ctx.facts(b)
    sites = []
    for bi, blk in enumerate(b.blocks):
        for si, st in enumerate(blk['s']):
            if 'BadTimeout' in json.dumps(st):
                sites.append(('BadTimeout', bi, si))
            # `false` returned from the retain predicate = the request leaves the queue
            if st[0] == '=' and st[1] == [0, []] and st[2][0] == 'use' and st[2][1][0] == 'k' and st[2][1][1] in ('false', '0') and st[2][1][2] == 'bool':
                sites.append(('drop-from-queue', bi, si))
        if 'BadTimeout' in json.dumps(blk['t'][:3]):
            sites.append(('BadTimeout', bi, None))
    if not any(k == 'BadTimeout' for k, _, _ in sites) or not any(k == 'drop-from-queue' for k, _, _ in sites):
        r.lost(rule, 'expire:sites', 'BadTimeout construction / `false` result not found in the retain closure'); return
    n = 0
    for kind, bi, si in sites:
        n += 1
        key = 'expire:%s#%d' % (kind, n)
        hit = None
        for lit, e in F.literals_at(bi, si):
            m = GATE.match(fmt_lit(b, lit))
            if m:
                hit = (lit, m.group(1)); break
        if not hit:
            r.fail(rule, key, '%s is not dominated by `now.signed_duration_since(request timestamp) > timeout`: a queued publish request '
                   'could be answered BadTimeout before its timeout elapsed' % kind, loc=b.loc)
            continue
        r.ok(rule, key, '%s only under `%s`' % (kind, fmt_lit(b, hit[0])[:160]), loc=b.loc)
    # the timeout operand: every definition is the request's timeout hint or the server's publish request timeout
    srcs = []
    for bi, blk in enumerate(b.blocks):
        t = blk['t']
        if t[0] == 'call' and t[1][0] == 'fn' and t[1][1].endswith('Duration::from_millis'):
            a = t[2][0]
            if a[0] in ('mv', 'cp') and not a[1][1]:
                for d in b.defs().get(a[1][0], []):
                    if d[0] == 'stmt':
                        srcs.append(fmt_sym(b, F.sym_rvalue(d[3], 0, d[1])))
                    else:
                        srcs.append(str(d[0]))
    bad = [x for x in srcs if not re.search(r'timeout_hint as u64|publish_request_timeout.* as u64', x)]
    if not srcs or bad:
        r.fail(rule, 'expire:timeout-operand', 'the timeout compared with the elapsed time is not the request timeout hint / server publish timeout: %s' % (bad or srcs), loc=b.loc)
    else:
        r.ok(rule, 'expire:timeout-operand', 'timeout operand is one of: ' + '; '.join(sorted(set(srcs))), loc=b.loc)
    r.count('timeout_gate_sites', n)


def run(ctx):
    r = ctx.r
    r.explanation = ('No-panic half: every panic site reachable from the periodic subscription processing entry points '
                     '(Session::expire_stale_publish_requests, Session::tick_subscriptions, Subscriptions::tick, Subscription::tick, '
                     'MonitoredItem::tick; address-space reads excluded, they belong to C32/C33) is discharged by a guard or '
                     'dispositioned. Time arithmetic on client-supplied timestamps and on `now` is in the panicking-API table '
                     '(chrono/Duration operators, to_std().unwrap()). The BadTimeout clause is decided only in its structural part: the fault is built, and the request leaves the queue, only on the branch where now.signed_duration_since(request timestamp) (saturated at zero) exceeds a timeout that is the request hint or the server limit; clock behaviour itself is not modelled.')
    r.rule_text = 'E1 panic-site inventory over the subscription tick path'
    run_e1(ctx, ENTRY, stop_pattern=STOP, extra_auto=make_table_auto(ctx))
    check_timeout_gate(ctx)
    r.floor('E2-timeout-gate', 'timeout_gate_sites', r.counts.get('timeout_gate_sites', 0), 2)
    r.floor('E1-panic', 'reachable_bodies', r.counts.get('reachable_bodies', 0), 20)
