"""C26 Client timestamps and wall-clock jumps cannot crash subscription processing (E1)."""
import re, json
from ..panics import run_e1, stable_lit
from ..facts import fmt_lit, fmt_sym
from .C39 import make_table_auto

ENTRY = (r'^server::session::Session::(expire_stale_publish_requests|tick_subscriptions)$'
         r'|^server::subscriptions::subscriptions::Subscriptions::(tick|expire_stale_publish_requests)$'
         r'|^server::subscriptions::subscription::Subscription::tick$|^server::subscriptions::monitored_item::MonitoredItem::tick$')
STOP = r'AddressSpace::|::get_attribute|Variable::value|callbacks::'


WRAP = re.compile(r'num_(milli|micro|nano)?seconds\(.*\) as u(8|16|32|64|128|size)')


def _gate_of(b, lit):
    """(elapsed sym, timeout sym) when the literal says elapsed > timeout (or >=), else None"""
    if lit[0] == 'truth' and lit[1][0] == 'call' and len(lit[1][2]) == 2:
        short = lit[1][1].rsplit('::', 1)[-1]
        a, c = lit[1][2]
        a = a[1] if a[0] == 'ref' else a
        c = c[1] if c[0] == 'ref' else c
        if (short in ('gt', 'ge') and lit[2] is True) or (short in ('le', 'lt') and lit[2] is False):
            return a, c
        if (short in ('lt', 'le') and lit[2] is True) or (short in ('ge', 'gt') and lit[2] is False):
            return c, a
    if lit[0] == 'cmp' and lit[1] in ('gt', 'ge'):
        return lit[2], lit[3]
    if lit[0] == 'cmp' and lit[1] in ('lt', 'le'):
        return lit[3], lit[2]
    return None


def check_timeout_gate(ctx, rule='E2-timeout-gate'):
    """BadTimeout is produced, and the request dropped from the queue, only under `now - request timestamp > timeout`,
    where the elapsed time cannot wrap when it is negative and the timeout is the request hint or the server limit"""
    db, r = ctx.db, ctx.r
    bs = db.find_bodies(r'Subscriptions::expire_stale_publish_requests::\{closure#0\}$')
    if not bs:
        r.lost(rule, 'expire:closure', 'retain closure of expire_stale_publish_requests not found'); return
    b = bs[0]; F = ctx.facts(b)
    sites = []
    for bi, blk in enumerate(b.blocks):
        for si, st in enumerate(blk['s']):
            if 'BadTimeout' in json.dumps(st):
                sites.append(('BadTimeout', bi, si))
            # `false` returned from the retain predicate = the request leaves the queue
            if st[0] == '=' and st[1] == [0, []] and st[2][0] == 'use' and st[2][1][0] == 'k' and st[2][1][1] in ('false', '0') and st[2][1][2] == 'bool':
                sites.append(('drop-from-queue', bi, si))
        if 'BadTimeout' in json.dumps(blk['t'][:3]):
            sites.append(('BadTimeout', bi, None))
    if not any(k == 'BadTimeout' for k, _, _ in sites) or not any(k == 'drop-from-queue' for k, _, _ in sites):
        r.lost(rule, 'expire:sites', 'BadTimeout construction / `false` result not found in the retain closure'); return
    n = 0
    timeouts = set()
    for kind, bi, si in sites:
        n += 1
        key = 'expire:%s#%d' % (kind, n)
        hit = None
        for lit, e in F.literals_at(bi, si):
            g = _gate_of(b, lit)
            if not g:
                continue
            el, to = fmt_sym(b, g[0]), fmt_sym(b, g[1])
            if 'now' in el and 'request_header.timestamp' in el and 'now' not in to:
                hit = (lit, g, el, to); break
        if not hit:
            r.fail(rule, key, '%s is not dominated by a comparison `time since the request timestamp > timeout`: a queued publish request '
                   'could be answered BadTimeout before its timeout elapsed' % kind, loc=b.loc)
            continue
        if WRAP.search(hit[2]):
            r.fail(rule, key, '%s: the elapsed time is a signed duration cast to an unsigned integer (%s): a request timestamp ahead of the '
                   'server clock wraps to a huge elapsed time and the request is timed out at once' % (kind, hit[2][:120]), loc=b.loc)
            continue
        timeouts.add(hit[1][1])
        r.ok(rule, key, '%s only under `%s`' % (kind, fmt_lit(b, hit[0])[:160]), loc=b.loc)
    # the timeout operand: every definition is the request's timeout hint or the server's publish request timeout
    srcs = []
    def defs_of_local(l):
        for d in b.defs().get(l, []):
            if d[0] == 'stmt':
                srcs.append(fmt_sym(b, F.sym_rvalue(d[3], 0, d[1])))
            elif d[0] == 'call' and d[2].callee.endswith('Duration::from_millis'):
                a = d[2].args[0]
                if a[0] in ('mv', 'cp') and not a[1][1]:
                    defs_of_local(a[1][0])
                else:
                    srcs.append(fmt_sym(b, F.sym_operand(a)))
            else:
                srcs.append(str(d[0]) + (':' + d[2].callee if d[0] == 'call' else ''))
    def roots(sym):
        if isinstance(sym, tuple):
            if sym and sym[0] == 'place':
                yield sym
            elif sym and sym[0] == 'call' and sym[1].endswith('Duration::from_millis'):
                for a in sym[2]:
                    yield from roots(a)
            elif sym and sym[0] in ('ref', 'cast', 'deref'):
                yield from roots(sym[1])
    for to in timeouts:
        for pl in roots(to):
            if not pl[2]:
                defs_of_local(pl[1])
            else:
                srcs.append(fmt_sym(b, pl))
    bad = [x for x in srcs if not re.search(r'timeout_hint as u64|publish_request_timeout.* as u64', x)]
    if timeouts and (not srcs or bad):
        r.fail(rule, 'expire:timeout-operand', 'the timeout compared with the elapsed time is not the request timeout hint / server publish timeout: %s' % (bad or srcs), loc=b.loc)
    elif timeouts:
        r.ok(rule, 'expire:timeout-operand', 'timeout operand is one of: ' + '; '.join(sorted(set(srcs))), loc=b.loc)
    r.count('timeout_gate_sites', n)


def run(ctx):
    r = ctx.r
    r.explanation = ('No-panic half: every panic site reachable from the periodic subscription processing entry points '
                     '(Session::expire_stale_publish_requests, Session::tick_subscriptions, Subscriptions::tick, Subscription::tick, '
                     'MonitoredItem::tick; address-space reads excluded, they belong to C32/C33) is discharged by a guard or '
                     'dispositioned. Time arithmetic on client-supplied timestamps and on `now` is in the panicking-API table '
                     '(chrono/Duration operators, to_std().unwrap()). The BadTimeout clause is decided only in its structural part: the fault is built, and the request leaves the queue, only on the branch where now.signed_duration_since(request timestamp) (saturated at zero) exceeds a timeout that is the request hint or the server limit; clock behaviour itself is not modelled.')
    r.rule_text = 'E1 panic-site inventory over the subscription tick path'
    run_e1(ctx, ENTRY, stop_pattern=STOP, extra_auto=make_table_auto(ctx))
    check_timeout_gate(ctx)
    r.floor('E2-timeout-gate', 'timeout_gate_sites', r.counts.get('timeout_gate_sites', 0), 2)
    r.floor('E1-panic', 'reachable_bodies', r.counts.get('reachable_bodies', 0), 20)
