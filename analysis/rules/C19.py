"""C19 Only activated sessions on their own channel can use services (E2 + exhaustiveness)."""
import re
from ..rulelib import *
from ..facts import fmt_sym, fmt_lit

SERVICE = re.compile(r'^server::services::[a-z_]+::[A-Za-z]+Service::[a-z_0-9]+$')
ALLOW_DIRECT = {'DiscoveryService::get_endpoints', 'DiscoveryService::register_server', 'DiscoveryService::register_server2',
                'DiscoveryService::find_servers', 'SessionService::create_session', 'SessionService::close_session',
                }
HELPERS = {'service_fault'}
MH = r'^server::services::message_handler::MessageHandler::'


def short(path):
    return '::'.join(path.split('::')[-2:])


def run(ctx):
    r, db = ctx.r, ctx.db
    r.explanation = ('(i) in MessageHandler::handle_message the only service methods called outside a closure are the discovery and '
                     'session-establishment ones; every other service call sits in a closure that is handed, in the same block, to '
                     'validate_service_request (activate_session: validate_activate_service_request). (ii) inside those validators the '
                     'invocation of the action closure is dominated by: session found by the request authentication token, '
                     'is_session_activated not Err (not for activate), is_session_timed_out not Err. (iii) is_session_activated builds '
                     'Ok only under is_activated() == true and equality of the channel ids. (iv) close_session builds its Good response '
                     'only after the session was de-activated and deregistered.')
    r.rule_text = 'E2 who-may-call + guard dominance over MIR of server::services::message_handler / session'
    hm = db.find_bodies(MH + r'handle_message$')
    if not hm:
        r.lost('service-gating', 'handle_message', 'MessageHandler::handle_message not found'); return
    hm = hm[0]; F = ctx.facts(hm)
    # ---------------- (i)
    rule = 'service-gating'
    direct = [c for c in hm.calls() if SERVICE.match(c.callee) and c.callee.rsplit('::', 1)[-1] not in HELPERS]
    for c in direct:
        key = 'direct:' + short(c.callee)
        if short(c.callee) in ALLOW_DIRECT:
            r.ok(rule, key, 'discovery / session establishment service callable without an activated session', loc=c.loc)
        else:
            r.fail(rule, key, 'service %s is invoked directly in the dispatcher, outside validate_service_request' % short(c.callee), loc=c.loc)
    closures = db.find_bodies(MH + r'handle_message::\{closure#\d+\}$')
    n_gated = 0
    for cb in closures:
        svc = [c for c in cb.calls() if SERVICE.match(c.callee) and c.callee.rsplit('::', 1)[-1] not in HELPERS]
        if not svc:
            continue
        # where is this closure constructed and which call receives it?
        recv = None
        for bi, blk in enumerate(hm.blocks):
            for st in blk['s']:
                if st[0] == '=' and st[2][0] == 'agg' and st[2][1] == 'closure' and st[2][2] == cb.path:
                    t = hm.term(bi)
                    if t[0] == 'call' and any(a[0] == 'mv' and a[1][0] == st[1][0] for a in t[2]):
                        recv = t[1][1] if t[1][0] == 'fn' else None
        for c in svc:
            key = 'closure:' + short(c.callee)
            want = 'validate_activate_service_request' if c.callee.endswith('SessionService::activate_session') else 'validate_service_request'
            if recv and recv.endswith('MessageHandler::' + want):
                n_gated += 1
                r.ok(rule, key, 'invoked only as the action of %s' % want, loc=c.loc)
            else:
                r.fail(rule, key, 'service %s runs in a closure that is not the action of %s (received by %s)' % (short(c.callee), want, recv), loc=c.loc)
    r.floor(rule, 'gated_service_calls', n_gated, 28)
    r.floor(rule, 'direct_service_calls', len(direct), 6)
    # ---------------- (ii)
    rule = 'validator-guards'
    for fn, need_act in (('validate_service_request', True), ('validate_activate_service_request', False)):
        bs = db.find_bodies(MH + fn + '$')
        if not bs:
            r.lost(rule, fn, fn + ' not found'); continue
        vb = bs[0]; Fv = ctx.facts(vb)
        acts = [c for c in vb.calls() if re.search(r'ops::FnOnce::call_once$|ops::Fn::call$|ops::FnMut::call_mut$', c.callee) and
                'action' in fmt_sym(vb, Fv.sym_operand(c.args[0]))]
        if len(acts) != 1:
            r.lost(rule, fn + ':action', 'expected exactly one invocation of the action closure in %s, found %d' % (fn, len(acts))); continue
        lits = Fv.literals_at(acts[0].bb)
        def has(pred):
            return any(pred(l) for l, e in lits)
        found = has(lambda l: l[0] == 'variant' and l[2] == 'Some' and l[3] and 'find_session_by_token' in fmt_sym(vb, l[1]))
        token = any('authentication_token' in fmt_sym(vb, l[1]) for l, e in lits if l[0] == 'variant' and 'find_session_by_token' in fmt_sym(vb, l[1]))
        def not_err(name):
            return has(lambda l: l[0] == 'variant' and name in fmt_sym(vb, l[1]) and ((l[2] == 'Err' and not l[3]) or (l[2] == 'Ok' and l[3])))
        probs = []
        if not found:
            probs.append('session lookup by token not known to have succeeded')
        if not token:
            probs.append('session is not looked up by the request authentication token')
        if need_act and not not_err('is_session_activated'):
            probs.append('is_session_activated result not checked')
        if not not_err('is_session_timed_out'):
            probs.append('is_session_timed_out result not checked')
        key = fn + ':action'
        if probs:
            r.fail(rule, key, 'the service action can run although: ' + '; '.join(probs), loc=acts[0].loc)
        else:
            r.ok(rule, key, 'action runs only after session lookup by token%s and the time-out check passed' % (', the activation check' if need_act else ''), loc=acts[0].loc)
    # ---------------- (v) a rejected request changes nothing: session state is only touched on the authorized path
    rule = 'fault-path-writes-nothing'
    def session_mutators(body):
        out = []
        for c in body.calls():
            if c.callee.startswith('server::session::Session::'):
                cb = db.body(c.callee)
                if cb is not None and cb.argc >= 1 and cb.locals[1].startswith('&mut server::session::Session'):
                    out.append(c)
        return out
    for fn, allowed in (('is_session_timed_out', {'terminate_session'}), ('is_session_activated', set())):
        bs = db.find_bodies(MH + fn + '$')
        if not bs:
            r.lost(rule, fn, fn + ' not found'); continue
        muts = [c for c in session_mutators(bs[0]) if c.callee.rsplit('::', 1)[-1] not in allowed]
        if muts:
            r.fail(rule, fn + ':mutates', 'the check helper %s modifies the session (%s) although the request may still be rejected' % (fn, muts[0].callee.rsplit('::', 1)[-1]), loc=muts[0].loc)
        else:
            r.ok(rule, fn + ':mutates', '%s does not modify the session (except terminating a timed-out one)' % fn, loc=bs[0].loc)
    stamp_sites = 0
    for bid, pth in db.path_of.items():
        if not pth.startswith('server::'):
            continue
        bd = db.bodies[bid]
        for c in bd.calls():
            if c.callee.endswith('Session::set_last_service_request_timestamp'):
                stamp_sites += 1
                key = 'timestamp@' + '::'.join(pth.split('::')[-2:])
                if not re.search(r'MessageHandler::validate_(activate_)?service_request$', pth):
                    r.fail(rule, key, 'the session time-out clock is refreshed outside the validators (in %s)' % pth, loc=c.loc)
                    continue
                Fv = ctx.facts(bd)
                acts = [a for a in bd.calls() if re.search(r'ops::FnOnce::call_once$', a.callee) and 'action' in fmt_sym(bd, Fv.sym_operand(a.args[0]))]
                if acts and bd.dominates(acts[0].bb, c.bb):
                    r.ok(rule, key, 'the time-out clock is refreshed only after the action ran (authorized path)', loc=c.loc)
                else:
                    r.fail(rule, key, 'the session time-out clock is refreshed on a path where the request was not authorized', loc=c.loc)
    r.floor(rule, 'timestamp_refresh_sites', stamp_sites, 2)
    # ---------------- (iii)
    rule = 'activation-test'
    bs = db.find_bodies(MH + r'is_session_activated$')
    if not bs:
        r.lost(rule, 'is_session_activated', 'not found')
    else:
        ab = bs[0]; Fa = ctx.facts(ab)
        oks = result_ctor_sites(ab, 'Ok')
        if not oks:
            r.lost(rule, 'is_session_activated:Ok', 'no Ok construction')
        for bb, si, pl in oks:
            lits = Fa.literals_at(bb, si)
            act = any(l[0] == 'truth' and l[2] is True and 'Session::is_activated' in fmt_sym(ab, l[1]) for l, e in lits)
            chan = any(l[0] == 'cmp' and l[1] == 'eq' and 'secure_channel_id' in fmt_lit(ab, l) and fmt_lit(ab, l).count('secure_channel_id') >= 2 for l, e in lits)
            if act and chan:
                r.ok(rule, 'is_session_activated:Ok', 'Ok only when is_activated() is true and the channel ids are equal', loc=ab.loc)
            else:
                r.fail(rule, 'is_session_activated:Ok', 'is_session_activated returns Ok without %s' % ('the activation test' if not act else 'the channel id equality'), loc=ab.loc)
    # ---------------- (iv)
    rule = 'close-deactivates'
    bs = db.find_bodies(r'^server::services::session::SessionService::close_session$')
    if not bs:
        r.lost(rule, 'close_session', 'not found')
    else:
        cb = bs[0]
        resp = [(bi, si) for bi, blk in enumerate(cb.blocks) if not blk['c'] for si, st in enumerate(blk['s'])
                if st[0] == '=' and st[2][0] == 'agg' and st[2][2].endswith('CloseSessionResponse')]
        if not resp:
            r.lost(rule, 'close_session:response', 'no CloseSessionResponse construction')
        need = {'Session::set_activated': None, 'SessionManager::deregister_session': None, 'Session::set_authentication_token': None}
        for c in cb.calls():
            for k in need:
                if c.callee.endswith(k):
                    need[k] = c
        for bi, si in resp:
            missing = [k for k, c in need.items() if c is None or not cb.dominates(c.bb, bi)]
            if missing:
                r.fail(rule, 'close_session:Good', 'CloseSessionResponse is built on a path that does not pass ' + ', '.join(missing), loc=cb.loc)
            else:
                r.ok(rule, 'close_session:Good', 'Good response only after the token was nulled, the session de-activated and deregistered', loc=cb.loc)
    channel_binding(ctx)
    activation_follows_verdict(ctx)


def channel_binding(ctx, rule='first-activation-channel-bound'):
    """a session that was never activated can only be activated on the secure channel it was created on: set_activated(true)
    is reachable only through the edge `session.is_activated() == true` or the edge `session.secure_channel_id() == channel id`
    (otherwise a token learnt on one channel can be activated - and then used - from another)"""
    import json
    r, db = ctx.r, ctx.db
    b = db.body('server::services::session::SessionService::activate_session')
    if b is None:
        r.lost(rule, 'activate_session', 'not found'); return
    F = ctx.facts(b)
    acts = [c for c in b.calls() if c.callee.endswith('Session::set_activated') and F.sym_operand(c.args[1]) == ('k', '1', 'bool')]
    if not acts:
        r.lost(rule, 'set_activated', 'set_activated(true) not found'); return
    def ok_edge(l):
        t = fmt_lit(b, l)
        if re.match(r'^Session::is_activated\(&.*session.*\) == True$', t):
            return True
        if l[0] == 'cmp' and l[1] == 'eq' and 'secure_channel_id' in fmt_sym(b, l[2]) and 'secure_channel_id' in fmt_sym(b, l[3]):
            return True
        return False
    bad_dom = [(bi, si) for bi, blk in enumerate(b.blocks) if not blk['c'] for si, st in enumerate(blk['s'])
               if st[0] == '=' and 'BadSecureChannelIdInvalid' in json.dumps(st[2])]
    probs = []
    if not bad_dom:
        probs.append('BadSecureChannelIdInvalid is never produced')
    for bi, si in bad_dom:
        lits = [fmt_lit(b, l) for l, e in F.literals_at(bi, si)]
        if not (any(re.match(r'^Session::is_activated\(&.*\) == False$', x) for x in lits) and any(' ne ' in x and x.count('secure_channel_id') >= 2 for x in lits)):
            probs.append('the refusal is taken under %s, not under `not yet activated and a different channel`' % [x for x in lits if 'is_activated' in x or 'secure_channel_id' in x])
    # feasibility: with the refusing assignment as the only way to make service_result bad here, the activating call sits under
    # service_result.is_good(); the refusal must therefore dominate nothing of the activation path except through its own edge
    if probs:
        r.fail(rule, 'activate_session', 'a never-activated session is not bound to the secure channel it was created on: ' + '; '.join(probs[:2]), loc=b.loc)
    else:
        r.ok(rule, 'activate_session', 'activation from another secure channel is refused (BadSecureChannelIdInvalid) exactly when the session was never activated', loc=b.loc)


def activation_follows_verdict(ctx, rule='activation-follows-verdict'):
    """"otherwise a ServiceFault is returned": the session's activated flag is what the dispatcher trusts afterwards, so in
    activate_session it must follow the verdict of THIS request - set to true only on the accepted path, and set to false before
    every ServiceFault (a session activated earlier must not stay usable after a re-activation was refused, e.g. with wrong
    credentials over a new channel)."""
    r, db = ctx.r, ctx.db
    b = db.body('server::services::session::SessionService::activate_session')
    if b is None:
        r.lost(rule, 'activate_session', 'not found'); return
    F = ctx.facts(b)
    sets = [(c, fmt_sym(b, F.sym_operand(c.args[1]))) for c in b.calls() if c.callee.endswith('Session::set_activated') and len(c.args) == 2]
    faults = [c for c in b.calls() if c.callee.endswith('Service::service_fault')]
    on = [c for c, v in sets if v in ('1', 'true')]; off = [c for c, v in sets if v in ('0', 'false')]
    other = [v for c, v in sets if v not in ('0', '1', 'true', 'false')]
    if not on or not faults:
        r.lost(rule, 'calls', 'set_activated(true) / service_fault not found in activate_session'); return
    for i, c in enumerate(on):
        lits = [fmt_lit(b, l) for l, e in F.literals_at(c.bb)]
        if any(re.match(r'^status_code::is_good\(&service_result\(_\d+\)\) == True$', x) for x in lits):
            r.ok(rule, 'activate#%d' % i, 'the session is marked activated only when every check of this request passed', loc=c.loc)
        else:
            r.fail(rule, 'activate#%d' % i, 'the session is marked activated on a path where the request\'s checks have not all passed', loc=c.loc)
    for i, c in enumerate(faults):
        after = b.reachable_blocks(c.target, stop={o.bb for o in off}) if c.target is not None else set()
        later = c.target is not None and not any(rb in after and rb not in {o.bb for o in off} for rb in b.return_blocks())
        if any(b.dominates(o.bb, c.bb) for o in off) or (off and later):
            r.ok(rule, 'fault#%d' % i, 'a refused activation leaves the session deactivated', loc=c.loc)
        else:
            r.fail(rule, 'fault#%d' % i, 'activate_session answers with a ServiceFault without set_activated(false): a session activated earlier stays usable after a refused '
                   're-activation, and ordinary services keep being served for its token', loc=c.loc)
    if other:
        r.fail(rule, 'flag-value', 'set_activated is called with a computed value (%s)' % other[0][:60], loc=b.loc)
