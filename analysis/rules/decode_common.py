"""Shared by C02 / C03: the decoder reachable set, the depth-lock rule (E4/W1) and the
allocation-limit rule (E2)."""
import re
from ..rulelib import *
from ..facts import fmt_sym, fmt_lit

DECODE_ROOTS = (r'BinaryEncoder<.*>>::decode$|^<core::comms::tcp_codec::TcpCodec as .*Decoder>::decode$'
                r'|^core::comms::tcp_codec::TcpCodec::decode_message$'
                r'|^core::comms::message_chunk_info::ChunkInfo::new$|^core::comms::chunker::Chunker::decode$'
                r'|SupportedMessage::decode_by_object_id$|ExtensionObject::decode_inner$'
                r'|^types::encoding::read_|^types::encoding::process_decode_io_result$')

ALLOC = re.compile(r'::with_capacity$|^std::vec::from_elem$|::reserve$|::reserve_exact$|::resize$|::with_capacity_in$|^alloc::vec::from_elem$')


def decode_reach(ctx):
    if hasattr(ctx, '_decode_reach'):
        return ctx._decode_reach
    cg = ctx.cg
    roots = cg.instances_matching(DECODE_ROOTS)
    par = cg.reach(roots)
    ctx._decode_reach = (roots, par)
    return roots, par


def size_operand(call):
    name = call.callee
    if name.endswith('from_elem'):
        return call.args[1]
    if name.endswith(('::reserve', '::reserve_exact', '::resize')):
        return call.args[1]
    return call.args[0]


# ------------------------------------------------------------------ W1: depth lock
def locked_call_blocks(ctx, body):
    """blocks of `body` whose terminator executes while a successfully obtained DepthLock is alive"""
    F = ctx.facts(body)
    locks = [c for c in body.calls() if c.callee.endswith('DecodingOptions::depth_lock')]
    if not locks:
        return set(), []
    guard_locals = [i for i, t in enumerate(body.locals) if t == 'types::encoding::DepthLock']
    out = set()
    info = []
    for lc in locks:
        lsym = F.sym_call(lc)
        # edges on which the lock call is known to have succeeded
        edges = edges_where(F, lambda lit: (lit[0] == 'try' and lit[1] == lsym and lit[2]) or
                                            (lit[0] == 'variant' and lit[1] == lsym and lit[2] == 'Ok' and lit[3]))
        for src, dst, lit in edges:
            region = body.reachable_blocks(dst)
            # the guard must still be alive: cut the region at every drop / move-out of a DepthLock local
            dead_at = set()
            for bi in region:
                t = body.term(bi)
                if t[0] == 'drop' and t[1][0] in guard_locals:
                    dead_at.add(bi)
            # where is the guard bound?  (region before the binding is not protected either, but the
            # binding immediately follows the success edge)
            live = body.reachable_blocks(dst, stop=dead_at)
            live -= dead_at
            # the guard must actually be stored in a DepthLock local inside the live region
            bound = False
            for bi in live | dead_at:
                for st in body.stmts(bi):
                    if st[0] == '=' and st[1][0] in guard_locals and not st[1][1]:
                        bound = True
            if not bound:
                continue
            # a block is protected only if it cannot be reached from entry around the success edge
            prot = {bi for bi in live if F.b.edge_dominates((src, dst), bi)}
            out |= prot
            info.append({'lock_call': str(lc.loc), 'success_edge': [src, dst], 'protected_blocks': len(prot)})
    return out, info


def check_recursion(ctx, rule='W1-depth-lock'):
    roots, par = decode_reach(ctx)
    db, cg, r = ctx.db, ctx.cg, ctx.r
    locked = {}   # body id -> set of protected blocks
    lock_sites = []
    for n in par:
        bid = db.instances[n].body_id
        if bid in locked:
            continue
        b = db.bodies[bid]
        blocks, info = locked_call_blocks(ctx, b)
        locked[bid] = blocks
        for i in info:
            i['fn'] = b.path
            lock_sites.append(i)
    def unlocked(e):
        return e.bb not in locked[db.instances[e.src].body_id]
    all_sccs = cg.sccs(par.keys())
    open_sccs = cg.sccs(par.keys(), edge_filter=unlocked)
    r.count('decoder_instances', len(par))
    r.count('decoder_sccs', len(all_sccs))
    r.count('depth_lock_sites', len(lock_sites))
    r.extra['depth_lock_sites'] = lock_sites
    open_keys = set()
    for comp in open_sccs:
        names = sorted({db.instances[i].path for i in comp})
        key = 'scc:' + '|'.join(names)
        if key in open_keys:
            continue
        open_keys.add(key)
        # a witness cycle: pick one unlocked edge inside the component
        inside = set(comp)
        cyc = []
        for i in comp:
            for e in cg.out.get(i, ()):
                if e.dst in inside and unlocked(e):
                    b = db.bodies[db.instances[i].body_id]
                    t = b.term(e.bb)
                    loc = t[6] if t[0] == 'call' else None
                    cyc.append('%s -> %s at %s:%s' % (db.instances[i].path, db.instances[e.dst].path,
                                                      loc['f'] if loc else b.loc.file, loc['l'] if loc else '?'))
        r.fail(rule, key, 'decoder recursion cycle with no call edge under a live depth_lock(): stack depth is driven by the input',
               detail='unlocked cycle edges: ' + '; '.join(sorted(set(cyc))[:6]), loc=db.bodies[db.instances[comp[0]].body_id].loc,
               witness={'members': names, 'edges': sorted(set(cyc))[:10]})
    done = set()
    for comp in all_sccs:
        names = sorted({db.instances[i].path for i in comp})
        key = 'scc:' + '|'.join(names)
        if key in done:
            continue
        done.add(key)
        # an SCC is discharged only if none of its sub-cycles stays open
        sub_open = any(set(c) <= set(comp) for c in open_sccs)
        if not sub_open:
            r.ok(rule, key, 'every cycle of this decoder SCC passes a call edge dominated by a successful, live depth_lock()',
                 loc=db.bodies[db.instances[comp[0]].body_id].loc)
    # the lock itself must bound the depth: obtain() returns Ok only under a comparison with max_depth
    ob = db.find_bodies(r'^types::encoding::DepthLock::obtain$')
    if not ob:
        r.lost(rule, 'DepthLock::obtain', 'DepthLock::obtain not found')
    else:
        b = ob[0]; F = ctx.facts(b)
        oks = result_ctor_sites(b, 'Ok')
        if not oks:
            r.lost(rule, 'DepthLock::obtain:Ok', 'no Ok construction in DepthLock::obtain')
        for bb, si, pl in oks:
            lits = F.literals_at(bb, si)
            good = [l for l, e in lits if l[0] == 'cmp' and l[1] in ('lt', 'le') and mentions_field(l[3], 'max_depth')
                    or l[0] == 'cmp' and l[1] in ('gt', 'ge') and mentions_field(l[2], 'max_depth')]
            # max_depth is copied to a local first
            if not good:
                good = [l for l, e in lits if l[0] == 'cmp' and l[1] in ('lt', 'le', 'gt', 'ge') and
                        ('max_depth' in fmt_lit(b, l))]
            if good:
                r.ok(rule, 'DepthLock::obtain:bounded', 'Ok(lock) only under `%s`' % fmt_lit(b, good[0]), loc=b.loc)
            else:
                r.fail(rule, 'DepthLock::obtain:bounded', 'DepthLock::obtain returns Ok without comparing the depth with max_depth', loc=b.loc)
    return lock_sites


# ------------------------------------------------------------------ allocation limit
def check_allocations(ctx, exact, rule='alloc-limit'):
    """every allocation sized by a non-constant operand in the decoder reachable set is dominated
    by the accepting edge of `size > opts.FIELD` (exact=True: the operator must accept size == limit)"""
    roots, par = decode_reach(ctx)
    db, r = ctx.db, ctx.r
    tab = ctx.table('limits.toml')
    limits = tab['limit']; exempt = tab.get('exempt', [])
    seen_body = set()
    nsites = 0
    matched_limits = set()
    for n in par:
        bid = db.instances[n].body_id
        if bid in seen_body:
            continue
        seen_body.add(bid)
        b = db.bodies[bid]
        for c in b.calls():
            if not ALLOC.search(c.callee):
                continue
            F = ctx.facts(b)
            S = F.sym_operand(size_operand(c))
            if F.const_int(S) is not None:
                continue
            nsites += 1
            key = '%s:%s:%s' % (b.path, c.callee.rsplit('::', 1)[-1], fmt_sym(b, S))
            ex = [e for e in exempt if re.search(e['fn'], b.path)]
            if ex:
                r.ok(rule, key, 'allocation size is not stream-supplied: ' + ex[0]['reason'], status='safe-by-review', loc=c.loc)
                continue
            ent = [l for l in limits if re.search(l['fn'], b.path)]
            if not ent:
                r.fail(rule, key, 'allocation of input-dependent size in a decoder that is not in the limits table (no configured limit can bound it)',
                       detail='size = ' + fmt_sym(b, S), loc=c.loc)
                continue
            ent = ent[0]
            matched_limits.add(ent['fn'])
            field = ent['field']
            def le_edge(lit):
                return lit[0] == 'cmp' and ((lit[1] == 'le' and lit[2] == S and place_ends_with(lit[3], field)) or
                                            (lit[1] == 'ge' and lit[3] == S and place_ends_with(lit[2], field)))
            def lt_edge(lit):
                return lit[0] == 'cmp' and ((lit[1] == 'lt' and lit[2] == S and place_ends_with(lit[3], field)) or
                                            (lit[1] == 'gt' and lit[3] == S and place_ends_with(lit[2], field)))
            def zero_edge(lit):
                return lit[0] == 'cmp' and ((lit[1] in ('le', 'eq') and place_ends_with(lit[2], field) and F.const_int(lit[3]) == 0) or
                                            (lit[1] in ('ge', 'eq') and place_ends_with(lit[3], field) and F.const_int(lit[2]) == 0))
            def any_limit_edge(lit):
                return lit[0] == 'cmp' and lit[1] in ('le', 'lt', 'ge', 'gt') and (lit[2] == S or lit[3] == S) and \
                    ('.max_' in fmt_lit(b, lit))
            le = edges_where(F, le_edge); lt = edges_where(F, lt_edge)
            zero = edges_where(F, zero_edge) if ent['zero_unlimited'] else []
            def alive(edges):
                return [e for e in edges if F.killed_between((e[0], e[1]), c.bb, len(b.stmts(c.bb)), e[2]) is None]
            le, lt, zero = alive(le), alive(lt), alive(zero)
            if le and unreachable_without(b, c.bb, le + zero):
                what = 'allocation dominated by the accepting edge of `size > %s`' % field
                if ent['zero_unlimited']:
                    what += ' (or %s == 0 = unlimited)' % field
                r.ok(rule, key, what, detail=fmt_lit(b, le[0][2]), loc=c.loc)
            elif lt and unreachable_without(b, c.bb, lt + le + zero):
                if exact:
                    r.fail(rule, key, 'limit is enforced with the wrong operator: a length equal to %s is rejected' % field,
                           detail='guard: ' + fmt_lit(b, lt[0][2]), loc=c.loc)
                else:
                    r.ok(rule, key, 'allocation dominated by `size < %s`' % field, detail=fmt_lit(b, lt[0][2]), loc=c.loc)
            else:
                other = edges_where(F, any_limit_edge)
                other = [e for e in other if unreachable_without(b, c.bb, [e])]
                if other:
                    r.fail(rule, key, 'allocation is guarded by a different limit than %s' % field,
                           detail='guard found: ' + fmt_lit(b, other[0][2]), loc=c.loc)
                else:
                    r.fail(rule, key, 'allocation of stream-supplied size is not dominated by a comparison with %s' % field,
                           detail='size = ' + fmt_sym(b, S), loc=c.loc)
                continue
            # negative lengths: the raw signed length must be known non-negative at the allocation
            X = S
            signed = False
            while isinstance(X, tuple) and X[0] == 'cast':
                if X[2].startswith('i'):
                    signed = True
                X = X[1]
            if signed:
                lits = F.literals_at(c.bb)
                m1 = ('k', '-1', 'i32'); z = ('k', '0', 'i32')
                okneg = (F.cmp_holds(lits, 'gt', X, m1) or F.cmp_holds(lits, 'ge', X, z) or
                         (F.cmp_holds(lits, 'ge', X, m1) and F.cmp_holds(lits, 'ne', X, m1)))
                k2 = key + ':nonneg'
                if okneg:
                    r.ok(rule, k2, 'signed length is known to be >= 0 before it is cast to usize', loc=c.loc)
                else:
                    r.fail(rule, k2, 'signed stream length is cast to usize without rejecting negative values', loc=c.loc)
    for l in limits:
        if l['fn'] not in matched_limits:
            r.lost(rule, 'limit:' + l['fn'], 'no allocation site found any more in %s (limit %s)' % (l['fn'], l['field']))
    r.count('allocation_sites', nsites)
    return nsites
