"""C38 Server locks are always taken in one global order (E3)."""
import collections, re
from ..locks import LockAnalysis, short


def class_sccs(g):
    idx = {}; low = {}; st = []; on = set(); res = []; cnt = [0]
    def dfs(v):
        idx[v] = low[v] = cnt[0]; cnt[0] += 1; st.append(v); on.add(v)
        for w in g.get(v, ()):
            if w not in idx:
                dfs(w); low[v] = min(low[v], low[w])
            elif w in on:
                low[v] = min(low[v], idx[w])
        if low[v] == idx[v]:
            comp = []
            while True:
                w = st.pop(); on.discard(w); comp.append(w)
                if w == v:
                    break
            if len(comp) > 1 or v in g.get(v, ()):
                res.append(comp)
    for v in list(g):
        if v not in idx:
            dfs(v)
    return res


def run(ctx):
    r, db, cg = ctx.r, ctx.db, ctx.cg
    r.explanation = ('Lock class = payload type of each parking_lot RwLock/Mutex acquisition (read/write/lock; try_* ignored). A forward '
                     'may-hold dataflow over MIR (guards followed through moves, coroutine state fields, drop flags, explicit drop) gives '
                     'the guards held at every call/drop; each callee contributes its transitive may-acquire summary over the instance '
                     'call graph (calls, dyn dispatch by CHA, closures, Drop impls). Scope: everything reachable from server coroutines '
                     '(async task bodies) and server closures. An edge h->c can block only if c is taken for write or a writer of c exists in '
                     'scope. Verdict: (a) edges among the documented triple respect ServerState -> Session -> AddressSpace; (b) the '
                     'blocking-edge graph is acyclic incl. self edges, after the listed exemptions; (c) no guard is held at a coroutine '
                     'suspension point. Acyclicity of this over-approximation covers every interleaving.')
    r.rule_text = 'E3 lock-order graph: held-set dataflow x transitive acquisition summaries; SCCs of the class graph'
    tab = ctx.table('lock_order.toml')
    order = tab['order']
    exempt = tab.get('exempt', [])
    L = LockAnalysis(ctx)
    roots = [n for n in L.coroutines if db.instances[n].path.startswith('server::')]
    roots += cg.instances_matching(r'^server::.*\{closure#\d+\}$')
    scope = cg.reach(roots)
    edges, across = L.edges(scope.keys())
    in_scope_sites = [(n, bb, c, m) for n, bb, c, m in L.acq_sites if n in scope]
    writers = {c for n, bb, c, m in in_scope_sites if m == 'write'}
    r.count('acquisition_sites_total', len(L.acq_sites))
    r.count('acquisition_sites_in_scope', len(in_scope_sites))
    r.count('lock_classes', len({c for _, _, c, _ in in_scope_sites}))
    r.count('task_roots', len(roots))
    r.count('scope_instances', len(scope))
    r.count('order_edges_raw', len(edges))
    r.floor('lock-order', 'acquisition_sites_in_scope', len(in_scope_sites), 180)
    r.floor('lock-order', 'lock_classes', r.counts['lock_classes'], 12)

    def ekey(h, c, s):
        return 'edge:%s|%s->%s' % (s['fn'], short(h[0]), short(c[0]))

    def is_exempt(h, c, s):
        for e in exempt:
            if e['fn'] == s['fn'] and e['held'] == h[0] and e['acquired'] == c[0]:
                return e
        return None

    blocking = [(h, c, s) for h, c, s in edges if c[1] == 'write' or c[0] in writers]
    r.count('order_edges_blocking', len(blocking))
    # (a) documented order
    rank = {c: i for i, c in enumerate(order)}
    seen = set()
    n_doc = 0
    for h, c, s in blocking:
        if h[0] in rank and c[0] in rank:
            k = ekey(h, c, s)
            if k in seen:
                continue
            seen.add(k)
            n_doc += 1
            if rank[h[0]] < rank[c[0]]:
                r.ok('documented-order', k, '%s before %s as documented' % (short(h[0]), short(c[0])), loc=s['at'])
            elif h[0] == c[0]:
                pass   # self edges are judged under (b)
            else:
                ex = is_exempt(h, c, s)
                if ex:
                    r.ok('documented-order', k, 'exempted: ' + ex['reason'], status='safe-by-review', loc=s['at'])
                else:
                    r.fail('documented-order', k, '%s is acquired while %s is held: against the documented order ServerState -> Session -> AddressSpace'
                           % (short(c[0]), short(h[0])), detail='in %s via %s' % (s['fn'], s['via']), loc=s['at'], witness=s)
    r.floor('documented-order', 'documented_class_edges', n_doc, 30)
    # (b) acyclicity of what remains
    remaining = []
    removed_keys = set()
    for h, c, s in blocking:
        k = ekey(h, c, s)
        if is_exempt(h, c, s):
            removed_keys.add(k); continue
        if k in r.known:
            removed_keys.add(k); continue
        # edges already reported under (a) as violations stay in the graph unless listed as known findings
        remaining.append((h, c, s))
    for k in removed_keys:
        if k in r.known and not any(o.key == k for o in r.obls):
            r.fail('lock-cycle', k, 'listed lock-order finding is still present')
    g = collections.defaultdict(set)
    for h, c, s in remaining:
        g[h[0]].add(c[0])
    comps = class_sccs(g)
    r.count('class_graph_nodes', len(g))
    if not comps:
        r.ok('lock-cycle', 'acyclic', 'the blocking lock-order graph over %d classes and %d distinct edges is acyclic' % (len(g), sum(len(v) for v in g.values())))
    for comp in comps:
        cs = set(comp)
        inner = {}
        for h, c, s in remaining:
            if h[0] in cs and c[0] in cs:
                inner.setdefault(ekey(h, c, s), (h, c, s))
        # report every edge of the cycle that is not already judged by (a)
        for k, (h, c, s) in sorted(inner.items()):
            if any(o.key == k and o.status == 'violation' for o in r.obls):
                continue
            r.fail('lock-cycle', k, 'lock-order cycle among {%s}: %s(%s) held while %s(%s) is acquired' % (
                ', '.join(sorted(short(x) for x in comp)), short(h[0]), h[1], short(c[0]), c[1]),
                detail='in %s via %s' % (s['fn'], s['via']), loc=s['at'], witness=s)
    # (c) guards across await
    for n, bi, h in across:
        inst = db.instances[n]
        r.fail('guard-across-await', 'await:%s|%s' % (inst.path, short(h[1])), 'a %s lock guard may be held across an .await' % short(h[1]), loc=db.bodies[inst.body_id].loc)
    if not across:
        r.ok('guard-across-await', 'none', 'no lock guard is held at any coroutine suspension point (%d coroutines)' % len(L.coroutines))
    r.assumptions += ['user supplied callbacks (method handlers, attribute getters/setters, polling actions) take no server locks',
                      'parking_lot locks only; std/tokio synchronisation is not used for shared server objects',
                      'try_read/try_write/try_lock never block and are ignored']
