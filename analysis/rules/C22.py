"""C22 Keep-alives keep flowing and idle subscriptions expire on time (E5: timer-expiry totality)."""
import re
from ..paths import enumerate_paths
from ..facts import fmt_sym


def run(ctx):
    r, db = ctx.r, ctx.db
    r.explanation = ('Subscription::update_state is a loop-free decision procedure over booleans, the subscription state and two counter '
                     'comparisons. All consistent abstract paths to the fall-through result HandledState::None0 are enumerated; none may '
                     'have publishing_timer_expired == true in state Normal, Late or KeepAlive, because an unhandled timer expiry neither '
                     'restarts the publishing timer, nor counts down the keep-alive / lifetime counters (keep-alives stop, the '
                     'subscription never expires). Also: every row taken on timer expiry without a queued publish request decrements the lifetime counter. Interval counts and timer slack are not decided.')
    r.rule_text = 'E5 exhaustive abstract path enumeration over the MIR CFG of Subscription::update_state'
    rule = 'timer-expiry-totality'
    b = db.body('server::subscriptions::subscription::Subscription::update_state')
    if b is None:
        r.lost(rule, 'update_state', 'Subscription::update_state not found'); return
    F = ctx.facts(b)
    none0 = []
    rows = {}
    for bi, blk in enumerate(b.blocks):
        if blk['c']:
            continue
        for st in blk['s']:
            if st[0] == '=' and st[2][0] == 'agg' and st[2][2].endswith('HandledState'):
                if st[2][3] == 'None0':
                    none0.append(bi)
                else:
                    rows[bi] = st[2][3]
    if len(none0) != 1:
        r.lost(rule, 'None0', 'expected one fall-through HandledState::None0 construction, found %d' % len(none0)); return
    r.count('handled_rows', len(rows))
    r.floor(rule, 'handled_rows', len(rows), 16)

    def pretty(env):
        d = {}
        for k, v in env.items():
            name = ('discr(%s)' % fmt_sym(b, k[1])) if k[0] == 'discr' else (('%s == %s' % (fmt_sym(b, k[1]), fmt_sym(b, k[2]))) if k[0] == 'eqv' else fmt_sym(b, k))
            if 'log::' in name or 'Level::' in name or re.fullmatch(r'_\d+', name):
                continue
            d[name] = v
        return d

    def counters_ok(env, atom, val):
        # keep_alive_counter == 1 and > 1 cannot both hold
        return True

    n = 0; bad = {}
    for env in enumerate_paths(F, none0):
        n += 1
        d = pretty(env)
        expired = d.get('p(_3).publishing_timer_expired') if 'p(_3).publishing_timer_expired' in d else next((v for k, v in d.items() if k.endswith('.publishing_timer_expired')), None)
        state = next((v for k, v in d.items() if k.startswith('discr(') and k.endswith('.state)')), None)
        kac1 = next((v for k, v in d.items() if 'keep_alive_counter Eq 1' in k), None)
        kacg = next((v for k, v in d.items() if 'keep_alive_counter Gt 1' in k), None)
        if kac1 is True and kacg is True:
            continue   # inconsistent counter facts
        if kac1 is False and kacg is False:
            continue   # counter == 0 is not a reachable value (it is reset to max >= 1 and only decremented when > 1)
        if expired is True and state and state[0] == 'is' and state[1] in ('Normal', 'Late', 'KeepAlive'):
            key_items = sorted((k.split('.')[-1].replace(')', ''), str(v)) for k, v in d.items() if not k.startswith('discr(') and 'tick_reason' not in k)
            key = 'unhandled:%s:%s' % (state[1], ','.join('%s=%s' % kv for kv in key_items))
            bad.setdefault(key, d)
    r.count('paths_to_None0', n)
    r.floor(rule, 'paths_to_None0', n, 20)
    if not bad:
        r.ok(rule, 'None0', 'no consistent path reaches the fall-through with an expired publishing timer in Normal/Late/KeepAlive (%d abstract paths enumerated)' % n, loc=b.loc)
    for key, d in sorted(bad.items())[:12]:
        r.fail(rule, key, 'a publishing-timer expiry falls through update_state unhandled: the timer is not restarted and no counter advances', detail=str(d)[:400], loc=b.loc, witness={'abstract_input': {k: str(v) for k, v in d.items()}})
    # rows taken when the timer expires while NO publish request is queued must count the lifetime down
    # (start_publishing_timer decrements the lifetime counter) - otherwise an abandoned subscription never expires
    rule2 = 'idle-rows-count-down'
    starts = {c.bb for c in b.calls() if c.callee.endswith('Subscription::start_publishing_timer')}
    m = 0
    for bi, name in sorted(rows.items(), key=lambda kv: kv[1]):
        lits = F.literals_at(bi, 0)
        exp = any(l[0] == 'truth' and l[2] is True and fmt_sym(b, l[1]).endswith('.publishing_timer_expired') for l, e in lits)
        idle = any(l[0] == 'truth' and l[2] is False and fmt_sym(b, l[1]).endswith('.publishing_req_queued') for l, e in lits)
        if not (exp and idle):
            continue
        m += 1
        if any(b.dominates(s_, bi) for s_ in starts) or 'Closed' in name:
            r.ok(rule2, 'row:' + name, 'row %s (timer expired, no publish request queued) decrements the lifetime counter' % name, loc=b.loc)
        else:
            r.fail(rule2, 'row:' + name, 'row %s handles an expired timer without a queued publish request but does not count the lifetime down: an abandoned subscription would never expire' % name, loc=b.loc)
    r.floor(rule2, 'idle_timer_rows', m, 2)
    decision_table_rules(ctx)
    from .substate import tick_wiring
    tick_wiring(ctx)
    r.assumptions += ['keep_alive_counter is never 0 (reset to max_keep_alive_count >= 1, decremented only when > 1)']


def decision_table_rules(ctx):
    """rules over the enumerated decision table of update_state (substate.rows_of)"""
    from .substate import rows_of, compatible, state_is, describe
    r = ctx.r
    rows = rows_of(ctx)
    if not rows:
        r.lost('decision-table', 'update_state', 'decision table of update_state could not be enumerated'); return
    r.count('decision_paths', len(rows))
    r.floor('decision-table', 'decision_paths', len(rows), 300)
    loc = ctx.db.body('server::subscriptions::subscription::Subscription::update_state').loc
    def report(rule, key, bad, good_text, bad_text):
        if bad:
            seen = set()
            for row in bad:
                k = '%s:%s' % (key, row['row'])
                if k in seen:
                    continue
                seen.add(k)
                r.fail(rule, k, bad_text % row['row'], detail=describe(row), loc=loc, witness={'abstract_input': {a: str(v) for a, v in row['inputs'].items()}})
        else:
            r.ok(rule, key, good_text, loc=loc)
    # (A) a row that consumes a publish request (answers it with a keep-alive or with notifications) proves the client is alive
    consumed = [x for x in rows if x['action'] in ('ReturnKeepAlive', 'ReturnNotifications')]
    bad = [x for x in consumed if 'reset_lifetime_counter' not in x['effects']]
    report('request-consumed-resets-lifetime', 'rows', bad,
           'all %d paths that answer a publish request reset the lifetime counter' % len(consumed),
           'row %s answers a publish request without resetting the lifetime counter: a subscription whose client keeps sending publish requests still expires')
    # (B) keep-alive cadence in the KeepAlive state
    idle = [x for x in rows if state_is(x, 'KeepAlive') and x['inputs'].get('state', ('is', 'KeepAlive'))[0] == 'is' and compatible(x, timer_expired=True, receive_publish_request=False) and
            x['inputs'].get('lifetime_is_1') is not True and (compatible(x, publishing_enabled=False) or compatible(x, notifications_available=False)) and
            not (x['inputs'].get('publishing_enabled') is True and x['inputs'].get('notifications_available') is True)]
    due = [x for x in idle if compatible(x, req_queued=True, keep_alive_is_1=True) and x['inputs'].get('keep_alive_gt_1') is not True and x['inputs'].get('req_queued') is True and x['inputs'].get('keep_alive_is_1') is True]
    bad = [x for x in due if not (x['action'] == 'ReturnKeepAlive' and 'reset_keep_alive_counter' in x['effects'])]
    report('keep-alive-cadence', 'due', bad,
           'KeepAlive, timer expired, request queued, counter == 1, nothing to report: %d paths all send a keep-alive and reset the counter' % len(due),
           'a keep-alive is due (KeepAlive state, counter == 1, publish request queued, nothing to report) but the path ends in row %s without sending it / resetting the counter')
    cnt = [x for x in idle if x['inputs'].get('keep_alive_gt_1') is True]
    bad = [x for x in cnt if not (x['keep_alive_decremented'] and 'start_publishing_timer' in x['effects'] and x['action'] == 'None')]
    report('keep-alive-cadence', 'countdown', bad,
           'KeepAlive, timer expired, counter > 1, nothing to report: %d paths all decrement the counter and restart the timer' % len(cnt),
           'KeepAlive state with counter > 1 and nothing to report ends in row %s without counting the keep-alive counter down')
    if not due or not cnt:
        r.lost('keep-alive-cadence', 'paths', 'keep-alive rows (#15 / #16) not found among the enumerated paths')
    # (B0) the first keep-alive: Normal, nothing sent yet, request queued, nothing to report -> keep-alive after the first interval
    first = [x for x in rows if x['inputs'].get('state') == ('is', 'Normal') and x['inputs'].get('timer_expired') is True and x['inputs'].get('req_queued') is True and
             x['inputs'].get('message_sent') is False and x['inputs'].get('lifetime_is_1') is not True and
             not (x['inputs'].get('publishing_enabled') is True and x['inputs'].get('notifications_available') is True) and
             (x['inputs'].get('publishing_enabled') is False or x['inputs'].get('notifications_available') is False)]
    bad = [x for x in first if x['action'] != 'ReturnKeepAlive']
    report('keep-alive-cadence', 'first', bad,
           'Normal, first interval elapsed, request queued, nothing sent yet and nothing to report: %d paths all send the first keep-alive' % len(first),
           'the first publishing interval of an idle subscription ends in row %s without a keep-alive')
    if not first:
        r.lost('keep-alive-cadence', 'first:paths', 'row #7 paths not found')
    # (C) a timer expiry that consumes no publish request counts the lifetime down (start_publishing_timer decrements it)
    tm = [x for x in rows if x['inputs'].get('timer_expired') is True and x['inputs'].get('state', ('not',))[0] == 'is' and x['inputs']['state'][1] in ('Normal', 'Late', 'KeepAlive')
          and x['action'] == 'None' and x['row'] not in ('None0', 'Closed27')]
    bad = [x for x in tm if 'start_publishing_timer' not in x['effects']]
    report('timer-without-request-counts-down', 'rows', bad,
           '%d timer-expiry paths that answer nothing all restart the publishing timer (lifetime counts down)' % len(tm),
           'row %s handles a timer expiry without answering a request and without start_publishing_timer: the lifetime does not count down')
