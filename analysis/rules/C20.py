"""C20 Session activation authenticates the user exactly as configured (E2)."""
import re
from ..rulelib import *
from ..facts import fmt_sym, fmt_lit

SS = r'^server::state::ServerState::'


def lits_txt(b, lits):
    return [fmt_lit(b, l) for l, e in lits]


def run(ctx):
    r, db = ctx.r, ctx.db
    r.explanation = ('Every Ok of the three token authenticators is dominated by the edges that make it legitimate: anonymous - policy id '
                     'equality and supports_anonymous; user name - supports_user_pass, policy id equality, non-null user, configured '
                     'user-pass token with equal user name and the `valid` password flag, whose two definitions compare the configured '
                     'password with the token password, which is either plaintext or decrypt_user_identity_token_password(token, '
                     'server_nonce, key) with the nonce handed in by activate_session = session.session_nonce(); X.509 - supports_x509, '
                     'policy id equality, verify_x509_identity_token result feeding and_then, thumbprint equality. activate_session '
                     'activates only under service_result.is_good() and stores a fresh random nonce.')
    r.rule_text = 'E2 guard dominance / argument provenance over MIR of server::state and services::session'
    rule = 'authenticator-guards'
    # ---------------- anonymous
    bs = db.find_bodies(SS + r'authenticate_anonymous_token$')
    if not bs:
        r.lost(rule, 'anonymous', 'authenticate_anonymous_token not found')
    else:
        b = bs[0]; F = ctx.facts(b)
        oks = result_ctor_sites(b, 'Ok')
        if not oks:
            r.lost(rule, 'anonymous:Ok', 'no Ok construction')
        for bb, si, pl in oks:
            t = lits_txt(b, F.literals_at(bb, si))
            pol = any('policy_id' in x and 'POLICY_ID_ANONYMOUS' in x.upper().replace('"', '') or ('policy_id' in x and ' eq ' in x and 'anonymous' in x.lower()) for x in t)
            if not pol:
                pol = any('policy_id' in x and (' eq ' in x or x.endswith('== False')) and 'ne(' in x or ('policy_id' in x and ' eq ' in x) for x in t)
            sup = any('supports_anonymous' in x and x.endswith('== True') for x in t)
            if pol and sup:
                r.ok(rule, 'anonymous:Ok', 'Ok only with the anonymous policy id on an endpoint that supports anonymous', loc=b.loc)
            else:
                r.fail(rule, 'anonymous:Ok', 'anonymous token accepted without %s' % ('the policy id check' if not pol else 'supports_anonymous()'), loc=b.loc)
    # ---------------- user name
    bs = db.find_bodies(SS + r'authenticate_username_identity_token$')
    if not bs:
        r.lost(rule, 'username', 'authenticate_username_identity_token not found')
    else:
        b = bs[0]; F = ctx.facts(b)
        oks = result_ctor_sites(b, 'Ok')
        if not oks:
            r.lost(rule, 'username:Ok', 'no Ok construction')
        for bb, si, pl in oks:
            lits = F.literals_at(bb, si)
            t = lits_txt(b, lits)
            need = {
                'supports_user_pass': any('supports_user_pass' in x and x.endswith('== True') for x in t),
                'policy id equality': any('policy_id' in x and 'user_pass_security_policy_id' in x and (' eq ' in x) for x in t),
                'non-null user name': any('user_name' in x and 'is_null' in x and x.endswith('== False') for x in t),
                'configured user/pass token': any('is_user_pass' in x and x.endswith('== True') for x in t),
                'user name equality': any('.user' in x and 'user_name' in x and ' eq ' in x for x in t),
                'password valid flag': any(l[0] == 'truth' and l[2] is True and l[1][0] == 'place' and b.local_name(l[1][1]).startswith('valid') for l, e in lits),
            }
            missing = [k for k, v in need.items() if not v]
            if missing:
                r.fail(rule, 'username:Ok', 'user name token accepted without: ' + ', '.join(missing), loc=b.loc)
            else:
                r.ok(rule, 'username:Ok', 'Ok only after all six user-name checks', loc=b.loc)
        # the authenticated id must come from the endpoint's own user list
        for bb, si, pl in oks:
            src = loop_source_of(b, F, F.sym_operand(b.stmts(bb)[si][2][4][0]))
            if src and 'endpoint' in src and 'user_token_ids' in src:
                r.ok(rule, 'username:candidates', 'candidate users are taken from endpoint.user_token_ids', detail=src, loc=b.loc)
            else:
                r.fail(rule, 'username:candidates', 'the authenticated user id is not drawn from the endpoint\'s user_token_ids (iterates %s)' % src, loc=b.loc)
        # definitions of `valid`
        vloc = b.local_by_name('valid')
        defs = []
        for l in vloc:
            for d in b.defs().get(l, []):
                if d[0] == 'stmt':
                    defs.append(fmt_sym(b, F.sym_rvalue(d[3], 0)))
                elif d[0] == 'call':
                    defs.append(fmt_sym(b, F.sym_call(d[2])))
        good_defs = [d for d in defs if 'token_password' in d and ('is_empty' in d or ('pass' in d and ('eq' in d.lower())))]
        if len(defs) == 2 and len(good_defs) == 2:
            r.ok(rule, 'username:valid-defs', '`valid` is token_password.is_empty() for an empty configured password, else byte equality with the configured password', loc=b.loc)
        else:
            r.fail(rule, 'username:valid-defs', 'the password validity flag is not defined by comparing the token password with the configured password', detail=str(defs)[:300], loc=b.loc)
        dec = [c for c in b.calls() if c.callee.endswith('decrypt_user_identity_token_password')]
        if len(dec) != 1:
            r.lost(rule, 'username:decrypt', 'expected one decrypt_user_identity_token_password call')
        else:
            a1 = fmt_sym(b, F.sym_operand(dec[0].args[1]))
            if 'server_nonce' in a1:
                r.ok(rule, 'username:nonce-arg', 'the password is decrypted against the server_nonce parameter', loc=dec[0].loc)
            else:
                r.fail(rule, 'username:nonce-arg', 'the encrypted password is not bound to the server nonce parameter', detail=a1, loc=dec[0].loc)
    # ---------------- x509
    bs = db.find_bodies(SS + r'authenticate_x509_identity_token$')
    if not bs:
        r.lost(rule, 'x509', 'authenticate_x509_identity_token not found')
    else:
        b = bs[0]; F = ctx.facts(b)
        at = [c for c in b.calls() if c.callee.endswith('Result::and_then')]
        if len(at) != 1:
            r.lost(rule, 'x509:and_then', 'expected result.and_then(..)')
        else:
            t = lits_txt(b, F.literals_at(at[0].bb))
            sup = any('supports_x509' in x and x.endswith('== True') for x in t)
            pol = any('policy_id' in x and ' eq ' in x for x in t)
            # the receiver of and_then: every definition is an Err or the verify call
            recv = at[0].args[0]
            root = recv[1][0]
            for _ in range(6):
                ds = b.defs().get(root, [])
                if len(ds) == 1 and ds[0][0] == 'stmt' and ds[0][3][0] == 'use' and ds[0][3][1][0] in ('cp', 'mv') and not ds[0][3][1][1][1]:
                    root = ds[0][3][1][1][0]
                else:
                    break
            srcs = []
            for d in b.defs().get(root, []):
                if d[0] == 'call':
                    srcs.append(d[2].callee.rsplit('::', 1)[-1])
                elif d[0] == 'stmt':
                    rv = d[3]
                    srcs.append('Err' if (rv[0] == 'agg' and rv[3] == 'Err') else fmt_sym(b, F.sym_rvalue(rv, 0))[:60])
            only = all(s in ('Err', 'verify_x509_identity_token') for s in srcs) and 'verify_x509_identity_token' in srcs
            oks_main = result_ctor_sites(b, 'Ok')
            if sup and pol and only and not oks_main:
                r.ok(rule, 'x509:verify-feeds-result', 'the function result is verify_x509_identity_token(..).and_then(thumbprint lookup) under supports_x509 and the policy id check', loc=at[0].loc)
            else:
                r.fail(rule, 'x509:verify-feeds-result', 'X.509 token can be accepted without signature verification (sources of result: %s, supports=%s, policy=%s, direct Ok=%d)' % (srcs, sup, pol, len(oks_main)), loc=at[0].loc)
            va = [c for c in b.calls() if c.callee.endswith('verify_x509_identity_token')]
            if va and 'server_nonce' in fmt_sym(b, F.sym_operand(va[0].args[4])):
                r.ok(rule, 'x509:nonce-arg', 'the token signature is verified against the server_nonce parameter', loc=va[0].loc)
            else:
                r.fail(rule, 'x509:nonce-arg', 'the X.509 token signature is not bound to the server nonce', loc=b.loc)
        cl = db.find_bodies(SS + r'authenticate_x509_identity_token(::\{closure#\d+\})*$')
        done = False
        for cb in cl:
            Fc = ctx.facts(cb)
            for bb, si, pl in result_ctor_sites(cb, 'Ok'):
                t = lits_txt(cb, Fc.literals_at(bb, si))
                done = True
                src = loop_source_of(cb, Fc, Fc.sym_operand(cb.stmts(bb)[si][2][4][0]))
                if not (src and 'endpoint' in src and 'user_token_ids' in src):
                    r.fail(rule, 'x509:candidates', 'the authenticated X.509 user id is not drawn from the endpoint\'s user_token_ids (iterates %s)' % src, loc=cb.loc)
                else:
                    r.ok(rule, 'x509:candidates', 'candidate users are taken from endpoint.user_token_ids', loc=cb.loc)
                if any('thumbprint' in x and (' eq ' in x or ('eq(' in x and x.endswith('== True'))) for x in t):
                    r.ok(rule, 'x509:thumbprint', 'Ok(user) only when the certificate thumbprint equals a configured one', loc=cb.loc)
                else:
                    r.fail(rule, 'x509:thumbprint', 'X.509 identity accepted without the thumbprint equality', loc=cb.loc)
        if not done:
            r.lost(rule, 'x509:thumbprint', 'no Ok construction in the thumbprint lookup closure')
    # ---------------- activate_session
    rule = 'activation'
    bs = db.find_bodies(r'^server::services::session::SessionService::activate_session$')
    if not bs:
        r.lost(rule, 'activate_session', 'not found')
    else:
        b = bs[0]; F = ctx.facts(b)
        for c in b.calls():
            if c.callee.endswith('Session::set_activated'):
                a = F.sym_operand(c.args[1])
                if a == ('k', '1', 'bool'):
                    t = lits_txt(b, F.literals_at(c.bb))
                    if any('is_good' in x and 'service_result' in x and x.endswith('== True') for x in t):
                        r.ok(rule, 'set_activated(true)', 'the session is activated only under service_result.is_good()', loc=c.loc)
                    else:
                        r.fail(rule, 'set_activated(true)', 'the session is activated without service_result being good', loc=c.loc)
        ae = [c for c in b.calls() if c.callee.endswith('ServerState::authenticate_endpoint')]
        if len(ae) != 1:
            r.lost(rule, 'authenticate_endpoint', 'expected one call')
        else:
            last = fmt_sym(b, F.sym_operand(ae[0].args[-1]))
            if 'session_nonce' in last:
                r.ok(rule, 'nonce-binding', 'credentials are checked against session.session_nonce() (the nonce of the previous response)', loc=ae[0].loc)
            else:
                r.fail(rule, 'nonce-binding', 'authenticate_endpoint is not given the session\'s current nonce', detail=last, loc=ae[0].loc)
        sn = [c for c in b.calls() if c.callee.endswith('Session::set_session_nonce')]
        resp = [bi for bi, blk in enumerate(b.blocks) if not blk['c'] for st in blk['s']
                if st[0] == '=' and st[2][0] == 'agg' and str(st[2][2]).endswith('ActivateSessionResponse')]
        if not resp:
            r.lost(rule, 'response', 'ActivateSessionResponse construction not found')
        if len(sn) == 1 and 'random_nonce' in fmt_sym(b, F.sym_operand(sn[0].args[1])) and resp and all(b.dominates(sn[0].bb, bi) for bi in resp):
            r.ok(rule, 'fresh-nonce', 'a fresh random nonce is stored on every path to the ActivateSessionResponse', loc=sn[0].loc)
        else:
            r.fail(rule, 'fresh-nonce', 'a successful activation can be answered without a fresh random nonce having been stored in the session (the store is missing or conditional): a password encrypted for the previous nonce can be replayed', loc=b.loc)
    r.floor('C20', 'obligations', len(r.obls), 12)
