"""C29 Deleting a node terminates (E4 witness W2: strictly consumed key)."""
import re
from ..rulelib import *
from ..facts import fmt_sym, fmt_lit


def run(ctx):
    r, db, cg = ctx.r, ctx.db, ctx.cg
    r.explanation = ('Termination clause only: every call-graph cycle through AddressSpace::delete must be entered through an edge '
                     'that is dominated by the success edge (Option::is_some / Some) of a removal of the current key from a map '
                     'field of the address space (HashMap::remove(&mut self.node_map, node_id)), so that each recursion level '
                     'strictly shrinks a finite map. "No dangling references" is not decided.')
    r.rule_text = 'instance SCCs containing AddressSpace::delete x dominance of the recursive edge by a successful map removal'
    rule = 'W2-consumed-key'
    roots = cg.instances_matching(r'^server::address_space::address_space::AddressSpace::delete$')
    if not roots:
        r.lost(rule, 'AddressSpace::delete', 'AddressSpace::delete not found'); return
    par = cg.reach(roots)
    sccs = [c for c in cg.sccs(par.keys()) if any(n in c for n in roots)]
    r.count('delete_sccs', len(sccs))
    if not sccs:
        r.ok(rule, 'AddressSpace::delete:non-recursive', 'AddressSpace::delete is not recursive', loc=db.instances[roots[0]].path)
        return
    comp = set(sccs[0])
    names = sorted(db.instances[i].path for i in comp)
    root = roots[0]
    b = db.bodies[db.instances[root].body_id]
    F = ctx.facts(b)
    # edges leaving the root into its SCC (direct self call, or construction of the closure that calls back)
    back = [e for e in cg.out.get(root, ()) if e.dst in comp]
    bad = []
    good = []
    for e in back:
        lits = F.literals_at(e.bb)
        w = None
        for lit, edge in lits:
            if lit[0] == 'variant' and lit[2] == 'Some' and lit[3]:
                x = lit[1]
                if x[0] == 'call' and re.search(r'(HashMap|BTreeMap|HashSet|BTreeSet)::remove$', x[1]):
                    a0 = x[2][0] if x[2] else None
                    recv_ok = a0 is not None and fmt_sym(b, a0).startswith('&') and '(*self' in fmt_sym(b, a0)
                    key_ok = any(isinstance(a, tuple) and 'node_id' in fmt_sym(b, a) for a in x[2][1:])
                    if recv_ok and key_ok:
                        w = lit
        t = b.term(e.bb)
        where = '%s:%s' % (t[6]['f'], t[6]['l']) if t[0] == 'call' else '%s:%s' % (b.loc.file, (b.stmts(e.bb)[-1][3] if b.stmts(e.bb) else '?'))
        if w is None:
            bad.append((e, where))
        else:
            good.append((e, where, w))
    key = 'scc:' + '|'.join(names)
    if bad:
        r.fail(rule, key, 'AddressSpace::delete recurses without first consuming its key: a cycle of aggregate references recurses forever',
               detail='recursive edge(s) not dominated by a successful self.<map>.remove(node_id): ' + ', '.join(w for _, w in bad),
               loc=b.loc, witness={'members': names})
    else:
        r.ok(rule, key, 'every recursive edge of AddressSpace::delete is dominated by `%s`' % fmt_lit(b, good[0][2]), loc=b.loc)
    # members other than the root and its closures would need their own witness
    extra = [n for n in names if not n.startswith(db.instances[root].path)]
    if extra:
        r.fail(rule, key + ':extra', 'recursion cycle through functions without a termination witness: ' + ', '.join(extra), loc=b.loc)
