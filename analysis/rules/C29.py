"""C29 Deleting a node terminates (E4 witness W2: strictly consumed key)."""
import re
from ..rulelib import *
from ..facts import fmt_sym, fmt_lit


def run(ctx):
    r, db, cg = ctx.r, ctx.db, ctx.cg
    r.explanation = ('Termination clause only: every call-graph cycle through AddressSpace::delete must be entered through an edge '
                     'that is dominated by the success edge (Option::is_some / Some) of a removal of the current key from a map '
                     'field of the address space (HashMap::remove(&mut self.node_map, node_id)), so that each recursion level '
                     'strictly shrinks a finite map. "No dangling references" is not decided.')
    r.rule_text = 'instance SCCs containing AddressSpace::delete x dominance of the recursive edge by a successful map removal'
    rule = 'W2-consumed-key'
    roots = cg.instances_matching(r'^server::address_space::address_space::AddressSpace::delete$')
    if not roots:
        r.lost(rule, 'AddressSpace::delete', 'AddressSpace::delete not found'); return
    par = cg.reach(roots)
    sccs = [c for c in cg.sccs(par.keys()) if any(n in c for n in roots)]
    r.count('delete_sccs', len(sccs))
    if not sccs:
        r.ok(rule, 'AddressSpace::delete:non-recursive', 'AddressSpace::delete is not recursive', loc=db.instances[roots[0]].path)
        return
    comp = set(sccs[0])
    names = sorted(db.instances[i].path for i in comp)
    root = roots[0]
    b = db.bodies[db.instances[root].body_id]
    F = ctx.facts(b)
    # edges leaving the root into its SCC (direct self call, or construction of the closure that calls back)
    back = [e for e in cg.out.get(root, ()) if e.dst in comp]
    bad = []
    good = []
    for e in back:
        lits = F.literals_at(e.bb)
        w = None
        for lit, edge in lits:
            if lit[0] == 'variant' and lit[2] == 'Some' and lit[3]:
                x = lit[1]
                if x[0] == 'call' and re.search(r'(HashMap|BTreeMap|HashSet|BTreeSet)::remove$', x[1]):
                    a0 = x[2][0] if x[2] else None
                    recv_ok = a0 is not None and fmt_sym(b, a0).startswith('&') and '(*self' in fmt_sym(b, a0)
                    key_ok = any(isinstance(a, tuple) and 'node_id' in fmt_sym(b, a) for a in x[2][1:])
                    if recv_ok and key_ok:
                        w = lit
        t = b.term(e.bb)
        where = '%s:%s' % (t[6]['f'], t[6]['l']) if t[0] == 'call' else '%s:%s' % (b.loc.file, (b.stmts(e.bb)[-1][3] if b.stmts(e.bb) else '?'))
        if w is None:
            bad.append((e, where))
        else:
            good.append((e, where, w))
    key = 'scc:' + '|'.join(names)
    if bad:
        r.fail(rule, key, 'AddressSpace::delete recurses without first consuming its key: a cycle of aggregate references recurses forever',
               detail='recursive edge(s) not dominated by a successful self.<map>.remove(node_id): ' + ', '.join(w for _, w in bad),
               loc=b.loc, witness={'members': names})
    else:
        r.ok(rule, key, 'every recursive edge of AddressSpace::delete is dominated by `%s`' % fmt_lit(b, good[0][2]), loc=b.loc)
    # members other than the root and its closures would need their own witness
    extra = [n for n in names if not n.startswith(db.instances[root].path)]
    if extra:
        r.fail(rule, key + ':extra', 'recursion cycle through functions without a termination witness: ' + ', '.join(extra), loc=b.loc)
    cleanup_complete(ctx)
    # deletion finds the neighbours to clean through the inverse index: it must not lose entries while references remain
    from .C28 import inverse_only_when_unreferenced
    inverse_only_when_unreferenced(ctx)


def cleanup_complete(ctx, rule='reference-cleanup-complete'):
    """no dangling references, structural part: when a node's references are deleted, the neighbours' forward lists are
    cleaned with a retain over the whole list whose predicate compares the target with the deleted node (not a first-match
    removal), the neighbours' inverse sets lose the deleted node, and both the forward list and the inverse set of the
    deleted node itself are removed"""
    r, db = ctx.r, ctx.db
    R = 'server::address_space::references::References::'
    hb = [b for b in db.find_bodies(r'^' + re.escape(R) + r'remove_node_from_referenced_nodes(::\{closure#\d+\})*$')]
    if not hb:
        r.lost(rule, 'helper', 'remove_node_from_referenced_nodes not found'); return
    calls = [(b, c) for b in hb for c in b.calls()]
    short = [c for b, c in calls if re.search(r'Iterator::(position|find|take|next|nth)$|Vec::(remove|swap_remove|pop|truncate)$', c.callee)]
    retains = [c for b, c in calls if c.callee.endswith('Vec::retain')]
    setrem = [c for b, c in calls if re.search(r'HashSet::remove$', c.callee)]
    n = 0
    if short or len(retains) != 1:
        r.fail(rule, 'forward-lists', 'the forward lists of the neighbours are not cleaned with a single retain over the whole list (%s): a second reference of another '
               'type to the deleted node stays behind' % ([c.callee.rsplit('::', 1)[-1] for c in short] or 'retain calls: %d' % len(retains)), loc=hb[0].loc)
    else:
        # predicate: target_node != node_to_remove
        preds = [b for b in hb if b.locals[0] == 'bool']
        okp = False
        for p in preds:
            Fp = ctx.facts(p)
            for d in p.defs().get(0, []):
                t = fmt_sym(p, Fp.sym_rvalue(d[3], 0, d[1])) if d[0] == 'stmt' else (d[2].callee + '(' + ', '.join(fmt_sym(p, Fp.sym_operand(a)) for a in d[2].args) + ')')
                if re.search(r'(PartialEq::ne|Ne)', t) and 'target_node' in t and 'node_to_remove' in t:
                    okp = True
        n += 1
        if okp:
            r.ok(rule, 'forward-lists', 'retain(|r| r.target_node != node_to_remove) over each neighbour list', loc=retains[0].loc)
        else:
            r.fail(rule, 'forward-lists', 'the retain predicate does not compare the target of each reference with the deleted node', loc=retains[0].loc)
    n += 1
    if len(setrem) == 1:
        r.ok(rule, 'inverse-sets', 'the deleted node is removed from the inverse set of each neighbour', loc=setrem[0].loc)
    else:
        r.fail(rule, 'inverse-sets', 'the inverse sets of the neighbours are not updated with exactly one HashSet::remove (found %d)' % len(setrem), loc=hb[0].loc)
    # an emptied entry is removed from the map it was found in: the k-th HashMap::remove hits the map of the k-th get_mut
    seqs = {'get_mut': [], 'remove': []}
    for b_ in hb:
        Fb = ctx.facts(b_)
        order = sorted(b_.reachable_blocks(0))
        for c in sorted([c for c in b_.calls() if c.bb in order], key=lambda c: c.bb):
            m_ = re.search(r'HashMap::(get_mut|remove)$', c.callee)
            if m_ and c.args:
                t_ = fmt_sym(b_, Fb.sym_operand(c.args[0]))
                name = 'references_map' if re.search(r'[._]references_map(\(_[\d.]+\))?$', t_) else ('referenced_by_map' if re.search(r'[._]referenced_by_map(\(_[\d.]+\))?$', t_) else None)
                if name:
                    seqs[m_.group(1)].append(name)
    n += 1
    if seqs['get_mut'] and seqs['get_mut'] == seqs['remove']:
        r.ok(rule, 'emptied-entries', 'each emptied entry is removed from the map it was looked up in (%s)' % ', '.join(seqs['remove']), loc=hb[0].loc)
    else:
        r.fail(rule, 'emptied-entries', 'entries are looked up in %s but removed from %s: an emptied forward list deletes the inverse index of a live node (or the other way round)'
               % (seqs['get_mut'], seqs['remove']), loc=hb[0].loc)
    db_ = db.body(R + 'delete_node_references')
    if db_ is None:
        r.lost(rule, 'delete_node_references', 'not found')
    else:
        F = ctx.facts(db_)
        rem = [fmt_sym(db_, F.sym_operand(c.args[0])).rsplit('.', 1)[-1] for c in db_.calls() if c.callee.endswith('HashMap::remove') and len(c.args) == 2 and
               fmt_sym(db_, F.sym_operand(c.args[1])).startswith('&(*source_node')]
        helper = [c for c in db_.calls() if c.callee.endswith('remove_node_from_referenced_nodes')]
        n += 1
        if sorted(rem) == ['referenced_by_map', 'references_map'] and len(helper) == 2:
            r.ok(rule, 'delete_node_references', 'both maps lose the entry of the deleted node and both neighbour sets are cleaned', loc=db_.loc)
        else:
            r.fail(rule, 'delete_node_references', 'delete_node_references removes %s and cleans %d neighbour set(s): expected both maps and both directions' % (rem, len(helper)), loc=db_.loc)
    r.count('cleanup_sites', n)
    r.floor(rule, 'cleanup_sites', n, 4)
