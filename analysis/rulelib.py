"""Reusable rule primitives (engine E2: guard dominance / must-pass-through)."""
import re
from .facts import Facts, fmt_sym, fmt_lit


def all_switch_edges(F):
    """yield (src, dst, label, literals) for every switch edge of the body"""
    b = F.b
    for bi in range(len(b.blocks)):
        if b.term(bi)[0] != 'switch' or b.is_cleanup(bi):
            continue
        by_dst = {}
        for dst, lab in b.succ_edges(bi):
            by_dst.setdefault(dst, []).append(lab)
        for dst, labs in by_dst.items():
            if len(labs) != 1:
                continue
            yield bi, dst, labs[0], F.edge_literals(bi, labs[0])


def edges_where(F, pred):
    """switch edges carrying a literal that satisfies pred(lit)"""
    out = []
    for src, dst, lab, lits in all_switch_edges(F):
        for lit in lits:
            if pred(lit):
                out.append((src, dst, lit))
                break
    return out


def unreachable_without(body, site_bb, edges):
    """True iff every path from entry to site_bb takes at least one of `edges`"""
    es = frozenset((s, d) for s, d, *_ in edges)
    if not es:
        return False
    return site_bb not in body.reachable_blocks(0, removed_edge=es)


def reachable_from_edge(body, edge, site_bb):
    src, dst = edge[0], edge[1]
    return site_bb in body.reachable_blocks(dst)


def mentions_field(sym, field):
    """does the sym mention a place whose projection ends with .field?"""
    if isinstance(sym, tuple):
        if sym and sym[0] == 'place':
            return any(t == '.' + field for t in sym[2])
        return any(mentions_field(x, field) for x in sym if isinstance(x, tuple))
    return False


def place_ends_with(sym, field):
    s = sym
    while isinstance(s, tuple) and s and s[0] in ('ref', 'deref', 'cast'):
        s = s[1]
    if isinstance(s, tuple) and s and s[0] == 'proj':
        return s[2] == '.' + field
    return isinstance(s, tuple) and s and s[0] == 'place' and len(s[2]) > 0 and s[2][-1] == '.' + field


def strip_casts(sym):
    while isinstance(sym, tuple) and sym and sym[0] == 'cast':
        sym = sym[1]
    return sym


def result_ctor_sites(body, variant='Ok', adt='std::result::Result'):
    """(bb, idx, dest place) of every `Result::Ok(..)` (or other enum variant) aggregate"""
    out = []
    for bi, blk in enumerate(body.blocks):
        if blk['c']:
            continue
        for si, st in enumerate(blk['s']):
            if st[0] == '=' and st[2][0] == 'agg' and st[2][1] == 'adt' and st[2][2] == adt and st[2][3] == variant:
                out.append((bi, si, st[1]))
    return out


def flows_to_return(body, bb, idx, place):
    """does the value stored in `place` at (bb, idx) reach _0 by moves (cheap syntactic flow)?"""
    if place[0] == 0:
        return True
    want = {place[0]}
    # forward scan over reachable blocks
    seen = set()
    st = [(bb, idx + 1)]
    while st:
        b, i = st.pop()
        if (b, i == 0) in seen and i == 0:
            continue
        seen.add((b, i == 0))
        stmts = body.stmts(b)
        for s in stmts[i:]:
            if s[0] == '=' and s[2][0] == 'use' and s[2][1][0] in ('mv', 'cp') and s[2][1][1][0] in want and not s[2][1][1][1]:
                if s[1][0] == 0:
                    return True
                want.add(s[1][0])
        for nb in body.succ(b):
            if (nb, True) not in seen:
                st.append((nb, 0))
    return False


def named_local_defs(body, F, name):
    """formatted definitions of the user variable(s) called `name`"""
    out = []
    for l in body.local_by_name(name):
        for d in body.defs().get(l, []):
            if d[0] == 'stmt':
                out.append(fmt_sym(body, F.sym_rvalue(d[3], 0)))
            elif d[0] == 'call':
                out.append(fmt_sym(body, F.sym_call(d[2])))
    return out


def loop_source_of(body, F, sym):
    """for a value of the form ..Iterator::next(&iter)@Some.0..: the formatted argument of the into_iter/iter call that
    produced `iter` (what the loop iterates over), else None"""
    import re as _re
    txt = fmt_sym(body, sym)
    m = _re.search(r'Iterator::next\(&(\w+)\(_(\d+)\)\)', txt)
    if not m:
        return None
    loc = int(m.group(2))
    for _ in range(4):
        ds = body.defs().get(loc, [])
        if len(ds) == 1 and ds[0][0] == 'stmt' and ds[0][3][0] == 'use' and ds[0][3][1][0] in ('cp', 'mv') and not ds[0][3][1][1][1]:
            loc = ds[0][3][1][1][0]
        elif len(ds) == 1 and ds[0][0] == 'call':
            c = ds[0][2]
            return c.callee.rsplit('::', 1)[-1] + '(' + ', '.join(fmt_sym(body, F.sym_operand(a)) for a in c.args) + ')'
        else:
            break
    return None


def _signed(v, ty):
    bits = {'i8': 8, 'i16': 16, 'i32': 32, 'i64': 64, 'isize': 64, 'i128': 128}.get(ty)
    v = int(v)
    if bits and v >= 1 << (bits - 1):
        v -= 1 << bits
    return v


def reachable_under(body, F, pred_sym, value):
    """blocks reachable from entry when the integer-valued expression selected by pred_sym(sym) is known to equal `value`:
    switches directly on that expression, or on a comparison of it with a constant, follow only the feasible edge;
    every other branch keeps all successors (an over-approximation of the feasible paths under the assumption)."""
    seen = {0}; work = [0]
    OPS = {'Lt': lambda a, b: a < b, 'Le': lambda a, b: a <= b, 'Gt': lambda a, b: a > b, 'Ge': lambda a, b: a >= b,
           'Eq': lambda a, b: a == b, 'Ne': lambda a, b: a != b}
    while work:
        bb = work.pop()
        t = body.term(bb)
        succ = None
        if t[0] == 'switch':
            e = F.sym_operand(t[1])
            if pred_sym(e):
                hit = [d for v, d in t[3] if _signed(v, t[2]) == value]
                succ = hit[:1] if hit else [t[4]]
            elif e[0] == 'bin' and e[1] in OPS:
                a, b_ = e[2], e[3]
                ca, cb = F.const_int(a), F.const_int(b_)
                val = None
                if pred_sym(a) and cb is not None:
                    val = OPS[e[1]](value, cb)
                elif pred_sym(b_) and ca is not None:
                    val = OPS[e[1]](ca, value)
                if val is not None:
                    hit = [d for v, d in t[3] if (int(v) != 0) == val]
                    succ = hit[:1] if hit else [t[4]]
        if succ is None:
            succ = [s for s in body.succ(bb)]
        for s in succ:
            if s not in seen and not body.is_cleanup(s):
                seen.add(s); work.append(s)
    return seen


class NoEval(Exception):
    pass


def eval_sym(sym, leaf):
    """integer value of an extracted arithmetic expression; `leaf(sym)` supplies the value of recognised inputs"""
    v = leaf(sym)
    if v is not None:
        return v
    k = sym[0]
    if k == 'k':
        try:
            return int(sym[1])
        except ValueError:
            raise NoEval(str(sym)[:60])
    if k == 'proj' and sym[2] == '.0':
        return eval_sym(sym[1], leaf)
    if k == 'cast':
        x = eval_sym(sym[1], leaf)
        to = sym[-1]
        bits = {'u8': 8, 'u16': 16, 'u32': 32, 'u64': 64, 'usize': 64, 'u128': 128}.get(to)
        if bits is not None:
            return x & ((1 << bits) - 1)
        sbits = {'i8': 8, 'i16': 16, 'i32': 32, 'i64': 64, 'isize': 64, 'i128': 128}.get(to)
        if sbits is None:
            raise NoEval('cast to ' + str(to))
        x &= (1 << sbits) - 1
        return x - (1 << sbits) if x >= 1 << (sbits - 1) else x
    if k == 'bin':
        a, b = eval_sym(sym[2], leaf), eval_sym(sym[3], leaf)
        op = sym[1].replace('WithOverflow', '')
        if op == 'Add': return a + b
        if op == 'Sub':
            if a - b < 0:
                raise NoEval('underflow')
            return a - b
        if op == 'Mul': return a * b
        if op == 'BitAnd': return a & b
        if op == 'BitOr': return a | b
        if op == 'Shr': return a >> b
        if op == 'Shl': return a << b
        raise NoEval('op ' + sym[1])
    raise NoEval(str(sym)[:60])




def incoming_literal_sets(b, F, bb, depth=3):
    """for a join block: one literal list per incoming normal edge (dominating literals of the predecessor + the literal of
    the edge taken); predecessors that are themselves literal-free joins are expanded up to `depth`"""
    from .facts import fmt_lit
    out = []
    for p in b.preds(bb):
        if b.is_cleanup(p):
            continue
        for tgt, lab in b.succ_edges(p):
            if tgt != bb:
                continue
            lits = [fmt_lit(b, l) for l, e in F.literals_at(p)] + [fmt_lit(b, l) for l in F.edge_literals(p, lab)]
            if not lits and depth > 0 and len(b.preds(p)) > 0 and b.term(p)[0] == 'goto':
                out.extend(incoming_literal_sets(b, F, p, depth - 1))
            else:
                out.append(lits)
    return out


def local_defs_fmt(body, F, local):
    """formatted definitions of one local (every assignment / call result stored into it)"""
    from .facts import fmt_sym
    out = []
    for d in body.defs().get(local, []):
        if d[0] == 'stmt':
            out.append(fmt_sym(body, F.sym_rvalue(d[3], 0)))
        elif d[0] == 'call':
            out.append(fmt_sym(body, F.sym_call(d[2])))
    return out


def verdict_guard(body, F, lits, want_rx):
    """Is one of the literals `X == true` where X is (a variable every definition of which is) a value matching want_rx?
    Returns (True, description) or (False, reason).  The variable is found through the guard, not by its name."""
    import re as _re
    from .facts import fmt_sym
    why = 'no guard on a boolean verdict dominates it'
    for l, e in lits:
        if l[0] != 'truth' or l[2] is not True:
            continue
        x = l[1]
        if x[0] == 'place' and not x[2]:
            defs = local_defs_fmt(body, F, x[1])
            bad = [d for d in defs if not _re.search(want_rx, d)]
            if defs and not bad:
                return True, '`%s` (%d definition(s), each the primitive\'s boolean)' % (fmt_sym(body, x), len(defs))
            why = '`%s` is not the boolean returned by the verification primitive (%s)' % (fmt_sym(body, x), (bad or ['no definition'])[0][:100])
        elif _re.search(want_rx, fmt_sym(body, x)):
            return True, fmt_sym(body, x)[:80]
    return False, why


def bool_fn_outcomes(ctx, path, value):
    """For a local function returning bool: one list of literals (raw, in the function's own terms) per way of answering
    `value` - the literals dominating that assignment of the return place plus what the assigned expression being `value`
    implies.  None when the function is not of that shape."""
    b = ctx.db.body(path)
    if b is None or b.locals[0] != 'bool':
        return None
    F = ctx.facts(b)
    out = []
    for d in b.defs().get(0, []):
        if d[0] == 'stmt':
            rv = d[3]
            base = [l for l, e in F.literals_at(d[1], d[2])]
            if rv[0] == 'use' and rv[1][0] == 'k':
                v = rv[1][1] in ('1', 'true')
                if v != value:
                    continue
                out.append(base)
            else:
                e = F.sym_rvalue(rv, 0, d[1])
                out.append(base + list(F._truth(e, value)))
        elif d[0] == 'call':
            base = [l for l, e in F.literals_at(d[1])]
            out.append(base + list(F._truth(F.sym_call(d[2]), value)))
        else:
            return None
    return out or None


class VCall:
    """a call seen from a root function, possibly made inside a private helper the root calls: `args` are symbolic values in
    the root's terms (helper parameters replaced by the root's arguments; other helper locals renumbered out of the way)"""
    __slots__ = ('callee', 'args', 'loc', 'root_bb', 'via', 'call', 'body', 'facts', 'lift')

    def __init__(self, callee, args, loc, root_bb, via, call, body, facts, lift):
        self.callee = callee; self.args = args; self.loc = loc; self.root_bb = root_bb; self.via = via
        self.call = call; self.body = body; self.facts = facts; self.lift = lift


def virtual_calls(ctx, b, F, inline_rx, depth=2):
    """calls of `b` with the calls of the helpers it invokes (callee path matching inline_rx, bodies available, no recursion)
    spliced in.  The helper call itself is not listed when it was expanded."""
    import re as _re
    rx = _re.compile(inline_rx)
    out = []

    def walk(body, Fb, lift, root_bb, via, d):
        for c in body.calls():
            args = [lift(Fb.sym_operand(a)) for a in c.args]
            hb = ctx.db.body(c.callee) if (d > 0 and rx.search(c.callee) and c.callee != body.path and c.callee not in via) else None
            if hb is None:
                out.append(VCall(c.callee, args, c.loc, root_bb if root_bb is not None else c.bb, via, c, body, Fb, lift))
                continue
            level = len(via) + 1
            Fh = ctx.facts(hb)

            def mk(args_, hb_=hb, level_=level):
                def lift2(sy):
                    if not isinstance(sy, tuple) or not sy:
                        return sy
                    if sy[0] == 'place' and isinstance(sy[1], int):
                        if 1 <= sy[1] <= hb_.argc and sy[1] - 1 < len(args_):
                            return F._project(args_[sy[1] - 1], sy[2])
                        if sy[1] < 100000:
                            return ('place', sy[1] + 100000 * level_, sy[2])
                        return sy
                    return tuple(lift2(x) if isinstance(x, tuple) else ([lift2(y) for y in x] if isinstance(x, list) else x) for x in sy)
                return lift2
            walk(hb, Fh, mk(args), root_bb if root_bb is not None else c.bb, via + (c.callee,), d - 1)
        # closures built in this body (loop bodies of for_each / retain / map ..): their calls, with captured variables replaced
        for bi, blk in enumerate(body.blocks):
            if blk['c']:
                continue
            for st in blk['s']:
                if st[0] == '=' and st[2][0] == 'agg' and st[2][1] == 'closure' and st[2][2] not in via:
                    cb = ctx.db.body(st[2][2])
                    if cb is None:
                        continue
                    env = [lift(Fb.sym_operand(o)) for o in st[2][4]]
                    level = len(via) + 1

                    def mkc(env_, cb_=cb, level_=level):
                        def liftc(sy):
                            if not isinstance(sy, tuple) or not sy:
                                return sy
                            if sy[0] == 'place' and isinstance(sy[1], int):
                                if sy[1] == 1:
                                    pr = sy[2][1:] if sy[2][:1] == ('*',) else sy[2]
                                    if pr and pr[0].startswith('.') and pr[0][1:].isdigit() and int(pr[0][1:]) < len(env_):
                                        return F._project(env_[int(pr[0][1:])], pr[1:])
                                if sy[1] < 100000:
                                    return ('place', sy[1] + 100000 * level_ + 50000, sy[2])
                                return sy
                            return tuple(liftc(x) if isinstance(x, tuple) else ([liftc(y) for y in x] if isinstance(x, list) else x) for x in sy)
                        return liftc
                    walk(cb, ctx.facts(cb), mkc(env), root_bb if root_bb is not None else bi, via + (st[2][2],), d)

    walk(b, F, lambda x: x, None, (), depth)
    return out


def success_sites(body):
    """places where a Result-returning function can produce a non-error value: explicit Ok(..) constructions of the return place
    and calls whose result becomes the return value (`x.map_err(..)` as tail expression); error propagation (`?`, from_residual)
    and explicit Err(..) are left out.  Returns [(bb, statement index or None)]."""
    out = [(bb, si) for bb, si, pl in result_ctor_sites(body, 'Ok')]
    for d in body.defs().get(0, []):
        if d[0] == 'call' and not d[2].callee.endswith('FromResidual::from_residual'):
            out.append((d[1], None))
    return out


_FLIPOP = {'lt': 'gt', 'gt': 'lt', 'le': 'ge', 'ge': 'le', 'eq': 'eq', 'ne': 'ne'}


def cmp_lits(lits, v, ops, other_pred):
    """literals `v op X` with op in ops and other_pred(X), whichever side v was written on (`X flipped-op v` counts)"""
    out = []
    for l, e in lits:
        if l[0] != 'cmp':
            continue
        if l[2] == v and l[1] in ops and other_pred(l[3]):
            out.append(l)
        elif l[3] == v and _FLIPOP.get(l[1]) in ops and other_pred(l[2]):
            out.append(l)
    return out


def local_bool_outcomes(body, F, local, value):
    """like bool_fn_outcomes, for a boolean local of `body`: one literal list per definition that can make it `value`"""
    out = []
    for d in body.defs().get(local, []):
        if d[0] == 'stmt':
            rv = d[3]
            base = [l for l, e in F.literals_at(d[1], d[2])]
            if rv[0] == 'use' and rv[1][0] == 'k':
                if (rv[1][1] in ('1', 'true')) == value:
                    out.append(base)
            else:
                out.append(base + list(F._truth(F.sym_rvalue(rv, 0, d[1]), value)))
        elif d[0] == 'call':
            out.append([l for l, e in F.literals_at(d[1])] + list(F._truth(F.sym_call(d[2]), value)))
    return out


def order_fact(body, lit):
    """normalise an ordering literal to (left text, rel, right text) with rel in < <= > >=, reading both the primitive form
    (cmp) and calls of PartialOrd::lt/le/gt/ge with their truth value; None for anything else"""
    from .facts import fmt_sym
    REL = {'lt': '<', 'le': '<=', 'gt': '>', 'ge': '>='}
    NEGR = {'<': '>=', '<=': '>', '>': '<=', '>=': '<'}
    if lit[0] == 'cmp' and lit[1] in REL:
        return fmt_sym(body, lit[2]), REL[lit[1]], fmt_sym(body, lit[3])
    if lit[0] == 'truth' and lit[1][0] == 'call' and len(lit[1][2]) == 2:
        m = lit[1][1].rsplit('::', 1)[-1]
        if lit[1][1].endswith(('PartialOrd::' + m,)) and m in REL:
            a, b = lit[1][2]
            strip = lambda s: s[1] if s[0] == 'ref' else s
            rel = REL[m] if lit[2] else NEGR[REL[m]]
            return fmt_sym(body, strip(a)), rel, fmt_sym(body, strip(b))
    return None


def holds_order(body, lits, left_rx, rel, right_rx):
    """is `L rel R` (or its mirror image `R rel' L`) among the literals, for texts matching the two patterns?"""
    import re as _re
    MIR = {'<': '>', '<=': '>=', '>': '<', '>=': '<='}
    for l in lits:
        f = order_fact(body, l)
        if not f:
            continue
        a, r_, b = f
        if r_ == rel and _re.search(left_rx, a) and _re.search(right_rx, b):
            return True
        if r_ == MIR[rel] and _re.search(left_rx, b) and _re.search(right_rx, a):
            return True
    return False
