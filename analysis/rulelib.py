"""Reusable rule primitives (engine E2: guard dominance / must-pass-through)."""
import re
from .facts import Facts, fmt_sym, fmt_lit


def all_switch_edges(F):
    """yield (src, dst, label, literals) for every switch edge of the body"""
    b = F.b
    for bi in range(len(b.blocks)):
        if b.term(bi)[0] != 'switch' or b.is_cleanup(bi):
            continue
        by_dst = {}
        for dst, lab in b.succ_edges(bi):
            by_dst.setdefault(dst, []).append(lab)
        for dst, labs in by_dst.items():
            if len(labs) != 1:
                continue
            yield bi, dst, labs[0], F.edge_literals(bi, labs[0])


def edges_where(F, pred):
    """switch edges carrying a literal that satisfies pred(lit)"""
    out = []
    for src, dst, lab, lits in all_switch_edges(F):
        for lit in lits:
            if pred(lit):
                out.append((src, dst, lit))
                break
    return out


def unreachable_without(body, site_bb, edges):
    """True iff every path from entry to site_bb takes at least one of `edges`"""
    es = frozenset((s, d) for s, d, *_ in edges)
    if not es:
        return False
    return site_bb not in body.reachable_blocks(0, removed_edge=es)


def reachable_from_edge(body, edge, site_bb):
    src, dst = edge[0], edge[1]
    return site_bb in body.reachable_blocks(dst)


def mentions_field(sym, field):
    """does the sym mention a place whose projection ends with .field?"""
    if isinstance(sym, tuple):
        if sym and sym[0] == 'place':
            return any(t == '.' + field for t in sym[2])
        return any(mentions_field(x, field) for x in sym if isinstance(x, tuple))
    return False


def place_ends_with(sym, field):
    s = sym
    while isinstance(s, tuple) and s and s[0] in ('ref', 'deref', 'cast'):
        s = s[1]
    if isinstance(s, tuple) and s and s[0] == 'proj':
        return s[2] == '.' + field
    return isinstance(s, tuple) and s and s[0] == 'place' and len(s[2]) > 0 and s[2][-1] == '.' + field


def strip_casts(sym):
    while isinstance(sym, tuple) and sym and sym[0] == 'cast':
        sym = sym[1]
    return sym


def result_ctor_sites(body, variant='Ok', adt='std::result::Result'):
    """(bb, idx, dest place) of every `Result::Ok(..)` (or other enum variant) aggregate"""
    out = []
    for bi, blk in enumerate(body.blocks):
        if blk['c']:
            continue
        for si, st in enumerate(blk['s']):
            if st[0] == '=' and st[2][0] == 'agg' and st[2][1] == 'adt' and st[2][2] == adt and st[2][3] == variant:
                out.append((bi, si, st[1]))
    return out


def flows_to_return(body, bb, idx, place):
    """does the value stored in `place` at (bb, idx) reach _0 by moves (cheap syntactic flow)?"""
    if place[0] == 0:
        return True
    want = {place[0]}
    # forward scan over reachable blocks
    seen = set()
    st = [(bb, idx + 1)]
    while st:
        b, i = st.pop()
        if (b, i == 0) in seen and i == 0:
            continue
        seen.add((b, i == 0))
        stmts = body.stmts(b)
        for s in stmts[i:]:
            if s[0] == '=' and s[2][0] == 'use' and s[2][1][0] in ('mv', 'cp') and s[2][1][1][0] in want and not s[2][1][1][1]:
                if s[1][0] == 0:
                    return True
                want.add(s[1][0])
        for nb in body.succ(b):
            if (nb, True) not in seen:
                st.append((nb, 0))
    return False
