"""Instance-level call graph: resolved calls, closure construction, drop glue,
class-hierarchy fallback for dyn/unresolved trait calls, trait forwarding through
external generic containers, RTA for boxed callbacks."""
import collections, re
from .mirdb import strip_generics

FORWARD_TRAITS = {
    'std::clone::Clone::clone': 'std::clone::Clone::clone',
    'std::clone::Clone::clone_from': 'std::clone::Clone::clone',
    'std::cmp::PartialEq::eq': 'std::cmp::PartialEq::eq',
    'std::cmp::PartialEq::ne': 'std::cmp::PartialEq::eq',
    'std::cmp::PartialOrd::partial_cmp': 'std::cmp::PartialOrd::partial_cmp',
    'std::cmp::Ord::cmp': 'std::cmp::Ord::cmp',
    'std::hash::Hash::hash': 'std::hash::Hash::hash',
    'std::fmt::Debug::fmt': 'std::fmt::Debug::fmt',
    'std::fmt::Display::fmt': 'std::fmt::Display::fmt',
    'std::default::Default::default': 'std::default::Default::default',
    'std::string::ToString::to_string': 'std::fmt::Display::fmt',
    'core::fmt::rt::Argument::<\'_>::new_display': 'std::fmt::Display::fmt',
    'core::fmt::rt::Argument::<\'_>::new_debug': 'std::fmt::Debug::fmt',
    'core::fmt::rt::Argument::new_display': 'std::fmt::Display::fmt',
    'core::fmt::rt::Argument::new_debug': 'std::fmt::Debug::fmt',
}

_TY_TOKEN = re.compile(r"[A-Za-z_][A-Za-z0-9_:]*")


_PRIMS = {'u8','u16','u32','u64','u128','usize','i8','i16','i32','i64','i128','isize','bool','char','str','f32','f64'}

def _is_param(t):
    return re.fullmatch(r'[A-Z][A-Za-z0-9]*', t) is not None and t not in _PRIMS and t != 'Self' or t == 'Self'

def _wild(full):
    """regex matching `full` with bare type-parameter names replaced by wildcards"""
    out = []
    for tok in re.split(r'([A-Za-z_][A-Za-z0-9_:]*)', full):
        if re.fullmatch(r'[A-Z][A-Za-z0-9]?', tok) and tok not in _PRIMS:
            out.append('.+?')
        else:
            out.append(re.escape(tok))
    return re.compile(''.join(out) + '$')


class Edge:
    __slots__ = ('src', 'dst', 'bb', 'kind')
    def __init__(self, src, dst, bb, kind):
        self.src = src; self.dst = dst; self.bb = bb; self.kind = kind


class CallGraph:
    def __init__(self, db):
        self.db = db
        self.out = collections.defaultdict(list)     # inst n -> [Edge]
        self.by_path = collections.defaultdict(list)  # body path -> [inst n]
        for i in db.instances.values():
            self.by_path[i.path].append(i.n)
        # local ADT type name -> impl methods of forwarded traits
        self.impl_of = collections.defaultdict(list)  # (trait method, self_ty) -> [impl method path]
        for tm, lst in db.trait_impls.items():
            for self_ty, m in lst:
                self.impl_of[(tm, self_ty)].append(m)
        self.local_adts = set(db.adts.keys())
        # RTA: dyn type string -> [closure/fn instance ids coerced to it]
        self.dyn_sources = collections.defaultdict(set)
        self.n_generic = 0; self.n_virtual = 0; self.n_unresolved = 0; self.n_forward = 0; self.n_dyncb = 0
        self.ext_callees = collections.Counter()
        self._build()

    def _insts_of_method(self, mpath):
        return self.by_path.get(mpath, [])

    def _build(self):
        db = self.db
        closure_by_ty = {}
        for i in db.instances.values():
            for frm, to in i.unsize:
                self.dyn_sources[to].add(frm)
        # closure type strings look like {closure@file:l:c: l:c}; map to instances through ctor edges
        for i in db.instances.values():
            for bb, entry in i.calls.items():
                kind, n, path, full = entry
                if n >= 0:
                    self.out[i.n].append(Edge(i.n, n, bb, 'call'))
                    continue
                if kind == 'generic':
                    # callee of a never-instantiated generic root whose own arguments are still
                    # generic: link to every monomorphic instance of that function whose
                    # concrete arguments agree (type parameters are wildcards)
                    self.n_generic += 1
                    rx = _wild(full)
                    hit = False
                    for t in self.by_path.get(path, []):
                        ti = db.instances[t]
                        if rx.match(ti.full):
                            self.out[i.n].append(Edge(i.n, t, bb, 'generic')); hit = True
                    if not hit:
                        for t in self.by_path.get(path, []):
                            self.out[i.n].append(Edge(i.n, t, bb, 'generic'))
                    continue
                if kind in ('virtual', 'unresolved'):
                    if kind == 'virtual':
                        self.n_virtual += 1
                    else:
                        self.n_unresolved += 1
                    want = None
                    if full.startswith('<'):
                        st = full[1:].split(' as ')[0]
                        if not _is_param(st) and 'dyn ' not in st:
                            want = st
                    for self_ty, m in db.trait_impls.get(path, []):
                        if want is not None and self_ty != want:
                            continue
                        for t in self._insts_of_method(m):
                            self.out[i.n].append(Edge(i.n, t, bb, 'cha'))
                    continue
                if kind == 'indirect':
                    continue
                # external callee
                self.ext_callees[strip_generics(path)] += 1
                fwd = FORWARD_TRAITS.get(path) or FORWARD_TRAITS.get(strip_generics(path))
                if fwd:
                    for tok in set(_TY_TOKEN.findall(full)):
                        if tok in self.local_adts:
                            for (tm, self_ty), ms in self.impl_of.items():
                                if tm == fwd and (self_ty == tok or self_ty.startswith(tok + '<')):
                                    for m in ms:
                                        for t in self._insts_of_method(m):
                                            self.out[i.n].append(Edge(i.n, t, bb, 'forward'))
                                            self.n_forward += 1
            for bb, lst in i.drops.items():
                for n in lst:
                    self.out[i.n].append(Edge(i.n, n, bb, 'drop'))
            for bb, n in i.ctors:
                self.out[i.n].append(Edge(i.n, n, bb, 'ctor'))
        self._link_wrapped_closures()

    def _link_wrapped_closures(self):
        """A generic wrapper such as `impl<F: FnMut(..)> AttributeGetter for AttrFnGetter<F>` is only instantiated through
        vtables, so its monomorphic copies are not in the instance set and its `(self.f)(..)` call is an unresolved Fn-trait
        call on the type parameter.  Link that call to every closure the wrapper type is instantiated with anywhere in the
        crate.  Which closures those are is computed by propagation: (1) a closure value passed to a call whose callee is
        instantiated with a closure type seeds (callee head, closure type string); (2) a monomorphic instance that mentions
        the type string hands its closures on to every callee that mentions the same type string (e.g.
        set_variable_getter::<_, C> -> AttrFnGetter::<C>::new).  Macro-generated closures share one type string: they are
        merged, an over-approximation in the spirit of RTA."""
        db = self.db
        from .facts import Facts
        rx_head = re.compile(r'([A-Za-z_][\w:]*?)(?:::)?<')
        rx_ty = re.compile(r'\{closure@[^}]*\}')
        def heads_of(full):
            """generic heads (path before a `<`) of a full instance path"""
            return {m.group(1).rstrip(':') for m in rx_head.finditer(full) if m.group(1) and not m.group(1).startswith('std::ops')}
        def closure_paths(sym, acc):
            if isinstance(sym, tuple) and sym:
                if sym[0] == 'agg' and len(sym) > 2 and sym[1] == 'closure':
                    acc.add(sym[2])
                for x in sym:
                    if isinstance(x, tuple):
                        closure_paths(x, acc)
            return acc
        M = collections.defaultdict(set)       # (head, closure type string) -> closure instances
        # (1) seeds
        for bid, raw in db.bodies.raw.items():
            if '{closure@' not in raw:
                continue
            b = db.bodies[bid]
            F = None
            for c in b.calls():
                full = c.callee_full
                tys = rx_ty.findall(full)
                if not tys:
                    continue
                F = F or Facts(db, b)
                acc = set()
                for a in c.args:
                    closure_paths(F.sym_operand(a), acc)
                insts = {t for cp in acc for t in self.by_path.get(cp, ())}
                if not insts:
                    continue
                for h in heads_of(full):
                    for ty in tys:
                        M[(h, ty)] |= insts
        # (2) propagation along resolved calls between instances that mention the same closure type
        with_ty = [i for i in db.instances.values() if '{closure@' in i.full]
        changed = True; rounds = 0
        while changed and rounds < 12:
            changed = False; rounds += 1
            for i in with_ty:
                tys = set(rx_ty.findall(i.full))
                hs = heads_of(i.full)
                for bb, entry in i.calls.items():
                    kind, n, path, full = entry
                    if n < 0 or '{closure@' not in full:
                        continue
                    ctys = set(rx_ty.findall(full)) & tys
                    if not ctys:
                        continue
                    chs = heads_of(full)
                    for ty in ctys:
                        src = set()
                        for h in hs:
                            src |= M.get((h, ty), set())
                        if not src:
                            continue
                        for ch in chs:
                            if not src <= M[(ch, ty)]:
                                M[(ch, ty)] |= src; changed = True
        by_head = collections.defaultdict(set)
        for (h, ty), v in M.items():
            by_head[h] |= v
        # (3) the unresolved Fn-trait call of the generic wrapper
        for i in db.instances.values():
            for bb, entry in i.calls.items():
                kind, n, path, full = entry
                if kind != 'unresolved' or not re.match(r'^std::ops::(Fn|FnMut|FnOnce)::call', path):
                    continue
                st = full[1:].split(' as ')[0] if full.startswith('<') else ''
                if not _is_param(st):
                    continue
                heads = set(re.findall(r'([A-Za-z_][\w:]*?)(?:::)?<%s[,>]' % re.escape(st), i.path))
                for h in heads:
                    for t in by_head.get(h.rstrip(':'), ()):
                        self.out[i.n].append(Edge(i.n, t, bb, 'cha'))
                        self.n_dyncb += 1

    # ------------------------------------------------------------ queries
    def instances_matching(self, pattern):
        rx = re.compile(pattern)
        return [i.n for i in self.db.instances.values() if rx.search(i.path)]

    def reach(self, roots, edge_filter=None, stop=None):
        """forward closure; returns {inst: parent Edge or None}"""
        parent = {}
        dq = collections.deque()
        for r in roots:
            if r not in parent:
                parent[r] = None; dq.append(r)
        while dq:
            x = dq.popleft()
            if stop is not None and stop(x):
                continue
            for e in self.out.get(x, ()):
                if edge_filter is not None and not edge_filter(e):
                    continue
                if e.dst not in parent:
                    parent[e.dst] = e; dq.append(e.dst)
        return parent

    def path_to(self, parent, n):
        """call path (list of instance ids) from a root to n"""
        p = [n]
        while parent.get(p[-1]) is not None:
            p.append(parent[p[-1]].src)
        return p[::-1]

    def fmt_path(self, parent, n, maxlen=8):
        ids = self.path_to(parent, n)
        names = [self.db.instances[i].path for i in ids]
        if len(names) > maxlen:
            names = names[:3] + ['...'] + names[-(maxlen - 4):]
        return ' -> '.join(names)

    def sccs(self, nodes, edge_filter=None):
        """Tarjan SCCs (iterative) of the subgraph induced by `nodes`; returns list of
        lists, only components with a cycle (size>1 or self-loop)."""
        nodes = set(nodes)
        index = {}; low = {}; onstack = set(); stack = []; res = []
        counter = [0]
        def succs(v):
            for e in self.out.get(v, ()):
                if e.dst in nodes and (edge_filter is None or edge_filter(e)):
                    yield e.dst
        for root in nodes:
            if root in index:
                continue
            work = [(root, iter(succs(root)))]
            index[root] = low[root] = counter[0]; counter[0] += 1
            stack.append(root); onstack.add(root)
            while work:
                v, it = work[-1]
                adv = False
                for w in it:
                    if w not in index:
                        index[w] = low[w] = counter[0]; counter[0] += 1
                        stack.append(w); onstack.add(w)
                        work.append((w, iter(succs(w)))); adv = True
                        break
                    elif w in onstack:
                        low[v] = min(low[v], index[w])
                if adv:
                    continue
                work.pop()
                if work:
                    u = work[-1][0]
                    low[u] = min(low[u], low[v])
                if low[v] == index[v]:
                    comp = []
                    while True:
                        w = stack.pop(); onstack.discard(w); comp.append(w)
                        if w == v:
                            break
                    if len(comp) > 1 or any(w == v for w in succs(v)):
                        res.append(comp)
        return res
