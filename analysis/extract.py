"""Run the fact extractor over /repo's current working tree (cached by content hash)."""
import os, sys, hashlib, subprocess, fcntl, time, glob, shutil

VERIF = os.path.dirname(os.path.dirname(os.path.abspath(__file__)))
REPO = os.environ.get('VERIF_REPO', '/repo')
DRIVER_DIR = os.path.join(VERIF, 'driver')
DRIVER = os.path.join(DRIVER_DIR, 'target', 'release', 'opcua-facts-driver')
CACHE = os.path.join(VERIF, '.cache')
FACTS = os.path.join(VERIF, 'facts')

FEATURE_SETS = {
    'default': [],
    'server': ['--no-default-features', '--features', 'server'],
    'client': ['--no-default-features', '--features', 'client'],
    'all': ['--features', 'all'],
}


def sysroot():
    return subprocess.check_output(['rustc', '+nightly', '--print', 'sysroot'], text=True).strip()


def ensure_driver():
    src = os.path.join(DRIVER_DIR, 'src', 'main.rs')
    if os.path.exists(DRIVER) and os.path.getmtime(DRIVER) >= os.path.getmtime(src):
        return
    env = dict(os.environ, CARGO_NET_OFFLINE='true')
    r = subprocess.run(['cargo', 'build', '--offline', '--release'], cwd=DRIVER_DIR, env=env,
                       stdout=subprocess.PIPE, stderr=subprocess.STDOUT, text=True)
    if r.returncode != 0 or not os.path.exists(DRIVER):
        sys.stderr.write(r.stdout)
        raise SystemExit(2)


def tree_hash(repo=REPO, features='default'):
    h = hashlib.sha1()
    h.update(features.encode())
    with open(os.path.join(DRIVER_DIR, 'src', 'main.rs'), 'rb') as f:
        h.update(hashlib.sha1(f.read()).digest())
    files = []
    for root, dirs, fs in os.walk(os.path.join(repo, 'lib')):
        dirs[:] = [d for d in dirs if d not in ('target', '.git')]
        for fn in fs:
            if fn.endswith('.rs') or fn == 'Cargo.toml':
                files.append(os.path.join(root, fn))
    files.append(os.path.join(repo, 'Cargo.toml'))
    files.append(os.path.join(repo, 'Cargo.lock'))
    for p in sorted(files):
        h.update(os.path.relpath(p, repo).encode())
        try:
            with open(p, 'rb') as f:
                h.update(hashlib.sha1(f.read()).digest())
        except OSError:
            h.update(b'missing')
    return h.hexdigest()[:16]


def facts_for(repo=REPO, features='default', quiet=False):
    """returns the path of the facts file for the repo's current working tree, extracting if needed"""
    os.makedirs(FACTS, exist_ok=True); os.makedirs(CACHE, exist_ok=True)
    ensure_driver()
    hx = tree_hash(repo, features)
    out = os.path.join(FACTS, '%s-%s.jsonl' % (features, hx))
    if os.path.exists(out) and os.path.getsize(out) > 1000:
        return out
    lock = open(os.path.join(CACHE, 'extract.lock'), 'w')
    fcntl.flock(lock, fcntl.LOCK_EX)
    try:
        if os.path.exists(out) and os.path.getsize(out) > 1000:
            return out
        target = os.path.join(CACHE, 'target-' + features)
        os.makedirs(target, exist_ok=True)
        # cargo's freshness cache would skip the wrapper: forget the crate's fingerprint
        for fp in glob.glob(os.path.join(target, 'debug', '.fingerprint', 'opcua-*')):
            shutil.rmtree(fp, ignore_errors=True)
        env = dict(os.environ)
        env.update({
            'CARGO_NET_OFFLINE': 'true',
            'LD_LIBRARY_PATH': os.path.join(sysroot(), 'lib') + ':' + env.get('LD_LIBRARY_PATH', ''),
            'RUSTFLAGS': '-Zmir-opt-level=0 -Awarnings',
            'RUSTC_WORKSPACE_WRAPPER': DRIVER,
            'CARGO_TARGET_DIR': target,
            'VERIF_FACTS_OUT': out,
            'VERIF_CRATE': 'opcua',
            'CARGO_INCREMENTAL': '0',
        })
        t = time.time()
        cmd = ['cargo', '+nightly', 'check', '--offline', '-p', 'opcua', '--lib'] + FEATURE_SETS[features]
        r = subprocess.run(cmd, cwd=repo, env=env, stdout=subprocess.PIPE, stderr=subprocess.STDOUT, text=True)
        if r.returncode != 0 or not os.path.exists(out):
            sys.stderr.write(r.stdout[-6000:])
            sys.stderr.write('\nverif: fact extraction failed (exit %d)\n' % r.returncode)
            raise SystemExit(2)
        if os.path.realpath(repo) != os.path.realpath('/repo'):
            # scratch copies compile under a different path: drop their per-path artefacts straight away
            cur = set()
            for pat in ('debug/deps/libopcua-*', 'debug/deps/opcua-*', 'debug/.fingerprint/opcua-*', 'debug/incremental/opcua-*'):
                for f in glob.glob(os.path.join(target, pat)):
                    try:
                        if time.time() - os.path.getmtime(f) < 600 and os.path.getmtime(f) >= t - 1:
                            shutil.rmtree(f, ignore_errors=True) if os.path.isdir(f) else os.remove(f)
                    except OSError:
                        pass
        if not quiet:
            sys.stderr.write('verif: extracted facts %s in %.1fs\n' % (os.path.basename(out), time.time() - t))
        # keep the facts directory small: newest 6 files
        fs = sorted(glob.glob(os.path.join(FACTS, '*.jsonl')), key=os.path.getmtime)
        for old in fs[:-32]:
            try:
                os.remove(old)
            except OSError:
                pass
        return out
    finally:
        fcntl.flock(lock, fcntl.LOCK_UN)
        lock.close()


if __name__ == '__main__':
    feats = sys.argv[1] if len(sys.argv) > 1 else 'default'
    print(facts_for(features=feats))
