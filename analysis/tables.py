"""E6 helper: read the (enum variant -> value) table implemented by a `match self { .. }` function from its MIR."""
import re
from .facts import Facts, fmt_sym


def match_table(ctx, body, enum_suffix='SecurityPolicy', max_steps=12):
    """{variant name: value repr} for a function whose body switches on the discriminant of *self.
    The value is what flows into the return place on that arm: a constant, a tuple of constants,
    a call path (e.g. MessageDigest::sha1) or 'panic'."""
    F = ctx.facts(body)
    out = {}
    sw = None
    for bi, blk in enumerate(body.blocks):
        t = blk['t']
        if t[0] == 'switch':
            e = F.sym_operand(t[1])
            if e[0] == 'discr' and enum_suffix in e[2]:
                sw = bi
                break
    if sw is None:
        return None
    names = F.variants_of(F.sym_operand(body.term(sw)[1])[2])
    edges = body.succ_edges(sw)
    def value_from(bb):
        # walk forward along unique successors collecting what is assigned to _0 (possibly via one temp)
        seen = set(); cur = bb; val = None
        for _ in range(max_steps):
            if cur in seen:
                break
            seen.add(cur)
            for st in body.stmts(cur):
                if st[0] == '=' and not st[1][1]:
                    rv = st[2]
                    if rv[0] == 'use' and rv[1][0] == 'k':
                        val = (st[1][0], rv[1][1])
                    elif rv[0] == 'agg' and rv[1] == 'tuple':
                        val = (st[1][0], '(' + ', '.join(o[1] if o[0] == 'k' else '?' for o in rv[4]) + ')')
                    elif rv[0] == 'agg' and rv[1] == 'adt' and not rv[4]:
                        val = (st[1][0], rv[2].rsplit('::', 1)[-1] + '::' + rv[3])
                    elif rv[0] == 'use' and rv[1][0] in ('mv', 'cp') and val and rv[1][1][0] == val[0]:
                        val = (st[1][0], val[1])
            t = body.term(cur)
            if t[0] == 'call':
                name = t[1][1] if t[1][0] == 'fn' else '?'
                if re.search(r'panicking|begin_panic|panic_fmt', name):
                    return 'panic'
                if not t[3][1]:
                    args = [a[1] if a[0] == 'k' else fmt_sym(body, F.sym_operand(a)) for a in t[2]]
                    val = (t[3][0], re.sub(r'<.*>', '', name).rsplit('::', 2)[-2] + '::' + name.rsplit('::', 1)[-1] + ('(%s)' % ', '.join(args) if args else ''))
                if t[4] is None:
                    return 'panic'
                cur = t[4]; continue
            if t[0] == 'goto':
                cur = t[1]; continue
            if t[0] in ('return',):
                break
            if t[0] == 'unreachable':
                return 'panic'
            break
        return val[1] if val else None
    for dst, lab in edges:
        v = value_from(dst)
        if lab[0] == 'val':
            n = names.get(lab[1]) if names else None
            if n is not None:
                out[n] = v
        else:
            for n in (names.others(lab[1]) if names else []):
                out.setdefault(n, v)
    return out
