"""E5 helper: enumerate abstract paths of a loop-free region with consistent atom assignments."""
from .facts import Facts, fmt_sym, CMP_OPS


def atoms_of_edge(F, src, label):
    """[(atom sym, value)] for taking edge `label` out of switch block src.
    atom values: True/False for bools, ('is', variant) / ('not', variants) for discriminants, ('eq', v) / ('ne', vals) for ints"""
    b = F.b
    t = b.term(src)
    e = F.sym_operand(t[1])
    ty = t[2]
    neg = False
    while e[0] == 'un' and e[1] == 'Not':
        e = e[2]; neg = not neg
    # pure comparisons evaluated at different program points are the same atom
    if e[0] == 'call' and e[1].rsplit('::', 1)[-1] in ('eq', 'ne') and len(e[2]) == 2 and ('PartialEq' in e[1]):
        a, c = e[2]
        a = a[1] if a[0] == 'ref' else a
        c = c[1] if c[0] == 'ref' else c
        if e[1].endswith('::ne'):
            neg = not neg
        e = ('eqv', a, c)
    if ty == 'bool':
        if label[0] == 'val':
            v = label[1] != '0'
        else:
            v = label[1] == ('0',)
            if label[1] not in (('0',), ('1',)):
                return []
        return [(e, v != neg)]
    if e[0] == 'discr':
        names = F.variants_of(e[2])
        nm = (lambda v: names.get(v) or v) if names is not None else (lambda v: v)
        if label[0] == 'val':
            return [(('discr', e[1]), ('is', nm(label[1])))]
        return [(('discr', e[1]), ('not', tuple(nm(v) for v in label[1])))]
    if label[0] == 'val':
        return [(e, ('eq', label[1]))]
    return [(e, ('ne', tuple(label[1])))]


def consistent(env, atom, val):
    cur = env.get(atom)
    if cur is None:
        return True
    if isinstance(val, bool) or isinstance(cur, bool):
        return cur == val
    k1, v1 = cur; k2, v2 = val
    if k1 in ('is', 'eq') and k2 in ('is', 'eq'):
        return v1 == v2
    if k1 in ('is', 'eq') and k2 in ('not', 'ne'):
        return v1 not in v2
    if k1 in ('not', 'ne') and k2 in ('is', 'eq'):
        return v2 not in v1
    return True


def merge(cur, val):
    if cur is None or isinstance(val, bool):
        return val
    k1, v1 = cur; k2, v2 = val
    if k2 in ('is', 'eq'):
        return val
    if k1 in ('is', 'eq'):
        return cur
    return (k1, tuple(sorted(set(v1) | set(v2))))


def enumerate_paths_with_trace(F, target_blocks, start=0, limit=400000):
    """like enumerate_paths but yields (env, [blocks of the path]); no state merging (every path is kept apart)"""
    b = F.b
    targets = set(target_blocks)
    can = set()
    for t in targets:
        can |= b.can_reach(t)
    stack = [(start, {}, (start,))]
    n = 0
    while stack:
        bb, env, path = stack.pop()
        n += 1
        if n > limit:
            raise RuntimeError('path enumeration limit exceeded')
        if bb in targets:
            yield env, path
            continue
        t = b.term(bb)
        if t[0] == 'switch':
            for dst, lab in b.succ_edges(bb):
                if dst not in can or b.is_cleanup(dst):
                    continue
                ats = atoms_of_edge(F, bb, lab)
                e2 = dict(env)
                ok = True
                for a, v in ats:
                    if not consistent(e2, a, v):
                        ok = False; break
                    e2[a] = merge(e2.get(a), v)
                if ok:
                    stack.append((dst, e2, path + (dst,)))
        else:
            for dst in b.succ(bb):
                if dst in can and not b.is_cleanup(dst):
                    stack.append((dst, env, path + (dst,)))


def enumerate_paths(F, target_blocks, start=0, extra_consistency=None, limit=200000):
    """yield dict(atom -> value) for every consistent path from start to a block in target_blocks (loop-free bodies)"""
    b = F.b
    targets = set(target_blocks)
    can = set()
    for t in targets:
        can |= b.can_reach(t)
    stack = [(start, {})]
    seen = set()
    n = 0
    while stack:
        bb, env = stack.pop()
        n += 1
        if n > limit:
            raise RuntimeError('path enumeration limit exceeded')
        if bb in targets:
            yield env
            continue
        t = b.term(bb)
        if t[0] == 'switch':
            for dst, lab in b.succ_edges(bb):
                if dst not in can or b.is_cleanup(dst):
                    continue
                ats = atoms_of_edge(F, bb, lab)
                e2 = dict(env)
                ok = True
                for a, v in ats:
                    if not consistent(e2, a, v) or (extra_consistency and not extra_consistency(e2, a, v)):
                        ok = False; break
                    e2[a] = merge(e2.get(a), v)
                if ok:
                    key = (dst, tuple(sorted((repr(k), repr(v)) for k, v in e2.items())))
                    if key not in seen:
                        seen.add(key)
                        stack.append((dst, e2))
        else:
            for dst in b.succ(bb):
                if dst in can and not b.is_cleanup(dst):
                    stack.append((dst, env))
