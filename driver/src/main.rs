// Fact extractor for the opcua static checks.  A rustc_private driver used as
// RUSTC_WORKSPACE_WRAPPER: for the crate named by VERIF_CRATE (default "opcua") it
// serialises the type-checked MIR of every local body, the monomorphic instance
// call graph, ADT layouts and trait impl tables as JSON lines into the file named
// by VERIF_FACTS_OUT.  Every other crate is compiled unchanged.
#![feature(rustc_private)]
#![allow(clippy::all)]
extern crate rustc_abi;
extern crate rustc_driver;
extern crate rustc_hir;
extern crate rustc_interface;
extern crate rustc_middle;
extern crate rustc_span;

use rustc_driver::Compilation;
use rustc_hir::def::DefKind;
use rustc_hir::def_id::{DefId, LOCAL_CRATE};
use rustc_middle::mir::{
    AggregateKind, AssertKind, Body, CastKind, Const, Operand, Place, ProjectionElem,
    Rvalue, StatementKind, TerminatorKind, UnwindAction, VarDebugInfoContents,
};
use rustc_middle::mir::PlaceTy;
use rustc_middle::ty::print::with_no_trimmed_paths;
use rustc_middle::ty::{self, EarlyBinder, GenericArgsRef, Instance, InstanceKind, Ty, TyCtxt, TypeVisitableExt, TypingEnv};
use rustc_span::{ExpnKind, Span};
use std::collections::{HashMap, HashSet, VecDeque};
use std::fmt::Write as _;

fn js(s: &str) -> String {
    let mut o = String::with_capacity(s.len() + 2);
    o.push('"');
    for ch in s.chars() {
        match ch {
            '"' => o.push_str("\\\""),
            '\\' => o.push_str("\\\\"),
            '\n' => o.push_str("\\n"),
            '\r' => o.push_str("\\r"),
            '\t' => o.push_str("\\t"),
            c if (c as u32) < 0x20 => {
                let _ = write!(o, "\\u{:04x}", c as u32);
            }
            c => o.push(c),
        }
    }
    o.push('"');
    o
}

fn norm_ws(s: &str, max: usize) -> String {
    let mut o = String::new();
    let mut last_ws = false;
    for ch in s.chars() {
        if ch.is_whitespace() {
            if !last_ws && !o.is_empty() {
                o.push(' ');
            }
            last_ws = true;
        } else {
            o.push(ch);
            last_ws = false;
        }
        if o.len() >= max {
            break;
        }
    }
    o.trim_end().to_string()
}

struct Cx<'tcx> {
    tcx: TyCtxt<'tcx>,
    krate: String,
    ty_cache: HashMap<Ty<'tcx>, String>,
}

impl<'tcx> Cx<'tcx> {
    fn path(&self, d: DefId) -> String {
        with_no_trimmed_paths!(self.tcx.def_path_str(d))
    }
    fn path_args(&self, d: DefId, a: GenericArgsRef<'tcx>) -> String {
        with_no_trimmed_paths!(self.tcx.def_path_str_with_args(d, a))
    }
    fn ty(&mut self, t: Ty<'tcx>) -> String {
        if let Some(s) = self.ty_cache.get(&t) {
            return s.clone();
        }
        let s = with_no_trimmed_paths!(t.to_string());
        self.ty_cache.insert(t, s.clone());
        s
    }

    /// location of a span: root call site outside all macro expansions, the snippet there,
    /// and the chain of macro expansions (innermost first) as [name, defining crate].
    fn loc(&self, span: Span, snippet: bool) -> String {
        let sm = self.tcx.sess.source_map();
        let mut chain: Vec<(String, String)> = Vec::new();
        let mut sp = span;
        let mut guard = 0;
        while sp.from_expansion() && guard < 64 {
            let ed = sp.ctxt().outer_expn_data();
            if let ExpnKind::Macro(_, name) = ed.kind {
                let cr = match ed.macro_def_id {
                    Some(d) => self.tcx.crate_name(d.krate).to_string(),
                    None => "?".to_string(),
                };
                chain.push((name.to_string(), cr));
            }
            sp = ed.call_site;
            guard += 1;
        }
        let lo = sm.lookup_char_pos(sp.lo());
        let file = match &lo.file.name {
            rustc_span::FileName::Real(r) => match r.local_path() {
                Some(p) => p.to_string_lossy().to_string(),
                None => format!("{:?}", lo.file.name),
            },
            other => format!("{:?}", other),
        };
        let mut o = format!("{{\"f\":{},\"l\":{},\"c\":{}", js(&file), lo.line, lo.col.0 + 1);
        if snippet {
            let sn = sm.span_to_snippet(sp).unwrap_or_default();
            let _ = write!(o, ",\"s\":{}", js(&norm_ws(&sn, 240)));
        }
        if !chain.is_empty() {
            o.push_str(",\"x\":[");
            for (i, (n, c)) in chain.iter().enumerate() {
                if i > 0 {
                    o.push(',');
                }
                let _ = write!(o, "[{},{}]", js(n), js(c));
            }
            o.push(']');
        }
        o.push('}');
        o
    }

    fn line(&self, span: Span) -> usize {
        let sm = self.tcx.sess.source_map();
        let sp = span.source_callsite();
        sm.lookup_char_pos(sp.lo()).line
    }

    fn place(&mut self, body: &Body<'tcx>, p: &Place<'tcx>) -> String {
        let tcx = self.tcx;
        let mut o = format!("[{},[", p.local.as_usize());
        let mut pty = PlaceTy::from_ty(body.local_decls[p.local].ty);
        for (i, elem) in p.projection.iter().enumerate() {
            if i > 0 {
                o.push(',');
            }
            let tok = match elem {
                ProjectionElem::Deref => "*".to_string(),
                ProjectionElem::Field(f, _) => {
                    let name = match pty.ty.kind() {
                        ty::Adt(def, _) => {
                            let v = pty.variant_index.unwrap_or(rustc_abi::FIRST_VARIANT);
                            if def.is_enum() || def.is_struct() || def.is_union() {
                                def.variant(v).fields[f].name.to_string()
                            } else {
                                f.as_usize().to_string()
                            }
                        }
                        _ => f.as_usize().to_string(),
                    };
                    format!(".{}", name)
                }
                ProjectionElem::Index(l) => format!("[_{}]", l.as_usize()),
                ProjectionElem::ConstantIndex { offset, min_length, from_end } => {
                    format!("[c:{}:{}:{}]", offset, min_length, from_end as u8)
                }
                ProjectionElem::Subslice { from, to, from_end } => {
                    format!("[s:{}:{}:{}]", from, to, from_end as u8)
                }
                ProjectionElem::Downcast(name, v) => match name {
                    Some(n) => format!("@{}", n),
                    None => format!("@#{}", v.as_usize()),
                },
                ProjectionElem::OpaqueCast(_) => "opaque".to_string(),
                ProjectionElem::UnwrapUnsafeBinder(_) => "unbinder".to_string(),
            };
            o.push_str(&js(&tok));
            pty = pty.projection_ty(tcx, elem);
        }
        o.push_str("]]");
        o
    }

    fn place_ty(&self, body: &Body<'tcx>, p: &Place<'tcx>) -> Ty<'tcx> {
        p.ty(&body.local_decls, self.tcx).ty
    }

    fn konst(&mut self, tenv: TypingEnv<'tcx>, c: &Const<'tcx>) -> String {
        let t = c.ty();
        let tys = self.ty(t);
        if let ty::FnDef(d, a) = t.kind() {
            return format!(
                "[\"fn\",{},{},{}]",
                js(&self.path(*d)),
                js(&self.path_args(*d, a)),
                if d.is_local() { "1" } else { "0" }
            );
        }
        if let Const::Unevaluated(uv, _) = c {
            if let Some(p) = uv.promoted {
                return format!("[\"k\",{},{}]", js(&format!("promoted:{}", p.as_usize())), js(&tys));
            }
        }
        let is_scalar = matches!(t.kind(), ty::Bool | ty::Char | ty::Int(_) | ty::Uint(_));
        if is_scalar {
            if let Some(si) = c.try_eval_scalar_int(self.tcx, tenv) {
                let size = si.size();
                let v = match t.kind() {
                    ty::Int(_) => si.to_int(size).to_string(),
                    _ => si.to_uint(size).to_string(),
                };
                return format!("[\"k\",{},{}]", js(&v), js(&tys));
            }
        }
        // named `&str` constants: evaluate so that tables of URIs can be compared by value
        if tys == "&str" || tys == "&'static str" {
            if let Const::Unevaluated(..) = c {
                if let Ok(v) = c.eval(self.tcx, tenv, rustc_span::DUMMY_SP) {
                    let cv = Const::Val(v, t);
                    let s = with_no_trimmed_paths!(format!("{}", cv));
                    let path = with_no_trimmed_paths!(format!("{}", c));
                    return format!("[\"k\",{},{},{}]", js(&norm_ws(&s, 200)), js(&tys), js(&norm_ws(&path, 160)));
                }
            }
        }
        let s = with_no_trimmed_paths!(format!("{}", c));
        format!("[\"k\",{},{}]", js(&norm_ws(&s, 160)), js(&tys))
    }

    fn operand(&mut self, body: &Body<'tcx>, tenv: TypingEnv<'tcx>, op: &Operand<'tcx>) -> String {
        match op {
            Operand::Copy(p) => format!("[\"cp\",{}]", self.place(body, p)),
            Operand::Move(p) => format!("[\"mv\",{}]", self.place(body, p)),
            Operand::Constant(c) => self.konst(tenv, &c.const_),
            _ => "[\"k\",\"?\",\"?\"]".to_string(),
        }
    }

    fn operand_ty(&mut self, body: &Body<'tcx>, op: &Operand<'tcx>) -> String {
        let t = op.ty(&body.local_decls, self.tcx);
        self.ty(t)
    }

    fn rvalue(&mut self, body: &Body<'tcx>, tenv: TypingEnv<'tcx>, rv: &Rvalue<'tcx>) -> String {
        match rv {
            Rvalue::Use(op, _) => format!("[\"use\",{}]", self.operand(body, tenv, op)),
            Rvalue::Repeat(op, n) => {
                let ns = with_no_trimmed_paths!(format!("{}", n));
                format!("[\"repeat\",{},{}]", self.operand(body, tenv, op), js(&ns))
            }
            Rvalue::Ref(_, bk, p) => {
                let m = match bk {
                    rustc_middle::mir::BorrowKind::Mut { .. } => "mut",
                    rustc_middle::mir::BorrowKind::Shared => "shared",
                    _ => "fake",
                };
                format!("[\"ref\",{},{}]", js(m), self.place(body, p))
            }
            Rvalue::ThreadLocalRef(d) => format!("[\"tls\",{}]", js(&self.path(*d))),
            Rvalue::RawPtr(_, p) => format!("[\"rawptr\",{}]", self.place(body, p)),
            Rvalue::Cast(k, op, t) => {
                let ks = match k {
                    CastKind::IntToInt => "IntToInt".to_string(),
                    CastKind::FloatToInt => "FloatToInt".to_string(),
                    CastKind::FloatToFloat => "FloatToFloat".to_string(),
                    CastKind::IntToFloat => "IntToFloat".to_string(),
                    CastKind::PtrToPtr => "PtrToPtr".to_string(),
                    CastKind::FnPtrToPtr => "FnPtrToPtr".to_string(),
                    CastKind::Transmute => "Transmute".to_string(),
                    CastKind::PointerCoercion(pc, _) => format!("Coerce:{:?}", pc),
                    other => format!("{:?}", other),
                };
                let from = self.operand_ty(body, op);
                format!(
                    "[\"cast\",{},{},{},{}]",
                    js(&ks),
                    self.operand(body, tenv, op),
                    js(&from),
                    js(&self.ty(*t))
                )
            }
            Rvalue::BinaryOp(op, ab) => {
                let ta = self.operand_ty(body, &ab.0);
                format!(
                    "[\"bin\",{},{},{},{}]",
                    js(&format!("{:?}", op)),
                    self.operand(body, tenv, &ab.0),
                    self.operand(body, tenv, &ab.1),
                    js(&ta)
                )
            }
            Rvalue::UnaryOp(op, a) => {
                format!("[\"un\",{},{}]", js(&format!("{:?}", op)), self.operand(body, tenv, a))
            }
            Rvalue::Discriminant(p) => {
                let t = self.place_ty(body, p);
                format!("[\"discr\",{},{}]", self.place(body, p), js(&self.ty(t)))
            }
            Rvalue::Aggregate(k, ops) => {
                let (kind, name, variant) = match &**k {
                    AggregateKind::Array(_) => ("array", String::new(), String::new()),
                    AggregateKind::Tuple => ("tuple", String::new(), String::new()),
                    AggregateKind::Adt(d, v, _, _, _) => {
                        let adt = self.tcx.adt_def(*d);
                        ("adt", self.path(*d), adt.variant(*v).name.to_string())
                    }
                    AggregateKind::Closure(d, _) => ("closure", self.path(*d), String::new()),
                    AggregateKind::Coroutine(d, _) => ("coroutine", self.path(*d), String::new()),
                    AggregateKind::CoroutineClosure(d, _) => ("coroutine_closure", self.path(*d), String::new()),
                    AggregateKind::RawPtr(..) => ("rawptr", String::new(), String::new()),
                };
                let mut o = format!("[\"agg\",{},{},{},[", js(kind), js(&name), js(&variant));
                for (i, op) in ops.iter().enumerate() {
                    if i > 0 {
                        o.push(',');
                    }
                    o.push_str(&self.operand(body, tenv, op));
                }
                o.push_str("]");
                // field names for ADT aggregates
                if let AggregateKind::Adt(d, v, _, _, _) = &**k {
                    let adt = self.tcx.adt_def(*d);
                    o.push_str(",[");
                    for (i, f) in adt.variant(*v).fields.iter().enumerate() {
                        if i > 0 {
                            o.push(',');
                        }
                        o.push_str(&js(&f.name.to_string()));
                    }
                    o.push(']');
                }
                o.push(']');
                o
            }
            Rvalue::CopyForDeref(p) => format!("[\"use\",[\"cp\",{}]]", self.place(body, p)),
            other => format!("[\"other\",{}]", js(&norm_ws(&format!("{:?}", other), 80))),
        }
    }

    fn assert_msg(&mut self, body: &Body<'tcx>, tenv: TypingEnv<'tcx>, m: &AssertKind<Operand<'tcx>>) -> String {
        match m {
            AssertKind::BoundsCheck { len, index } => format!(
                "[\"BoundsCheck\",{},{}]",
                self.operand(body, tenv, len),
                self.operand(body, tenv, index)
            ),
            AssertKind::Overflow(op, a, b) => {
                let t = self.operand_ty(body, a);
                format!(
                    "[\"Overflow\",{},{},{},{}]",
                    js(&format!("{:?}", op)),
                    self.operand(body, tenv, a),
                    self.operand(body, tenv, b),
                    js(&t)
                )
            }
            AssertKind::OverflowNeg(a) => {
                let t = self.operand_ty(body, a);
                format!("[\"OverflowNeg\",{},{}]", self.operand(body, tenv, a), js(&t))
            }
            AssertKind::DivisionByZero(a) => format!("[\"DivisionByZero\",{}]", self.operand(body, tenv, a)),
            AssertKind::RemainderByZero(a) => format!("[\"RemainderByZero\",{}]", self.operand(body, tenv, a)),
            AssertKind::ResumedAfterReturn(_) => "[\"ResumedAfterReturn\"]".to_string(),
            AssertKind::ResumedAfterPanic(_) => "[\"ResumedAfterPanic\"]".to_string(),
            AssertKind::ResumedAfterDrop(_) => "[\"ResumedAfterDrop\"]".to_string(),
            AssertKind::MisalignedPointerDereference { .. } => "[\"Misaligned\"]".to_string(),
            AssertKind::NullPointerDereference => "[\"NullDeref\"]".to_string(),
            AssertKind::InvalidEnumConstruction(_) => "[\"InvalidEnum\"]".to_string(),
        }
    }
}

fn unwind_target(u: &UnwindAction) -> String {
    match u {
        UnwindAction::Cleanup(b) => b.as_usize().to_string(),
        _ => "null".to_string(),
    }
}

/// All local `Drop::drop` impls that dropping a value of type `t` may run.
fn drop_impls<'tcx>(
    tcx: TyCtxt<'tcx>,
    t: Ty<'tcx>,
    seen: &mut HashSet<Ty<'tcx>>,
    out: &mut Vec<Instance<'tcx>>,
    depth: usize,
) {
    if depth > 12 || !seen.insert(t) {
        return;
    }
    match t.kind() {
        ty::Adt(def, args) => {
            if let Some(d) = tcx.adt_destructor(def.did()) {
                if d.did.is_local() {
                    out.push(Instance::new_raw(d.did, args));
                }
            }
            if def.did().is_local() || !def.is_box() {
                // fields are only walked for local ADTs; for external containers the
                // generic arguments stand in for the owned payloads.
            }
            if def.did().is_local() {
                for v in def.variants() {
                    for f in &v.fields {
                        let ft = f.ty(tcx, args);
                        drop_impls(tcx, ft, seen, out, depth + 1);
                    }
                }
            }
            for a in args.iter() {
                if let Some(at) = a.as_type() {
                    drop_impls(tcx, at, seen, out, depth + 1);
                }
            }
        }
        ty::Tuple(ts) => {
            for x in ts.iter() {
                drop_impls(tcx, x, seen, out, depth + 1);
            }
        }
        ty::Array(x, _) | ty::Slice(x) => drop_impls(tcx, *x, seen, out, depth + 1),
        ty::Closure(_, args) => {
            for x in args.as_closure().upvar_tys() {
                drop_impls(tcx, x, seen, out, depth + 1);
            }
        }
        ty::Coroutine(_, args) => {
            for x in args.as_coroutine().upvar_tys() {
                drop_impls(tcx, x, seen, out, depth + 1);
            }
        }
        _ => {}
    }
}

struct Cb;

impl rustc_driver::Callbacks for Cb {
    fn after_analysis<'tcx>(&mut self, _c: &rustc_interface::interface::Compiler, tcx: TyCtxt<'tcx>) -> Compilation {
        let want = std::env::var("VERIF_CRATE").unwrap_or_else(|_| "opcua".to_string());
        let krate = tcx.crate_name(LOCAL_CRATE).to_string();
        if krate != want {
            return Compilation::Continue;
        }
        let out_path = match std::env::var("VERIF_FACTS_OUT") {
            Ok(p) => p,
            Err(_) => return Compilation::Continue,
        };
        // only the library target (not test harness / build scripts)
        if tcx.sess.opts.test {
            return Compilation::Continue;
        }
        let mut cx = Cx { tcx, krate: krate.clone(), ty_cache: HashMap::new() };
        let mut out = String::with_capacity(64 << 20);
        let skip_stmts_pat = std::env::var("VERIF_SKIP_STMTS").unwrap_or_default();

        // ---------------- bodies ----------------
        let mut nbodies = 0usize;
        for ldid in tcx.hir_body_owners() {
            let did = ldid.to_def_id();
            let kind = tcx.def_kind(did);
            if !matches!(kind, DefKind::Fn | DefKind::AssocFn | DefKind::Closure) {
                continue;
            }
            let body: &Body<'tcx> = tcx.optimized_mir(did);
            let tenv = TypingEnv::post_analysis(tcx, did);
            let path = cx.path(did);
            nbodies += 1;
            let is_co = tcx.is_coroutine(did);
            let kind_s = match kind {
                DefKind::Closure => {
                    if is_co {
                        "coroutine"
                    } else {
                        "closure"
                    }
                }
                DefKind::AssocFn => "assocfn",
                _ => "fn",
            };
            let generic = tcx.generics_of(did).requires_monomorphization(tcx);
            let _ = write!(
                out,
                "{{\"k\":\"body\",\"id\":{},\"path\":{},\"kind\":{},\"generic\":{},\"argc\":{},\"loc\":{}",
                ldid.local_def_index.as_u32(),
                js(&path),
                js(kind_s),
                generic,
                body.arg_count,
                cx.loc(tcx.def_span(did), false)
            );
            if matches!(kind, DefKind::Closure) {
                let parent = tcx.typeck_root_def_id(did);
                let _ = write!(out, ",\"root\":{}", js(&cx.path(parent)));
            }
            if matches!(kind, DefKind::Fn | DefKind::AssocFn) {
                let vis = tcx.visibility(did);
                let _ = write!(out, ",\"pub\":{}", vis.is_public());
            }
            if let Some(impl_did) = tcx.impl_of_assoc(did) {
                let self_ty = tcx.type_of(impl_did).instantiate_identity().skip_norm_wip();
                let _ = write!(out, ",\"self_ty\":{}", js(&cx.ty(self_ty)));
                if let Some(tr) = tcx.impl_opt_trait_ref(impl_did) {
                    let tr = tr.instantiate_identity().skip_norm_wip();
                    let _ = write!(out, ",\"trait\":{}", js(&cx.path(tr.def_id)));
                }
            }
            // locals
            out.push_str(",\"locals\":[");
            for (i, d) in body.local_decls.iter().enumerate() {
                if i > 0 {
                    out.push(',');
                }
                out.push_str(&js(&cx.ty(d.ty)));
            }
            out.push_str("],\"vars\":[");
            let mut first = true;
            for v in &body.var_debug_info {
                if let VarDebugInfoContents::Place(p) = &v.value {
                    if !first {
                        out.push(',');
                    }
                    first = false;
                    let _ = write!(out, "[{},{}]", js(&v.name.to_string()), cx.place(body, p));
                }
            }
            out.push_str("]");
            let skip_stmts = !skip_stmts_pat.is_empty() && path.contains(&skip_stmts_pat);
            out.push_str(",\"blocks\":[");
            for (bi, data) in body.basic_blocks.iter().enumerate() {
                if bi > 0 {
                    out.push(',');
                }
                let _ = write!(out, "{{\"c\":{},\"s\":[", data.is_cleanup as u8);
                let mut firsts = true;
                if !skip_stmts {
                    for st in &data.statements {
                        let s = match &st.kind {
                            StatementKind::Assign(b) => {
                                let (p, rv) = &**b;
                                let full = matches!(rv, Rvalue::Cast(..));
                                let l = if full { cx.loc(st.source_info.span, true) } else { cx.line(st.source_info.span).to_string() };
                                Some(format!("[\"=\",{},{},{}]", cx.place(body, p), cx.rvalue(body, tenv, rv), l))
                            }
                            StatementKind::SetDiscriminant { place, variant_index } => Some(format!(
                                "[\"setdiscr\",{},{}]",
                                cx.place(body, place),
                                variant_index.as_usize()
                            )),
                            StatementKind::StorageDead(l) => Some(format!("[\"dead\",{}]", l.as_usize())),
                            _ => None,
                        };
                        if let Some(s) = s {
                            if !firsts {
                                out.push(',');
                            }
                            firsts = false;
                            out.push_str(&s);
                        }
                    }
                }
                out.push_str("],\"t\":");
                let term = data.terminator();
                let t = match &term.kind {
                    TerminatorKind::Goto { target } => format!("[\"goto\",{}]", target.as_usize()),
                    TerminatorKind::SwitchInt { discr, targets } => {
                        let mut s = format!(
                            "[\"switch\",{},{},[",
                            cx.operand(body, tenv, discr),
                            js(&cx.operand_ty(body, discr))
                        );
                        for (i, (v, b)) in targets.iter().enumerate() {
                            if i > 0 {
                                s.push(',');
                            }
                            let _ = write!(s, "[{},{}]", js(&v.to_string()), b.as_usize());
                        }
                        let _ = write!(s, "],{}]", targets.otherwise().as_usize());
                        s
                    }
                    TerminatorKind::UnwindResume => "[\"resume\"]".to_string(),
                    TerminatorKind::UnwindTerminate(_) => "[\"terminate\"]".to_string(),
                    TerminatorKind::Return => "[\"return\"]".to_string(),
                    TerminatorKind::Unreachable => "[\"unreachable\"]".to_string(),
                    TerminatorKind::Drop { place, target, unwind, .. } => {
                        let t = cx.place_ty(body, place);
                        format!(
                            "[\"drop\",{},{},{},{},{}]",
                            cx.place(body, place),
                            js(&cx.ty(t)),
                            target.as_usize(),
                            unwind_target(unwind),
                            cx.line(term.source_info.span)
                        )
                    }
                    TerminatorKind::Call { func, args, destination, target, unwind, fn_span, .. } => {
                        let mut s = format!("[\"call\",{},[", cx.operand(body, tenv, func));
                        for (i, a) in args.iter().enumerate() {
                            if i > 0 {
                                s.push(',');
                            }
                            s.push_str(&cx.operand(body, tenv, &a.node));
                        }
                        let _ = write!(
                            s,
                            "],{},{},{},{},{}]",
                            cx.place(body, destination),
                            match target {
                                Some(b) => b.as_usize().to_string(),
                                None => "null".to_string(),
                            },
                            unwind_target(unwind),
                            cx.loc(term.source_info.span, true),
                            cx.line(*fn_span)
                        );
                        s
                    }
                    TerminatorKind::TailCall { func, .. } => format!("[\"tailcall\",{}]", cx.operand(body, tenv, func)),
                    TerminatorKind::Assert { cond, expected, msg, target, unwind } => format!(
                        "[\"assert\",{},{},{},{},{},{}]",
                        cx.operand(body, tenv, cond),
                        *expected as u8,
                        cx.assert_msg(body, tenv, msg),
                        target.as_usize(),
                        unwind_target(unwind),
                        cx.loc(term.source_info.span, true)
                    ),
                    TerminatorKind::Yield { resume, .. } => format!("[\"yield\",{}]", resume.as_usize()),
                    TerminatorKind::CoroutineDrop => "[\"codrop\"]".to_string(),
                    TerminatorKind::FalseEdge { real_target, .. } => format!("[\"goto\",{}]", real_target.as_usize()),
                    TerminatorKind::FalseUnwind { real_target, .. } => format!("[\"goto\",{}]", real_target.as_usize()),
                    TerminatorKind::InlineAsm { .. } => "[\"asm\"]".to_string(),
                };
                out.push_str(&t);
                out.push('}');
            }
            out.push_str("]");
            // promoted constants: the value expression of each (first assignment of its tiny body)
            {
                let proms = tcx.promoted_mir(did);
                if !proms.is_empty() {
                    out.push_str(",\"promoted\":[");
                    for (pi, pb) in proms.iter().enumerate() {
                        if pi > 0 {
                            out.push(',');
                        }
                        let mut v = String::from("null");
                        let ptenv = tenv;
                        'outer: for data in pb.basic_blocks.iter() {
                            for st in &data.statements {
                                if let StatementKind::Assign(b) = &st.kind {
                                    let (_, rv) = &**b;
                                    if !matches!(rv, Rvalue::Ref(..)) {
                                        v = cx.rvalue(pb, ptenv, rv);
                                        break 'outer;
                                    }
                                }
                            }
                        }
                        out.push_str(&v);
                    }
                    out.push(']');
                    // every non-reference assignment of each promoted body, in order (array literals: the
                    // element values precede the array aggregate)
                    out.push_str(",\"promoted_all\":[");
                    for (pi, pb) in proms.iter().enumerate() {
                        if pi > 0 {
                            out.push(',');
                        }
                        out.push('[');
                        let mut first = true;
                        for data in pb.basic_blocks.iter() {
                            for st in &data.statements {
                                if let StatementKind::Assign(b) = &st.kind {
                                    let (pl, rv) = &**b;
                                    if !matches!(rv, Rvalue::Ref(..)) {
                                        if !first {
                                            out.push(',');
                                        }
                                        first = false;
                                        out.push_str(&format!("[{},{}]", pl.local.as_usize(), cx.rvalue(pb, tenv, rv)));
                                    }
                                }
                            }
                        }
                        out.push(']');
                    }
                    out.push(']');
                }
            }
            // coroutine layout: types of locals saved across suspension points
            if is_co {
                if let Some(layout) = body.coroutine_layout_raw() {
                    out.push_str(",\"saved\":[");
                    for (i, f) in layout.field_tys.iter().enumerate() {
                        if i > 0 {
                            out.push(',');
                        }
                        out.push_str(&js(&cx.ty(f.ty)));
                    }
                    out.push(']');
                }
            }
            out.push_str("}\n");
        }

        // ---------------- ADTs and impl tables ----------------
        let mut nadts = 0usize;
        for id in tcx.hir_free_items() {
            let did = id.owner_id.to_def_id();
            let kind = tcx.def_kind(did);
            match kind {
                DefKind::Struct | DefKind::Enum | DefKind::Union => {
                    let adt = tcx.adt_def(did);
                    nadts += 1;
                    let _ = write!(
                        out,
                        "{{\"k\":\"adt\",\"path\":{},\"kind\":{},\"loc\":{},\"variants\":[",
                        js(&cx.path(did)),
                        js(if adt.is_enum() { "enum" } else { "struct" }),
                        cx.loc(tcx.def_span(did), false)
                    );
                    for (vi, v) in adt.variants().iter().enumerate() {
                        if vi > 0 {
                            out.push(',');
                        }
                        let discr = if adt.is_enum() {
                            adt.discriminant_for_variant(tcx, rustc_abi::VariantIdx::from_usize(vi)).val.to_string()
                        } else {
                            "0".to_string()
                        };
                        let _ = write!(out, "{{\"name\":{},\"discr\":{},\"fields\":[", js(&v.name.to_string()), js(&discr));
                        for (fi, f) in v.fields.iter().enumerate() {
                            if fi > 0 {
                                out.push(',');
                            }
                            let ft = tcx.type_of(f.did).instantiate_identity().skip_norm_wip();
                            let _ = write!(out, "[{},{}]", js(&f.name.to_string()), js(&cx.ty(ft)));
                        }
                        out.push_str("]}");
                    }
                    let _ = write!(out, "],\"has_drop\":{}}}\n", tcx.adt_destructor(did).is_some());
                }
                DefKind::Impl { of_trait } => {
                    let self_ty = tcx.type_of(did).instantiate_identity().skip_norm_wip();
                    let _ = write!(out, "{{\"k\":\"impl\",\"self_ty\":{}", js(&cx.ty(self_ty)));
                    if of_trait {
                        if let Some(tr) = tcx.impl_opt_trait_ref(did) {
                            let tr = tr.instantiate_identity().skip_norm_wip();
                            let _ = write!(
                                out,
                                ",\"trait\":{},\"trait_ref\":{}",
                                js(&cx.path(tr.def_id)),
                                js(&with_no_trimmed_paths!(tr.to_string()))
                            );
                        }
                    }
                    out.push_str(",\"methods\":{");
                    let mut first = true;
                    for item in tcx.associated_items(did).in_definition_order() {
                        if !matches!(item.kind, ty::AssocKind::Fn { .. }) {
                            continue;
                        }
                        if !first {
                            out.push(',');
                        }
                        first = false;
                        let key = match item.trait_item_def_id() {
                            Some(t) => cx.path(t),
                            None => item.name().to_string(),
                        };
                        let _ = write!(out, "{}:{}", js(&key), js(&cx.path(item.def_id)));
                    }
                    out.push_str("}}\n");
                }
                _ => {}
            }
        }

        // ---------------- instance graph ----------------
        let mono = TypingEnv::fully_monomorphized();
        let mut ids: HashMap<Instance<'tcx>, usize> = HashMap::new();
        let mut order: Vec<(Instance<'tcx>, bool)> = Vec::new(); // (instance, identity-generic root)
        let mut work: VecDeque<usize> = VecDeque::new();
        let intern = |inst: Instance<'tcx>, idroot: bool, ids: &mut HashMap<Instance<'tcx>, usize>, order: &mut Vec<(Instance<'tcx>, bool)>, work: &mut VecDeque<usize>| -> usize {
            if let Some(i) = ids.get(&inst) {
                return *i;
            }
            let i = order.len();
            ids.insert(inst, i);
            order.push((inst, idroot));
            work.push_back(i);
            i
        };
        let mut generic_roots: Vec<DefId> = Vec::new();
        for ldid in tcx.hir_body_owners() {
            let did = ldid.to_def_id();
            let kind = tcx.def_kind(did);
            if !matches!(kind, DefKind::Fn | DefKind::AssocFn) {
                continue;
            }
            if tcx.generics_of(did).requires_monomorphization(tcx) {
                generic_roots.push(did);
                continue;
            }
            intern(Instance::mono(tcx, did), false, &mut ids, &mut order, &mut work);
        }
        let mut ninst_lines = 0usize;
        let mut nedges = 0usize;
        let mut nunres = 0usize;
        let mut instantiated_defs: HashSet<DefId> = HashSet::new();
        let mut phase2 = false;
        loop {
            while let Some(i) = work.pop_front() {
                let (inst, idroot) = order[i];
                let did = inst.def_id();
                if !did.is_local() || !matches!(inst.def, InstanceKind::Item(_)) || !tcx.is_mir_available(did) {
                    continue;
                }
                if !matches!(tcx.def_kind(did), DefKind::Fn | DefKind::AssocFn | DefKind::Closure) {
                    continue;
                }
                instantiated_defs.insert(did);
                let body = tcx.optimized_mir(did);
                let tenv = if idroot { TypingEnv::post_analysis(tcx, did) } else { mono };
                let mut line = format!(
                    "{{\"k\":\"inst\",\"n\":{},\"body\":{},\"path\":{},\"full\":{},\"idroot\":{},\"calls\":{{",
                    i,
                    did.expect_local().local_def_index.as_u32(),
                    js(&cx.path(did)),
                    js(&cx.path_args(did, inst.args)),
                    idroot
                );
                let mut first = true;
                let mut drops = String::new();
                let mut ctors = String::new();
                let mut unsz = String::new();
                for (bi, data) in body.basic_blocks.iter().enumerate() {
                    for st in &data.statements {
                        if let StatementKind::Assign(b) = &st.kind {
                            match &b.1 {
                                Rvalue::Aggregate(k, _) => {
                                    if let AggregateKind::Closure(cd, cargs) | AggregateKind::Coroutine(cd, cargs) = &**k {
                                        let ci = if idroot {
                                            Instance::new_raw(*cd, cargs)
                                        } else {
                                            let cargs = inst.instantiate_mir_and_normalize_erasing_regions(tcx, tenv, EarlyBinder::bind(*cargs));
                                            Instance::new_raw(*cd, cargs)
                                        };
                                        let n = intern(ci, idroot, &mut ids, &mut order, &mut work);
                                        if !ctors.is_empty() {
                                            ctors.push(',');
                                        }
                                        let _ = write!(ctors, "[{},{}]", bi, n);
                                    }
                                }
                                Rvalue::Cast(CastKind::PointerCoercion(ty::adjustment::PointerCoercion::Unsize, _), op, to) => {
                                    let from = op.ty(&body.local_decls, tcx);
                                    let (from, to) = if idroot {
                                        (from, *to)
                                    } else {
                                        (
                                            inst.instantiate_mir_and_normalize_erasing_regions(tcx, tenv, EarlyBinder::bind(from)),
                                            inst.instantiate_mir_and_normalize_erasing_regions(tcx, tenv, EarlyBinder::bind(*to)),
                                        )
                                    };
                                    let tos = cx.ty(to);
                                    if tos.contains("dyn ") {
                                        if !unsz.is_empty() {
                                            unsz.push(',');
                                        }
                                        let _ = write!(unsz, "[{},{}]", js(&cx.ty(from)), js(&tos));
                                    }
                                }
                                Rvalue::Cast(CastKind::PointerCoercion(ty::adjustment::PointerCoercion::ReifyFnPointer(_), _), op, _)
                                | Rvalue::Cast(CastKind::PointerCoercion(ty::adjustment::PointerCoercion::ClosureFnPointer(_), _), op, _) => {
                                    // function pointers: treat the reified function as called from here
                                    let fty = op.ty(&body.local_decls, tcx);
                                    let fty = if idroot { fty } else { inst.instantiate_mir_and_normalize_erasing_regions(tcx, tenv, EarlyBinder::bind(fty)) };
                                    if let ty::FnDef(cd, cargs) = fty.kind() {
                                        if let Ok(Some(ci)) = Instance::try_resolve(tcx, tenv, *cd, cargs) {
                                            if ci.def_id().is_local() {
                                                let n = intern(ci, idroot, &mut ids, &mut order, &mut work);
                                                if !ctors.is_empty() {
                                                    ctors.push(',');
                                                }
                                                let _ = write!(ctors, "[{},{}]", bi, n);
                                            }
                                        }
                                    }
                                }
                                _ => {}
                            }
                        }
                    }
                    match &data.terminator().kind {
                        TerminatorKind::Call { func, .. } | TerminatorKind::TailCall { func, .. } => {
                            let fty = func.ty(&body.local_decls, tcx);
                            let fty = if idroot { fty } else { inst.instantiate_mir_and_normalize_erasing_regions(tcx, tenv, EarlyBinder::bind(fty)) };
                            let entry = if let ty::FnDef(cd, cargs) = fty.kind() {
                                match Instance::try_resolve(tcx, tenv, *cd, cargs) {
                                    Ok(Some(ci)) => {
                                        nedges += 1;
                                        let cdid = ci.def_id();
                                        let kind = match ci.def {
                                            InstanceKind::Item(_) => "item",
                                            InstanceKind::Virtual(..) => "virtual",
                                            InstanceKind::Intrinsic(_) => "intrinsic",
                                            InstanceKind::ClosureOnceShim { .. } => "closure_once",
                                            InstanceKind::FnPtrShim(..) => "fnptr_shim",
                                            InstanceKind::DropGlue(..) => "drop_glue",
                                            InstanceKind::CloneShim(..) => "clone_shim",
                                            InstanceKind::ReifyShim(..) => "reify",
                                            InstanceKind::VTableShim(..) => "vtable_shim",
                                            _ => "shim",
                                        };
                                        let local_ok = cdid.is_local()
                                            && matches!(ci.def, InstanceKind::Item(_) | InstanceKind::ClosureOnceShim { .. })
                                            && tcx.is_mir_available(cdid);
                                        let still_generic = idroot && local_ok && ci.args.has_param() && cdid != did
                                            && tcx.typeck_root_def_id(cdid) != tcx.typeck_root_def_id(did);
                                        let kind = if still_generic { "generic" } else { kind };
                                        let n = if still_generic {
                                            -1
                                        } else if local_ok {
                                            // ClosureOnceShim wraps the closure body: point at the closure itself
                                            let target = if let InstanceKind::ClosureOnceShim { .. } = ci.def {
                                                Instance::new_raw(cdid, ci.args)
                                            } else {
                                                ci
                                            };
                                            intern(target, idroot, &mut ids, &mut order, &mut work) as i64
                                        } else {
                                            -1
                                        };
                                        format!(
                                            "[{},{},{},{}]",
                                            js(kind),
                                            n,
                                            js(&cx.path(cdid)),
                                            js(&cx.path_args(cdid, ci.args))
                                        )
                                    }
                                    _ => {
                                        nunres += 1;
                                        format!("[\"unresolved\",-1,{},{}]", js(&cx.path(*cd)), js(&cx.path_args(*cd, cargs)))
                                    }
                                }
                            } else {
                                // call through a function pointer or closure object held in a local
                                format!("[\"indirect\",-1,{},\"\"]", js(&cx.ty(fty)))
                            };
                            if !first {
                                line.push(',');
                            }
                            first = false;
                            let _ = write!(line, "\"{}\":{}", bi, entry);
                        }
                        TerminatorKind::Drop { place, .. } => {
                            let t = place.ty(&body.local_decls, tcx).ty;
                            let t = if idroot { t } else { inst.instantiate_mir_and_normalize_erasing_regions(tcx, tenv, EarlyBinder::bind(t)) };
                            let mut seen = HashSet::new();
                            let mut v = Vec::new();
                            drop_impls(tcx, t, &mut seen, &mut v, 0);
                            if !v.is_empty() {
                                if !drops.is_empty() {
                                    drops.push(',');
                                }
                                let _ = write!(drops, "\"{}\":[", bi);
                                for (k, di) in v.iter().enumerate() {
                                    if k > 0 {
                                        drops.push(',');
                                    }
                                    let n = intern(*di, idroot, &mut ids, &mut order, &mut work);
                                    let _ = write!(drops, "{}", n);
                                }
                                drops.push(']');
                            }
                        }
                        _ => {}
                    }
                }
                let _ = write!(line, "}},\"drops\":{{{}}},\"ctors\":[{}],\"unsize\":[{}]}}\n", drops, ctors, unsz);
                out.push_str(&line);
                ninst_lines += 1;
            }
            if phase2 {
                break;
            }
            phase2 = true;
            // generic functions never instantiated inside the crate: analyse with identity substitutions
            for did in &generic_roots {
                if !instantiated_defs.contains(did) {
                    let args = ty::GenericArgs::identity_for_item(tcx, *did);
                    intern(Instance::new_raw(*did, args), true, &mut ids, &mut order, &mut work);
                }
            }
        }
        let _ = write!(
            out,
            "{{\"k\":\"meta\",\"crate\":{},\"bodies\":{},\"adts\":{},\"instances\":{},\"inst_lines\":{},\"edges\":{},\"unresolved\":{},\"generic_roots\":{}}}\n",
            js(&cx.krate),
            nbodies,
            nadts,
            order.len(),
            ninst_lines,
            nedges,
            nunres,
            generic_roots.len()
        );
        let tmp = format!("{}.tmp.{}", out_path, std::process::id());
        std::fs::write(&tmp, out.as_bytes()).expect("write facts");
        std::fs::rename(&tmp, &out_path).expect("rename facts");
        eprintln!(
            "verif-driver: crate={} bodies={} instances={} edges={} unresolved={} -> {}",
            krate,
            nbodies,
            order.len(),
            nedges,
            nunres,
            out_path
        );
        Compilation::Continue
    }
}

fn main() {
    let mut args: Vec<String> = std::env::args().collect();
    // RUSTC_WORKSPACE_WRAPPER passes the real rustc path as argv[1]
    if args.len() > 1 && (args[1].ends_with("rustc") || args[1].contains("/rustc")) {
        args.remove(1);
    }
    rustc_driver::run_compiler(&args, &mut Cb);
}
