#!/bin/sh
# Offline setup: build the fact-extractor driver and warm the dependency build of /repo
# (nightly toolchain, private target dir under /verif/.cache).
set -e
cd "$(dirname "$0")"
export CARGO_NET_OFFLINE=true
(cd driver && cargo build --offline --release)
python3 -m analysis.extract default >/dev/null
echo "verif setup done"
